(* Props/C04.v — the theorems that decide C04 (GSUB substitution semantics).  Statements only; every proof is
   `exact <lemma>` and is followed by Print Assumptions.  Model: Model/Layout.v + Model/Gsub.v (after
   src/context.rs, src/gdef.rs, src/layout.rs lookup parts, src/gsub.rs); declarative side: Model/LayoutSpec.v,
   Model/GsubSpec.v; constants regenerated from the source into Gen/LayoutConsts.v. *)
From AV Require Import Base.Prelude Gen.LayoutConsts Model.Reader Model.Layout Model.LayoutSpec Model.Gsub Model.GsubSpec
  Model.FeatureVariations Model.FeatureVariationsSpec Model.FontShape Proofs.FontShapeProofs
  Proofs.LayoutProofs Proofs.GsubProofs Proofs.LigatureProofs Proofs.ContextProofs Proofs.FeatureVariationsProofs.
From Coq Require Import Permutation.
Open Scope Z_scope.

(* ---------------------------------------------------------------- (a) lookup-flag skipping *)
(* the masks of the LookupFlag getters are the bits / byte the OpenType lookupFlag table assigns *)
Theorem C04_flag_bits : forall f, 0 <= f < 65536 ->
  get_ignore_bases f = Z.testbit f 1 /\ get_ignore_ligatures f = Z.testbit f 2 /\
  flag_test f FLAG_IGNORE_MARKS = Z.testbit f 3 /\ use_mark_filtering_set f = Z.testbit f 4 /\
  flag_test f FLAG_MAT_MASK = negb (mark_attachment_type f =? 0) /\
  Z.shiftr f FLAG_MAT_SHIFT mod 256 = mark_attachment_type f /\ get_rtl f = Z.testbit f 0.
Proof. exact flag_decode. Qed.
Print Assumptions C04_flag_bits.

(* MatchType::from_lookup_flag + match_glyph = the skip rule of the specification, for every 16-bit flag
   word, every mark filtering set index, every GDEF and every glyph — outside the one flag class of the known
   finding F12 (mark attachment type AND mark filtering set without ignoreMarks) *)
Theorem C04_match_glyph_is_skip_spec : forall f mfs gd g,
  0 <= f < 65536 -> flag_combines_attach_and_set f mfs = false ->
  match_glyph (from_lookup_flag f mfs) gd g = negb (skip_spec f mfs gd g).
Proof. exact match_glyph_skip_spec. Qed.
Print Assumptions C04_match_glyph_is_skip_spec.

(* witness: inside that class the implementation's rule really differs from the specification's *)
Example C04_F12_witness :
  let gd := Some (mkGdef (Some (CdF1 0 [0; 1; 3; 3])) (Some (CdF1 0 [0; 0; 1; 1])) (Some [CovF1 [2]])) in
  flag_combines_attach_and_set 272 (Some 0) = true /\
  match_glyph (from_lookup_flag 272 (Some 0)) gd 3 = true /\ skip_spec 272 (Some 0) gd 3 = true.
Proof. vm_compute. repeat split. Qed.

(* non-vacuity (F11, fixed): with a mark filtering set the base glyph 1 and the in-set mark 2 take part,
   the mark 3 outside the set is skipped *)
Example C04_mark_filtering_set_example :
  let gd := Some (mkGdef (Some (CdF1 0 [0; 1; 3; 3])) None (Some [CovF1 [2]])) in
  map (match_glyph (from_lookup_flag 16 (Some 0)) gd) [1; 2; 3] = [true; true; false].
Proof. vm_compute. reflexivity. Qed.

(* ---------------------------------------------------------------- (b) Coverage and ClassDef *)
Theorem C04_coverage_format1 : forall l, strictly_sorted l ->
  (forall j, 0 <= j < len l -> coverage_value (CovF1 l) (nthZ l j) = Some j) /\
  (forall g, coverage_value (CovF1 l) g = None <-> ~ In g l) /\
  (forall g j, coverage_value (CovF1 l) g = Some j -> 0 <= j < len l /\ nthZ l j = g).
Proof. exact coverage_format1_spec. Qed.
Print Assumptions C04_coverage_format1.

(* both formats denote "position in the covered glyph list" (well-formed tables of at most 65536 glyphs) *)
Theorem C04_coverage_denotation : forall c g,
  coverage_wf c -> len (coverage_glyphs c) <= 65536 ->
  coverage_value c g = index_of g (coverage_glyphs c) 0.
Proof. exact coverage_denotation. Qed.
Print Assumptions C04_coverage_denotation.

(* any format 2 table, well-formed or not: the first range containing the glyph decides; an index that does
   not fit in 16 bits means "not covered" (fix of the u16 overflow, F21) *)
Theorem C04_coverage_format2_first_range : forall pre s e sci post g,
  (forall s' e' i', In (s', e', i') pre -> ~ (s' <= g <= e')) -> s <= g <= e ->
  coverage_value (CovF2 (pre ++ (s, e, sci) :: post)) g =
  if sci + (g - s) <? 65536 then Some (sci + (g - s)) else None.
Proof. exact coverage_format2_first_range. Qed.
Print Assumptions C04_coverage_format2_first_range.

Theorem C04_classdef_format1 : forall s vals g,
  class_value (CdF1 s vals) g = if (s <=? g) && (g <? s + len vals) then nthZ vals (g - s) else 0.
Proof. exact classdef_format1_spec. Qed.
Print Assumptions C04_classdef_format1.

Theorem C04_classdef_format2_first_range : forall pre s e c post g,
  (forall s' e' c', In (s', e', c') pre -> ~ (s' <= g <= e')) -> s <= g <= e ->
  class_value (CdF2 (pre ++ (s, e, c) :: post)) g = c.
Proof. exact classdef_format2_first_range. Qed.
Print Assumptions C04_classdef_format2_first_range.

Theorem C04_classdef_format2_default : forall rs g,
  (forall s e c, In (s, e, c) rs -> ~ (s <= g <= e)) -> class_value (CdF2 rs) g = 0.
Proof. exact classdef_format2_default. Qed.
Print Assumptions C04_classdef_format2_default.

Theorem C04_classdef_formats_agree : forall s vals g,
  class_value (CdF1 s vals) g = class_value (CdF2 (singles s vals)) g.
Proof. exact classdef_formats_agree. Qed.
Print Assumptions C04_classdef_formats_agree.

Example C04_coverage_example :
  coverage_wf (CovF2 [(3, 5, 0); (9, 9, 3)]) /\
  map (coverage_value (CovF2 [(3, 5, 0); (9, 9, 3)])) [2; 3; 5; 9; 10] = [None; Some 0; Some 2; Some 3; None] /\
  coverage_value (CovF2 [(1, 10, 65530)]) 9 = None.
Proof. split; [cbn [coverage_wf ranges_wf]; lia|vm_compute; split; reflexivity]. Qed.

(* ---------------------------------------------------------------- context matching *)
(* MatchContext::matches = "backtrack entries against the unskipped glyphs to the left (nearest first),
   input then lookahead entries against the unskipped glyphs to the right" *)
Theorem C04_context_match_spec : forall mt gd mc ids i, 0 <= i <= len ids ->
  mc_matches gd mt mc ids i = context_matches_spec gd mt mc ids i.
Proof. exact mc_matches_spec. Qed.
Print Assumptions C04_context_match_spec.

(* ---------------------------------------------------------------- (c) first matching subtable wins *)
Theorem C04_first_subtable_wins : forall (S A : Type) (f : S -> outcome (option A)) subs a,
  first_subtable f subs = Ok (Some a) <->
  exists pre s post, subs = pre ++ s :: post /\ Forall (fun s' => f s' = Ok None) pre /\ f s = Ok (Some a).
Proof. exact @first_subtable_some. Qed.
Print Assumptions C04_first_subtable_wins.

Theorem C04_singlesubst_first_match : forall subs tag g g',
  singlesubst subs tag g = Ok g' <->
  (exists pre s post out,
      subs = pre ++ s :: post /\ Forall (fun s' => single_apply_glyph s' (g_id g) = Ok None) pre /\
      single_apply_glyph s (g_id g) = Ok (Some out) /\
      g' = (if (tag =? TAG_VERT_ALT_1) || (tag =? TAG_VERT_ALT_2) then set_vert (set_id g out) else set_id g out))
  \/ (Forall (fun s => single_apply_glyph s (g_id g) = Ok None) subs /\ g' = g).
Proof. exact singlesubst_first_match. Qed.
Print Assumptions C04_singlesubst_first_match.

Theorem C04_single_format1_delta_mod_65536 : forall cov d g,
  covers cov g = true -> single_apply_glyph (SingleF1 cov d) g = Ok (Some ((g + d) mod 65536)).
Proof. exact single_format1_delta. Qed.
Print Assumptions C04_single_format1_delta_mod_65536.

Theorem C04_single_format2_array : forall cov subst g ci out,
  coverage_value cov g = Some ci -> nth_opt subst ci = Some out ->
  single_apply_glyph (SingleF2 cov subst) g = Ok (Some out).
Proof. exact single_format2_array. Qed.
Print Assumptions C04_single_format2_array.

(* ---------------------------------------------------------------- (c) per-type application loops *)
(* type 1 on any window inside the run: pointwise, skipped glyphs and glyphs outside the window untouched *)
Theorem C04_single_lookup_spec : forall m lks gd li tag alt gs start length lk subs,
  get_lookup lks li = Ok lk -> lk_body lk = LSingle subs ->
  0 <= start -> 0 <= length -> start + length <= len gs -> len gs < USIZE ->
  let mt := from_lookup_flag (lk_flag lk) (lk_mfs lk) in
  forall gs' l', gsub_apply_lookup m (Some lks) gd li tag alt gs start length = Ok (gs', l') <->
  exists w', Forall2 (fun g g' => single_spec mt gd subs tag g = Ok g') (take length (drop start gs)) w' /\
             gs' = take start gs ++ w' ++ drop (start + length) gs /\ l' = length.
Proof. exact single_lookup_spec. Qed.
Print Assumptions C04_single_lookup_spec.

Theorem C04_alternate_lookup_spec : forall m lks gd li tag alt gs start length lk subs,
  get_lookup lks li = Ok lk -> lk_body lk = LAlternate subs ->
  0 <= start -> 0 <= length -> start + length <= len gs -> len gs < USIZE ->
  let mt := from_lookup_flag (lk_flag lk) (lk_mfs lk) in
  let a := match alt with Some a => a | None => 0 end in
  forall gs' l', gsub_apply_lookup m (Some lks) gd li tag alt gs start length = Ok (gs', l') <->
  exists w', Forall2 (fun g g' => alternate_spec mt gd subs a g = Ok g') (take length (drop start gs)) w' /\
             gs' = take start gs ++ w' ++ drop (start + length) gs /\ l' = length.
Proof. exact alternate_lookup_spec. Qed.
Print Assumptions C04_alternate_lookup_spec.

(* type 2 on any window inside the run: the in-place insert/remove loop with its i/length bookkeeping is the
   concatenation of the per-glyph expansions (the empty sequence deletes); returned length = new window length *)
Theorem C04_multiple_lookup_spec : forall m lks gd li tag alt gs start length lk subs,
  get_lookup lks li = Ok lk -> lk_body lk = LMultiple subs -> seqs_small subs ->
  0 <= start -> 0 <= length -> start + length <= len gs -> 65537 * (len gs + 1) < USIZE ->
  let mt := from_lookup_flag (lk_flag lk) (lk_mfs lk) in
  gsub_apply_lookup m (Some lks) gd li tag alt gs start length =
  (r <- flat_map_out (multiple_spec mt gd subs) (take length (drop start gs)) ;;
   Ok (take start gs ++ r ++ drop (start + length) gs, len r)).
Proof. exact multiple_lookup_spec. Qed.
Print Assumptions C04_multiple_lookup_spec.

Theorem C04_multiple_replicates_characters : forall subs g out,
  multi_expand subs g = Ok out -> Forall (fun o => g_chars o = g_chars g) out.
Proof. exact multiple_replicates_characters. Qed.
Print Assumptions C04_multiple_replicates_characters.

(* type 4 on a window that reaches the end of the run (the whole run is start = 0): Ligature::matches +
   Ligature::apply + the i/length bookkeeping = the declarative left-to-right scan lig_scan *)
Theorem C04_ligature_lookup_spec : forall m lks gd li tag alt gs start wlen lk subs,
  get_lookup lks li = Ok lk -> lk_body lk = LLigature subs ->
  0 <= start -> 0 <= wlen -> start + wlen = len gs -> len gs < USIZE ->
  let mt := from_lookup_flag (lk_flag lk) (lk_mfs lk) in
  gsub_apply_lookup m (Some lks) gd li tag alt gs start wlen =
  (r <- lig_scan (loop_fuel gs) mt gd subs (drop start gs) ;; Ok (take start gs ++ r, len r)).
Proof. exact ligature_lookup_spec. Qed.
Print Assumptions C04_ligature_lookup_spec.

(* the scan's fuel never runs out *)
Theorem C04_ligature_scan_fuel : forall mt gd subs fuel l,
  (length l < fuel)%nat -> lig_scan fuel mt gd subs l <> Err OtherErr.
Proof. exact lig_scan_fuel. Qed.
Print Assumptions C04_ligature_scan_fuel.

(* the ligature glyph carries its own characters followed by the characters of all absorbed components, in
   order (the absorbed components are the first n glyphs after it that the lookup does not skip) *)
Theorem C04_ligature_carries_component_characters : forall mt gd rest n acc m,
  match lig_absorb mt gd rest n acc m with
  | (a, kept, rem) =>
    g_chars a = g_chars acc ++ chars (firstn n (filter (fun c => match_glyph mt gd (g_id c)) rest)) /\
    Permutation (g_chars a ++ chars kept ++ chars rem) (g_chars acc ++ chars rest)
  end.
Proof. exact absorb_chars. Qed.
Print Assumptions C04_ligature_carries_component_characters.

Theorem C04_ligature_preserves_characters : forall mt gd subs fuel l out,
  lig_scan fuel mt gd subs l = Ok out -> Permutation (chars out) (chars l).
Proof. exact ligature_scan_preserves_characters. Qed.
Print Assumptions C04_ligature_preserves_characters.

Theorem C04_ligature_sets_flag : forall mt gd rest n acc m,
  enough mt gd (S n) rest -> g_lig (fst (fst (lig_absorb mt gd rest (S n) acc m))) = true.
Proof. exact absorb_sets_lig_flag. Qed.
Print Assumptions C04_ligature_sets_flag.

(* non-vacuity: f + (mark) + i -> fi; the skipped mark stays, characters of both components are carried *)
Example C04_ligature_example :
  let gd := Some (mkGdef (Some (CdF1 0 [0; 1; 1; 3; 2])) None None) in
  let lks := [mkLookup 8 None (LLigature [mkLigS (CovF1 [1]) [[mkLig 4 [2]]]])] in
  let gl id c := mkGlyph id [c] 0 (Some c) false false false 0 in
  gsub_apply_lookup Debug (Some lks) gd 0 0 None [gl 1 102; gl 3 769; gl 2 105; gl 3 770] 0 4 =
  Ok ([mkGlyph 4 [102; 105] 0 None true false false 0;
       mkGlyph 3 [769] 0 (Some 769) false false false 0;
       mkGlyph 3 [770] 1 (Some 770) false false false 0], 3).
Proof. vm_compute. reflexivity. Qed.

Example C04_multiple_example :
  let lks := [mkLookup 0 None (LMultiple [mkMulti (CovF1 [1; 2]) [[5; 6; 7]; []]])] in
  let gl id c := mkGlyph id [c] 0 (Some c) false false false 0 in
  gsub_apply_lookup Debug (Some lks) None 0 0 None [gl 1 97; gl 2 98; gl 3 99] 0 3 =
  Ok ([mkGlyph 5 [97] 0 None false false false 0; mkGlyph 6 [97] 0 None false true false 0;
       mkGlyph 7 [97] 0 None false true false 0; gl 3 99], 4).
Proof. vm_compute. reflexivity. Qed.

(* ---------------------------------------------------------------- (d) lookup ordering *)
Theorem C04_lookups_applied_in_list_order : forall t ls feature_tags rvrn lks,
  build_lookups_custom t ls feature_tags None [] = Ok (rvrn, lks) ->
  strictly_sorted (map fst lks) /\
  (forall k, In k (map fst lks) <-> contributes t ls feature_tags k) /\
  (forall tg, In tg (map snd lks) -> In tg (map fst feature_tags)).
Proof. exact lookups_applied_in_list_order. Qed.
Print Assumptions C04_lookups_applied_in_list_order.

Theorem C04_each_lookup_once : forall l, strictly_sorted l -> NoDup l.
Proof. exact strictly_sorted_NoDup. Qed.
Print Assumptions C04_each_lookup_once.

Example C04_ordering_example :
  let t := mkLayout None (Some [(1, [7; 2]); (2, [5; 2]); (TAG_RVRN, [9])]) None in
  build_lookups_custom t (mkLangSys [1; 0; 2]) [(2, None); (TAG_RVRN, None); (1, None)] None [] =
  Ok (Some [9], [(2, 1); (5, 2); (7, 1)]).
Proof. vm_compute. reflexivity. Qed.

(* Features::Mask (gsub_apply_default, ScriptType::Default): the same for the list built from the mask — strictly
   increasing lookup indices, so a lookup listed by several enabled features is applied once *)
Theorem C04_mask_lookups_applied_in_list_order : forall t script lang mask lks,
  lookups_for_mask t script lang mask = Ok lks ->
  strictly_sorted (map fst lks) /\
  (forall s ls, find_script_or_default t script = Some s -> find_langsys_or_default s lang = Some ls ->
     forall k, In k (map fst lks) <-> contributes_mask t ls mask FEATURE_MASKS k).
Proof. exact mask_lookups_applied_in_list_order. Qed.
Print Assumptions C04_mask_lookups_applied_in_list_order.

(* non-vacuity: clig (bit 11) and liga (bit 22) both list lookup 0 (+1 on every glyph): it runs once *)
Example C04_mask_shared_lookup_example :
  let clig := 1668049255 in let liga := 1818847073 in
  let t := mkLayout (Some [(TAG_DFLT, mkScript (Some (mkLangSys [0; 1])) [])])
                    (Some [(clig, [0]); (liga, [0; 1])])
                    (Some [mkLookup 0 None (LSingle [SingleF1 (CovF2 [(0, 100, 0)]) 1]);
                           mkLookup 0 None (LSingle [SingleF1 (CovF1 [6]) 10])]) in
  lookups_for_mask t TAG_DFLT None (Z.shiftl 1 11 + Z.shiftl 1 22) = Ok [(0, liga); (1, liga)] /\
  gsub_apply_default Debug t None TAG_DFLT None (Z.shiftl 1 11 + Z.shiftl 1 22) 100
    [mkGlyph 5 [97] 0 (Some 97) false false false 0] = Ok [mkGlyph 16 [97] 0 None false false false 0].
Proof. vm_compute. split; reflexivity. Qed.

(* ---------------------------------------------------------------- (e) nested lookups, whole-run bookkeeping *)
(* at every recursion level apply_subst never panics and the `changes` it reports is exactly the change of
   the glyph count (parsed tables: ChainContext format 3 has a non-empty input array) *)
Theorem C04_nested_changes_exact : forall lookups gd tag, lookups_wf lookups ->
  forall lim, good_subst (apply_subst lim lookups gd tag).
Proof. exact apply_subst_good. Qed.
Print Assumptions C04_nested_changes_exact.

Theorem C04_parsed_tables_wf : forall lks, lookups_wf (map lookup_parse lks).
Proof. exact lookup_parse_wf. Qed.
Print Assumptions C04_parsed_tables_wf.

(* every lookup type over the whole run: no panic, fuel suffices, returned length = |result| (the invariant
   start + length <= |glyphs|, with equality).  PARTIAL for types 5/6/8: what the contextual loops compute is
   tied to the implementation by correspondence only, not to a declarative scan (see docs/C04.md). *)
Theorem C04_whole_run_bookkeeping_partial : forall m lks gd li tag alt gs,
  lookups_wf lks -> len gs < MAXLEN ->
  (forall lk subs, get_lookup lks li = Ok lk -> lk_body lk = LMultiple subs -> seqs_small subs /\ 65537 * (len gs + 1) < USIZE) ->
  (forall lk subs mt, get_lookup lks li = Ok lk -> lk_body lk = LContext subs ->
     fits (fun i g => contextsubst (apply_subst recursion_limit lks gd tag) gd subs mt i g)) ->
  (forall lk subs mt, get_lookup lks li = Ok lk -> lk_body lk = LChain subs ->
     fits (fun i g => chaincontextsubst (apply_subst recursion_limit lks gd tag) gd subs mt i g)) ->
  loop_result_ok (gsub_apply_lookup m (Some lks) gd li tag alt gs 0 (len gs)).
Proof. exact gsub_apply_lookup_whole_run. Qed.
Print Assumptions C04_whole_run_bookkeeping_partial.

(* where a contextual lookup resumes: find_nth locates the n-th glyph after i that the lookup does not skip ... *)
Theorem C04_find_nth_is_nth_unskipped : forall mt gd ids0 n i last, 0 <= i -> find_nth mt gd ids0 i n = Some last ->
  exists taken, length taken = n /\
    unskipped mt gd (drop (i + 1) ids0) = taken ++ unskipped mt gd (drop (last + 1) ids0) /\
    (n = O -> last = i) /\ (n <> O -> i < last < len ids0 /\ match_glyph mt gd (nthZ ids0 last) = true).
Proof. exact find_nth_spec. Qed.
Print Assumptions C04_find_nth_is_nth_unskipped.

(* ... and after a match at i the span a contextual lookup reports (and the loop advances by) reaches to the LAST
   input glyph of the match in the run — glyphs the lookup skips between input glyphs are part of it — plus the
   glyph-count change of the nested lookups (clamped at 0) *)
Theorem C04_context_resume_position : forall rec gd subs mt i gs nl ch gs',
  contextsubst rec gd subs mt i gs = Ok (Some (nl, ch), gs') ->
  exists subst last,
    contextsubst_would_apply gd subs mt i gs = Ok (Some subst) /\
    find_nth mt gd (ids gs) i (Z.to_nat (gt_len (mc_input (fst subst)))) = Some last /\
    apply_records rec mt (snd subst) gs i 0 = Ok (ch, gs') /\
    nl = Z.max 0 (last - i + 1 + ch).
Proof. exact contextsubst_resume_position. Qed.
Print Assumptions C04_context_resume_position.

Theorem C04_chain_context_resume_position : forall rec gd subs mt i gs nl ch gs',
  chaincontextsubst rec gd subs mt i gs = Ok (Some (nl, ch), gs') ->
  exists subst last,
    chaincontextsubst_would_apply gd subs mt i gs = Ok (Some subst) /\
    find_nth mt gd (ids gs) i (Z.to_nat (gt_len (mc_input (fst subst)))) = Some last /\
    apply_records rec mt (snd subst) gs i 0 = Ok (ch, gs') /\
    nl = Z.max 0 (last - i + 1 + ch).
Proof. exact chaincontextsubst_resume_position. Qed.
Print Assumptions C04_chain_context_resume_position.

(* lookup types 5 and 6 over the whole run: the loop with its start / i / length bookkeeping is the scan ctx_scan
   (Model/GsubSpec.v): try the rules at every unskipped position, after a match resume behind the matched span *)
Theorem C04_context_lookup_is_scan : forall m lks gd li tag alt gs lk,
  lookups_wf lks -> len gs < MAXLEN -> get_lookup lks li = Ok lk ->
  let mt := from_lookup_flag (lk_flag lk) (lk_mfs lk) in
  (forall subs, lk_body lk = LContext subs ->
     let step := fun i g => contextsubst (apply_subst recursion_limit lks gd tag) gd subs mt i g in
     fits step ->
     gsub_apply_lookup m (Some lks) gd li tag alt gs 0 (len gs) =
     (gs' <- ctx_scan (loop_fuel gs) mt gd step gs 0 ;; Ok (gs', len gs'))) /\
  (forall subs, lk_body lk = LChain subs ->
     let step := fun i g => chaincontextsubst (apply_subst recursion_limit lks gd tag) gd subs mt i g in
     fits step ->
     gsub_apply_lookup m (Some lks) gd li tag alt gs 0 (len gs) =
     (gs' <- ctx_scan (loop_fuel gs) mt gd step gs 0 ;; Ok (gs', len gs'))).
Proof. exact context_lookup_is_scan. Qed.
Print Assumptions C04_context_lookup_is_scan.

(* non-vacuity: GDEF mark 30, flag IgnoreMarks; subtable 0: input 20 21 with 20 -> 25; subtable 1: input 21 with
   21 -> 22; run 20 30 21: after the match at 0 the loop resumes behind glyph 21 (position 2), so subtable 1 is not
   offered the consumed 21: result 25 30 21 *)
Example C04_context_skipped_inside_match_example :
  let gd := Some (mkGdef (Some (CdF2 [(30, 30, 3)])) None None) in
  let gl id c := mkGlyph id [c] 0 (Some c) false false false 0 in
  let lks := [mkLookup 8 None (LContext [CtxF1 (CovF1 [20]) [Some [mkRule [21] [(0, 1)]]];
                                         CtxF1 (CovF1 [21]) [Some [mkRule [] [(0, 2)]]]]);
              mkLookup 0 None (LSingle [SingleF2 (CovF1 [20]) [25]]);
              mkLookup 0 None (LSingle [SingleF2 (CovF1 [21]) [22]])] in
  gsub_apply_lookup Debug (Some lks) gd 0 0 None [gl 20 97; gl 30 98; gl 21 99] 0 3 =
  Ok ([mkGlyph 25 [97] 0 None false false false 0; gl 30 98; gl 21 99], 3).
Proof. vm_compute. reflexivity. Qed.

(* contextual lookups nest to depth SUBST_RECURSION_LIMIT = 2 below the top-level lookup; one level deeper the
   run fails with LimitExceeded instead of recursing *)
Theorem C04_recursion_limit :
  recursion_limit = 2%nat /\
  forall lookups gd tag pmt si li gs index lk i,
  get_lookup lookups li = Ok lk ->
  (exists subs, lk_body lk = LContext subs) \/ (exists subs, lk_body lk = LChain subs) ->
  find_nth pmt gd (ids gs) index (Z.to_nat si) = Some i -> i < len gs ->
  apply_subst 0 lookups gd tag pmt si li gs index = Err LimitExceeded.
Proof. exact (conj recursion_limit_value recursion_limit_refuses). Qed.
Print Assumptions C04_recursion_limit.

(* non-vacuity: a context rule whose nested ligature eats more than the input sequence, and a nested deletion
   followed by a second record at the vanished position (both panicked before the fixes) *)
Example C04_context_examples :
  let gl id c := mkGlyph id [c] 0 (Some c) false false false 0 in
  let ctx recs := mkLookup 0 None (LContext [CtxF1 (CovF1 [1]) [Some [mkRule [] recs]]]) in
  gsub_apply_lookup Debug (Some [ctx [(0, 1)]; mkLookup 0 None (LLigature [mkLigS (CovF1 [1]) [[mkLig 9 [2; 3]]]])])
    None 0 0 None [gl 1 97; gl 2 98; gl 3 99] 0 3 = Ok ([mkGlyph 9 [97; 98; 99] 0 None true false false 0], 1) /\
  gsub_apply_lookup Debug (Some [ctx [(0, 1); (0, 1)]; mkLookup 0 None (LMultiple [mkMulti (CovF1 [1]) [[]]])])
    None 0 0 None [gl 1 97] 0 1 = Ok ([], 0).
Proof. vm_compute. split; reflexivity. Qed.

(* the known window finding: a ligature reaching beyond a proper sub-window underflows `length` *)
Example C04_window_underflow_witness :
  let gl id c := mkGlyph id [c] 0 (Some c) false false false 0 in
  gsub_apply_lookup Debug (Some [mkLookup 0 None (LLigature [mkLigS (CovF1 [1]) [[mkLig 9 [2; 3]]]])])
    None 0 0 None [gl 1 97; gl 2 98; gl 3 99] 0 1 = Panic.
Proof. vm_compute. reflexivity. Qed.


(* ================================================================ (f) feature variations
   Model/FeatureVariations.v (bytes, on the reader model) against Model/FeatureVariationsSpec.v.  `sc` is the
   scope of the FeatureVariations table, `recs` its records (conditionSetOffset, featureTableSubstitutionOffset),
   `t` the variation tuple (F2Dot14 raw values).  All statements are for record lists of any length, any bytes,
   any tuple. *)

(* (f.a) FeatureVariationsOwned::matches returns what the FIRST record that is not passed over yields: a record
   is passed over iff its condition set does not match, or it matches and its substitution table has an
   unsupported version; the chosen record yields its substitution (the NULL offset = NoSubstitution included) or,
   if one of its tables is unreadable, that error.  `first_decisive` is the index of that record. *)
Theorem C04_fv_first_matching_record : forall m sc t recs,
  fv_matches m sc recs t = fv_matches_spec m sc recs t.
Proof. exact fv_matches_first. Qed.
Print Assumptions C04_fv_first_matching_record.

(* ... and nothing after the chosen record is looked at: replacing the tail by anything changes nothing *)
Theorem C04_fv_never_looks_past_the_chosen_record : forall m sc t recs i,
  first_decisive m sc recs t = Some i ->
  forall tail, fv_matches m sc (firstn (S i) recs ++ tail) t = fv_matches m sc recs t.
Proof. exact fv_matches_ignores_later. Qed.
Print Assumptions C04_fv_never_looks_past_the_chosen_record.

(* the same in words, without the status vocabulary: `Ok (Some s)` iff some record i has a matching condition
   set and the readable substitution s, and every earlier record either does not match or matches with an
   unsupported substitution-table version *)
Theorem C04_fv_chosen_record : forall m sc recs t s,
  fv_matches m sc recs t = Ok (Some s) <->
  exists i r, nth_error recs i = Some r /\
    record_condition m sc r t = Ok true /\ record_substitution m sc (snd r) = Ok s /\
    forall j r', (j < i)%nat -> nth_error recs j = Some r' ->
      record_condition m sc r' t = Ok false \/
      (record_condition m sc r' t = Ok true /\ record_substitution m sc (snd r') = Err BadVersion).
Proof. exact fv_matches_some. Qed.
Print Assumptions C04_fv_chosen_record.

Theorem C04_fv_no_record_chosen : forall m sc recs t,
  fv_matches m sc recs t = Ok None <-> forall r, In r recs -> passed_over (record_status m sc r t) = true.
Proof. exact fv_matches_none. Qed.
Print Assumptions C04_fv_no_record_chosen.

(* a matching record with a NULL substitution offset ends the search with "no substitution", whatever follows
   (the seeded regression returned Ok(None) here and went on to the later records) *)
Theorem C04_fv_null_substitution_first : forall m sc cs rest t,
  record_condition m sc (cs, 0) t = Ok true -> fv_matches m sc ((cs, 0) :: rest) t = Ok (Some FSNone).
Proof. exact fv_matches_null_first. Qed.
Print Assumptions C04_fv_null_substitution_first.

(* (f.b) the records before the chosen one were passed over; the chosen one is not *)
Theorem C04_fv_records_before_were_passed_over : forall m sc t recs i,
  first_decisive m sc recs t = Some i ->
  (i < length recs)%nat /\
  (forall j r, (j < i)%nat -> nth_error recs j = Some r -> passed_over (record_status m sc r t) = true) /\
  (forall r, nth_error recs i = Some r -> passed_over (record_status m sc r t) = false).
Proof. exact first_decisive_before. Qed.
Print Assumptions C04_fv_records_before_were_passed_over.

Theorem C04_fv_passed_over_in_words : forall m sc r t,
  passed_over (record_status m sc r t) = true <->
  record_condition m sc r t = Ok false \/
  (record_condition m sc r t = Ok true /\ record_substitution m sc (snd r) = Err BadVersion).
Proof. exact status_passed_over_iff. Qed.
Print Assumptions C04_fv_passed_over_in_words.

(* the head of the search: skip on no-match and on an unsupported version, stop with the error on an unreadable
   condition set (the only error a condition set can produce is Eof, never BadVersion) *)
Theorem C04_fv_search_step : forall m sc r rest t,
  (record_condition m sc r t = Ok false -> fv_matches m sc (r :: rest) t = fv_matches m sc rest t) /\
  (record_condition m sc r t = Ok true -> record_substitution m sc (snd r) = Err BadVersion ->
     fv_matches m sc (r :: rest) t = fv_matches m sc rest t) /\
  (forall e, record_condition m sc r t = Err e -> e = Eof /\ fv_matches m sc (r :: rest) t = Err e).
Proof.
  exact (fun m sc r rest t => conj (fv_matches_nomatch_first m sc r rest t)
     (conj (fv_matches_rejected_first m sc r rest t)
        (fun e H => conj (record_condition_only_eof m sc r t e H) (fv_matches_unreadable_first m sc r rest t e H)))).
Qed.
Print Assumptions C04_fv_search_step.

(* condition sets: offset 0 is the universal condition; a set is the conjunction of its conditions, an
   unreadable condition table or one of an unknown format counts as false; format 1 is the closed range *)
Theorem C04_fv_condition_set : forall m sc t,
  (forall sub, record_condition m sc (0, sub) t = Ok true) /\
  (forall offs b, conditions_all m sc offs t = Ok b -> b = forallb (condition_at_holds m sc t) offs) /\
  (forall a mn mx, condition_matches (CondF1 a mn mx) t = true <-> exists v, tuple_get t a = Some v /\ mn <= v <= mx) /\
  (forall a mn mx, mx < mn -> condition_matches (CondF1 a mn mx) t = false) /\
  (forall a mn mx, len t <= a -> condition_matches (CondF1 a mn mx) t = false) /\
  condition_matches CondUnknown t = false.
Proof.
  exact (fun m sc t => conj (fun sub => record_condition_null_offset m sc sub t)
    (conj (conditions_all_forallb m sc t)
      (conj (fun a mn mx => condition_matches_range a mn mx t)
        (conj (fun a mn mx => condition_empty_range a mn mx t)
          (conj (fun a mn mx => condition_axis_beyond_tuple a mn mx t) (condition_unknown_format t)))))).
Qed.
Print Assumptions C04_fv_condition_set.

(* (f.c) without a tuple or without a FeatureVariations table the feature list is used unchanged *)
Theorem C04_fv_unvaried_custom : forall m t fvt gd script lang feats tu n gs,
  tu = None \/ fvt = None ->
  gsub_apply_custom_v m t fvt gd script lang feats tu n gs = gsub_apply_custom m t gd script lang feats n gs.
Proof. exact gsub_apply_custom_v_unvaried. Qed.
Print Assumptions C04_fv_unvaried_custom.

Theorem C04_fv_unvaried_mask : forall m t fvt gd script lang mask n gs,
  gsub_apply_default_v m t fvt gd script lang mask None n gs = gsub_apply_default m t gd script lang mask n gs.
Proof. exact gsub_apply_default_v_unvaried. Qed.
Print Assumptions C04_fv_unvaried_mask.

(* no record chosen, or the chosen record has a NULL substitution: the unvaried run (Mask: plus the rvrn pass
   that `tuple.is_some()` alone switches on) *)
Theorem C04_fv_no_substitution : forall m t fvt gd script lang tu n gs fv,
  feature_variations m fvt tu = Ok fv -> fv = None \/ fv = Some FSNone ->
  (forall feats, gsub_apply_custom_v m t fvt gd script lang feats tu n gs =
                 gsub_apply_custom m t gd script lang feats n gs) /\
  (forall mask, gsub_apply_default_v m t fvt gd script lang mask tu n gs =
                gsub_apply_default_t m t gd script lang mask (match tu with Some _ => true | None => false end) n gs).
Proof.
  exact (fun m t fvt gd script lang tu n gs fv Hf Hn =>
    conj (fun feats => gsub_apply_custom_v_no_subst m t fvt gd script lang feats tu n gs fv Hf Hn)
         (fun mask => gsub_apply_default_v_no_subst m t fvt gd script lang mask tu n gs fv Hf Hn)).
Qed.
Print Assumptions C04_fv_no_substitution.

(* (f.d) FeatureTableSubstitution::substitute.  On ANY record list the search is decided by the first record
   whose feature index is >= the wanted one: used if equal, given up if larger (the early break). *)
Theorem C04_fv_substitute_any_order : forall fi recs,
  substitution_record recs fi =
  match find (fun r => fi <=? fst r) recs with
  | Some r => if fst r =? fi then Some r else None
  | None => None
  end.
Proof. exact substitution_record_first_ge. Qed.
Print Assumptions C04_fv_substitute_any_order.

(* under the order the format prescribes (non-decreasing feature index) that is the first record with the
   wanted index: the alternate feature table is returned for exactly the feature indices listed *)
Theorem C04_fv_substitute_sorted : forall m sc recs fi, fi_sorted recs ->
  fts_substitute m (FSTable sc recs) fi =
  match find (fun r => fst r =? fi) recs with
  | None => Ok None
  | Some r => alternate_table m sc (snd r)
  end.
Proof. exact fts_substitute_sorted. Qed.
Print Assumptions C04_fv_substitute_sorted.

Theorem C04_fv_substitute_exactly_listed : forall fi recs,
  (~ In fi (map fst recs) -> substitution_record recs fi = None) /\
  (fi_sorted recs -> In fi (map fst recs) -> exists r, substitution_record recs fi = Some r /\ fst r = fi) /\
  (forall r, substitution_record recs fi = Some r -> In r recs /\ fst r = fi).
Proof.
  exact (fun fi recs => conj (substitution_record_unlisted fi recs)
    (conj (substitution_record_listed fi recs) (fun r => substitution_record_sound fi recs r))).
Qed.
Print Assumptions C04_fv_substitute_exactly_listed.

(* unsorted records: a record that comes after one with a larger feature index is never found *)
Theorem C04_fv_substitute_unsorted_shadowed : forall fi r0 rest,
  fi < fst r0 -> substitution_record (r0 :: rest) fi = None.
Proof. exact substitution_record_shadowed. Qed.
Print Assumptions C04_fv_substitute_unsorted_shadowed.

(* (f.e) end to end.  The substituted feature list: tags kept, the lookup list of feature k replaced by the
   alternate table exactly when `substitute k` finds one. *)
Theorem C04_fv_substituted_feature_list : forall m s fl fl', subst_features m s fl 0 = Ok fl' ->
  length fl' = length fl /\
  forall k tag li, nth_error fl k = Some (tag, li) ->
    exists alt, fts_substitute m s (Z.of_nat k) = Ok alt /\
                nth_error fl' k = Some (tag, match alt with Some a => a | None => li end).
Proof. exact subst_features_spec. Qed.
Print Assumptions C04_fv_substituted_feature_list.

(* it exists for every table that is a byte string (shorter than 2^32: the table length field is a u32):
   substitution never panics, so the two theorems below have no side condition on readable tables *)
Theorem C04_fv_substituted_list_exists : forall m d fvt tu fv t,
  table_ok d -> layout_read_fv m d = Ok fvt -> feature_variations m fvt tu = Ok fv ->
  exists t', subst_layout m fv t = Ok t'.
Proof. exact substituted_layout_exists. Qed.
Print Assumptions C04_fv_substituted_list_exists.

(* gsub::apply(Features::Custom) under a tuple = the unvaried run on the feature list substituted by the record
   `matches` chose (f.a); an unreadable table fails the run once script and language system are found *)
Theorem C04_fv_custom_end_to_end : forall m t t' fvt gd script lang feats tu n gs fv,
  feature_variations m fvt tu = Ok fv -> subst_layout m fv t = Ok t' ->
  gsub_apply_custom_v m t fvt gd script lang feats tu n gs = gsub_apply_custom m t' gd script lang feats n gs.
Proof. exact gsub_apply_custom_v_subst. Qed.
Print Assumptions C04_fv_custom_end_to_end.

Theorem C04_fv_custom_unreadable : forall m t fvt gd script lang feats tu n gs e s ls,
  feature_variations m fvt tu = Err e ->
  find_script_or_default t script = Some s -> find_langsys_or_default s lang = Some ls ->
  gsub_apply_custom_v m t fvt gd script lang feats tu n gs = Err e.
Proof. exact gsub_apply_custom_v_error. Qed.
Print Assumptions C04_fv_custom_unreadable.

(* gsub::apply(Features::Mask): the rvrn lookups of the substituted list over the whole run first (when a tuple
   is given), then the mask's lookups of the substituted list *)
Theorem C04_fv_mask_end_to_end : forall m t t' fvt gd script lang mask tu n gs fv,
  feature_variations m fvt tu = Ok fv -> subst_layout m fv t = Ok t' ->
  gsub_apply_default_v m t fvt gd script lang mask tu n gs =
  gsub_apply_default_t m t' gd script lang mask (match tu with Some _ => true | None => false end) n gs.
Proof. exact gsub_apply_default_v_subst. Qed.
Print Assumptions C04_fv_mask_end_to_end.

Theorem C04_fv_mask_unreadable : forall m t fvt gd script lang mask tu n gs e,
  feature_variations m fvt tu = Err e -> gsub_apply_default_v m t fvt gd script lang mask tu n gs = Err e.
Proof. exact gsub_apply_default_v_error. Qed.
Print Assumptions C04_fv_mask_unreadable.

(* from the bytes of the table to the glyphs, in one statement: for every table that is a byte string whose
   variations are readable, gsub::apply under the tuple is the unvaried run on the substituted feature list *)
Theorem C04_fv_gsub_apply_under_tuple : forall m d fvt tu fv t,
  table_ok d -> layout_read_fv m d = Ok fvt -> feature_variations m fvt tu = Ok fv ->
  exists t', subst_layout m fv t = Ok t' /\
    (forall gd script lang feats n gs,
       gsub_apply_custom_v m t fvt gd script lang feats tu n gs = gsub_apply_custom m t' gd script lang feats n gs) /\
    (forall gd script lang mask n gs,
       gsub_apply_default_v m t fvt gd script lang mask tu n gs =
       gsub_apply_default_t m t' gd script lang mask (match tu with Some _ => true | None => false end) n gs).
Proof. exact gsub_apply_under_tuple. Qed.
Print Assumptions C04_fv_gsub_apply_under_tuple.

(* the ordering theorems (d) hold for the list built under a tuple, with the substituted features *)
Theorem C04_fv_lookups_applied_in_list_order : forall m t t' ls fv feats rvrn lks,
  subst_layout m fv t = Ok t' ->
  build_lookups_custom_v m t ls fv feats None [] = Ok (rvrn, lks) ->
  strictly_sorted (map fst lks) /\
  (forall k, In k (map fst lks) <-> contributes t' ls feats k) /\
  (forall tg, In tg (map snd lks) -> In tg (map fst feats)).
Proof. exact fv_lookups_applied_in_list_order. Qed.
Print Assumptions C04_fv_lookups_applied_in_list_order.

Theorem C04_fv_mask_lookups_applied_in_list_order : forall m t t' script lang fv mask lks,
  subst_layout m fv t = Ok t' ->
  lookups_for_mask_v m t script lang fv mask = Ok lks ->
  strictly_sorted (map fst lks) /\
  (forall s ls, find_script_or_default t' script = Some s -> find_langsys_or_default s lang = Some ls ->
     forall k, In k (map fst lks) <-> contributes_mask t' ls mask FEATURE_MASKS k).
Proof. exact fv_mask_lookups_applied_in_list_order. Qed.
Print Assumptions C04_fv_mask_lookups_applied_in_list_order.

(* ---------------------------------------------------------------- non-vacuity (vm_compute on real bytes)
   GSUB 1.1: header with featureVariationsOffset 14, then the FeatureVariations table:
     record 0: wght in [0.75, 1.0] (12288..16384), NULL substitution
     record 1: wght in [0.5, 1.0]  (8192..16384),  feature 0 ('liga') -> lookup 1
   liga -> lookup 0 (glyph 5 -> 6) in the feature list; lookup 1 maps 5 -> 15. *)
(* the NULL-substitution-first case of the seeded regression: at wght = 0.75 record 0 matches and says "no
   substitution"; record 1 (which also matches) must not be applied: glyph 6, not 15 *)
Example C04_fv_null_substitution_first_example :
  (fvt <- layout_read_fv Debug fv_demo_bytes ;; feature_variations Debug fvt (Some [12288])) = Ok (Some FSNone) /\
  fv_demo_run (Some [12288]) = Ok [6] /\
  (* just below record 0's range: record 1 is the first match and swaps liga to lookup 1 *)
  fv_demo_run (Some [12287]) = Ok [15] /\
  fv_demo_run (Some [8192]) = Ok [15] /\
  (* below both ranges, beyond the upper boundary of none (1.0 is inside), no tuple, empty tuple *)
  fv_demo_run (Some [8191]) = Ok [6] /\
  fv_demo_run (Some [16384]) = Ok [6] /\
  fv_demo_run None = Ok [6] /\
  fv_demo_run (Some []) = Ok [6].
Proof. vm_compute. repeat split; reflexivity. Qed.

(* the statuses of the two demo records at 0.75 and at 0.6, and the index `first_decisive` computes *)
Example C04_fv_first_decisive_example :
  let sc := {| base := 14; data := skipn 14 fv_demo_bytes |} in
  let recs := [(24, 0); (38, 52)] in
  first_decisive Debug sc recs [12288] = Some 0%nat /\
  first_decisive Debug sc recs [9830] = Some 1%nat /\
  first_decisive Debug sc recs [0] = None /\
  record_status Debug sc (24, 0) [9830] = RSNoMatch /\
  table_ok fv_demo_bytes.
Proof. vm_compute. repeat split; reflexivity. Qed.

(* an unsupported substitution-table version is rejected and the NEXT record is used; an unreadable condition
   set (offset beyond the data) fails the match; a condition on axis 1 never holds for a one-axis tuple; an
   empty range (min > max) never holds *)
Example C04_fv_rejected_and_unreadable_example :
  let fts major := [0; major; 0;0; 0;1;  0;0; 0;0;0;12;  0;0; 0;1; 0;1] in
  let cond axis mn mx := [0;1; 0;0;0;6;  0;1; 0;axis; mn;0; mx;0] in
  let tbl recs tail := {| base := 0; data := [0;1; 0;0; 0;0;0;2] ++ recs ++ tail |} in
  (* record 0: universal, substitution version 2; record 1: universal, version 1 *)
  (exists sc recs', fv_matches Debug (tbl [0;0;0;0; 0;0;0;24;  0;0;0;0; 0;0;0;42] (fts 2 ++ fts 1))
                      [(0, 24); (0, 42)] [0] = Ok (Some (FSTable sc recs')) /\ base sc = 42) /\
  fv_matches Debug (tbl [0;0;255;0; 0;0;0;0;  0;0;0;0; 0;0;0;0] []) [(65280, 0); (0, 0)] [0] = Err Eof /\
  fv_matches Debug (tbl [0;0;0;24; 0;0;0;0;  0;0;0;0; 0;0;0;38] (cond 1 192 64 ++ fts 1)) [(24, 0); (0, 38)] [0]
    = fv_matches Debug (tbl [0;0;0;24; 0;0;0;0;  0;0;0;0; 0;0;0;38] (cond 1 192 64 ++ fts 1)) [(0, 38)] [0] /\
  condition_matches (CondF1 0 100 (-100)) [0] = false.
Proof. vm_compute. repeat split; try reflexivity. eexists; eexists; split; reflexivity. Qed.

(* substitute on sorted and unsorted records: with (5, _) in front, the record for feature 2 is never reached *)
Example C04_fv_substitute_example :
  substitution_record [(1, 10); (2, 20); (5, 50)] 2 = Some (2, 20) /\
  substitution_record [(1, 10); (2, 20); (5, 50)] 3 = None /\
  substitution_record [(5, 50); (2, 20)] 2 = None /\
  substitution_record [(2, 20); (2, 21)] 2 = Some (2, 20) /\
  fi_sorted [(1, 10); (2, 20); (5, 50)] /\ ~ fi_sorted [(5, 50); (2, 20)].
Proof.
  repeat split; try reflexivity; cbn; try (intros ? [<-|[<-|[]]]; cbn; lia); try (intros ? [<-|[]]; cbn; lia); try (intros ? []).
  intros [H _]. specialize (H (2, 20) (or_introl eq_refl)). cbn in H. lia.
Qed.

(* Features::Mask under a tuple: the rvrn feature's lookup runs first even when no record matches; with the
   substitution of record 1 liga runs lookup 1 *)
Example C04_fv_mask_example :
  let liga := 1818847073 in
  let t := mkLayout (Some [(TAG_DFLT, mkScript (Some (mkLangSys [0; 1])) [])])
                    (Some [(liga, [0]); (TAG_RVRN, [2])])
                    (Some [mkLookup 0 None (LSingle [SingleF1 (CovF1 [5]) 1]);
                           mkLookup 0 None (LSingle [SingleF1 (CovF1 [5]) 10]);
                           mkLookup 0 None (LSingle [SingleF1 (CovF1 [7]) (-2)])]) in
  let run tu := fvt <- layout_read_fv Debug fv_demo_bytes ;;
                gs <- gsub_apply_default_v Debug t fvt None TAG_DFLT None (Z.shiftl 1 22) tu 100
                        [mkGlyph 7 [97] 0 (Some 97) false false false 0] ;; Ok (ids gs) in
  run None = Ok [7] /\            (* no tuple: rvrn does not run, liga's lookup 0 does not cover 7 *)
  run (Some [0]) = Ok [6] /\      (* rvrn: 7 -> 5, then liga -> lookup 0: 5 -> 6 *)
  run (Some [12288]) = Ok [6] /\  (* record 0: NULL substitution *)
  run (Some [9830]) = Ok [15].    (* record 1: liga -> lookup 1: 5 -> 15 *)
Proof. vm_compute. repeat split; reflexivity. Qed.

(* ---------------------------------------------------------------- (g) the entry point Font::shape *)
(* `apply` is gsub::apply with script, language, features and tuple fixed (any of gsub_apply_custom,
   gsub_apply_default, gsub_apply_custom_v, gsub_apply_default_v); a font is its GSUB / GPOS / GDEF / morx / kern
   tables, each absent, unreadable or present, and the glyph count. *)
(* the glyphs Font::shape substitutes are those of gsub::apply on the font's GSUB with the font's GDEF
   (none if the font has no readable GDEF) and the font's glyph count *)
Theorem C04_shape_is_gsub_apply_with_font_gdef :
  forall (apply : layout_table -> option gdef -> Z -> list glyph -> outcome (list glyph)) f t gs,
  ft_gsub f = TPresent t ->
  shaped_glyphs (font_shape_subst apply f gs) = apply_glyphs (apply t (loaded (ft_gdef f)) (ft_num_glyphs f) gs).
Proof. exact shape_is_apply_with_font_gdef. Qed.
Print Assumptions C04_shape_is_gsub_apply_with_font_gdef.

Theorem C04_shape_uses_the_fonts_gdef :
  forall (apply : layout_table -> option gdef -> Z -> list glyph -> outcome (list glyph)) f t gd gs,
  ft_gsub f = TPresent t -> ft_gdef f = TPresent gd ->
  shaped_glyphs (font_shape_subst apply f gs) = apply_glyphs (apply t (Some gd) (ft_num_glyphs f) gs).
Proof. exact shape_uses_present_gdef. Qed.
Print Assumptions C04_shape_uses_the_fonts_gdef.

(* GPOS, kern and morx -- present, absent or unreadable -- have no influence on the substituted glyphs, nor on
   whether substitution succeeds (the seeded regression: GDEF loaded only for fonts with a GPOS table) *)
Theorem C04_shape_glyphs_independent_of_positioning_tables :
  forall (apply : layout_table -> option gdef -> Z -> list glyph -> outcome (list glyph)) f1 f2 gs,
  ft_gsub f1 = ft_gsub f2 -> ft_gdef f1 = ft_gdef f2 -> ft_num_glyphs f1 = ft_num_glyphs f2 ->
  shaped_glyphs (font_shape_subst apply f1 gs) = shaped_glyphs (font_shape_subst apply f2 gs) /\
  ((exists r, font_shape_subst apply f1 gs = Ok r) <-> (exists r, font_shape_subst apply f2 gs = Ok r)).
Proof.
  intros apply f1 f2 gs Hs Hd Hn.
  exact (conj (shape_glyphs_independent_of_positioning_tables apply f1 f2 gs Hs Hd Hn)
              (shape_success_independent_of_positioning_tables apply f1 f2 gs Hs Hd Hn)).
Qed.
Print Assumptions C04_shape_glyphs_independent_of_positioning_tables.

Theorem C04_shape_without_gsub_keeps_the_glyphs :
  forall (apply : layout_table -> option gdef -> Z -> list glyph -> outcome (list glyph)) f gs,
  loaded (ft_gsub f) = None -> font_shape_subst apply f gs = Ok (table_errors f, gs).
Proof. exact shape_without_gsub. Qed.
Print Assumptions C04_shape_without_gsub_keeps_the_glyphs.

Theorem C04_shape_reports_first_table_error :
  forall (apply : layout_table -> option gdef -> Z -> list glyph -> outcome (list glyph)) f gs e r,
  table_errors f = Some e -> font_shape_subst apply f gs = r ->
  match r with Ok (e', _) => e' = Some e | Err e' => e' = e | _ => True end.
Proof. exact shape_reports_first_table_error. Qed.
Print Assumptions C04_shape_reports_first_table_error.

(* non-vacuity, on the real lookup code: ligature 1+2 -> 9 under IgnoreMarks, mark 3 between the components.
   Font without GPOS but with GDEF: 9 3; the same font without GDEF (what the seeded regression computes): unchanged. *)
Example C04_shape_ignore_marks_without_gpos :
  let liga := 1818847073 in let latn := 1818326126 in
  let t := mkLayout (Some [(latn, mkScript (Some (mkLangSys [0])) [])]) (Some [(liga, [0])])
             (Some [mkLookup 8 None (LLigature [mkLigS (CovF1 [1]) [[mkLig 9 [2]]]])]) in
  let gd := mkGdef (Some (CdF1 1 [1; 1; 3])) None None in
  let apply := fun t gd n gs => gsub_apply_custom Debug t gd latn None [(liga, None)] n gs in
  let g k c := mkGlyph k [c] 0 (Some c) false false false 0 in
  let gs := [g 1 97; g 3 98; g 2 99] in
  let ids r := match shaped_glyphs r with Some l => Some (List.map g_id l) | None => None end in
  ids (font_shape_subst apply (mkFont (TPresent t) TAbsent (TPresent gd) TAbsent TAbsent 14) gs) = Some [9; 3] /\
  ids (font_shape_subst apply (mkFont (TPresent t) (TPresent tt) (TPresent gd) TAbsent TAbsent 14) gs) = Some [9; 3] /\
  ids (font_shape_subst apply (mkFont (TPresent t) (TUnreadable Eof) (TPresent gd) TAbsent (TPresent tt) 14) gs) = Some [9; 3] /\
  ids (font_shape_subst apply (mkFont (TPresent t) TAbsent TAbsent TAbsent TAbsent 14) gs) = Some [1; 3; 2].
Proof. vm_compute. repeat split; reflexivity. Qed.
