(* Props/C10.v — OpenType, collection and WOFF containers yield exactly the stored tables. *)
From AV Require Import Base.Prelude Gen.ReaderPrims Model.Reader Model.ReaderExt Proofs.ReaderProofs
  Proofs.EncodeProofs Gen.ContainerLayouts Model.Container Proofs.ContainerProofs.
Open Scope Z_scope.

(* The file is `s` (base 0, shorter than 2^64 bytes, bytes in range).  The directory encoders
   enc_offset_table / enc_ttc_header / enc_woff are the specification's layout, built from the generic
   big-endian encoders and the field lists regenerated from the source; `tail`/`rest` are arbitrary:
   tables may sit anywhere, in any order, shared or overlapping. *)

(* bare sfnt: the provider is exactly the directory that was written (flavour, records in order) *)
Theorem C10_sfnt_provider : forall s idx ver sr es rs recs tail,
  file_scope_ok s -> ot_ok ver sr es rs recs ->
  data s = enc_offset_table ver sr es rs recs ++ tail ->
  font_provider s idx = Ok (POpenType {| ot_version := ver; ot_records := recs |}).
Proof. exact sfnt_provider. Qed.
Print Assumptions C10_sfnt_provider.

(* table data: first record with the tag; the bytes at its (offset, length); error if out of the file *)
Theorem C10_table_data : forall s ot tag, file_scope_ok s ->
  Forall (seq_ok table_record_ty) (ot_records ot) ->
  match find_record tag (ot_records ot) with
  | None => ot_table_data s ot tag = Ok None
  | Some r =>
      if (nth 2 r 0 + nth 3 r 0 <=? dlen s) || (nth 3 r 0 =? 0)
      then ot_table_data s ot tag = Ok (stored_table (data s) (ot_records ot) tag)
      else exists e, ot_table_data s ot tag = Err e
  end.
Proof. exact ot_table_data_spec. Qed.
Print Assumptions C10_table_data.

Theorem C10_absent_tag_none : forall inflate s ot tag,
  ~ In tag (map (hd 0) (ot_records ot)) -> provider_table inflate s (POpenType ot) tag = Ok None.
Proof. exact absent_tag_none. Qed.
Print Assumptions C10_absent_tag_none.

(* collections *)
Theorem C10_ttc_member : forall s major minor offs tail idx off ver sr es rs recs rest,
  file_scope_ok s -> ttc_ok major minor offs ->
  data s = enc_ttc_header major minor offs ++ tail ->
  0 <= idx -> nth_error offs (Z.to_nat idx) = Some off -> 0 <= off <= dlen s ->
  ot_ok ver sr es rs recs ->
  drop off (data s) = enc_offset_table ver sr es rs recs ++ rest ->
  font_provider s idx = Ok (POpenType {| ot_version := ver; ot_records := recs |}).
Proof. exact ttc_member. Qed.
Print Assumptions C10_ttc_member.

Theorem C10_ttc_index_out_of_range : forall s major minor offs tail idx,
  file_scope_ok s -> ttc_ok major minor offs ->
  data s = enc_ttc_header major minor offs ++ tail ->
  len offs <= idx -> font_provider s idx = Err BadIndex.
Proof. exact ttc_index_out_of_range. Qed.
Print Assumptions C10_ttc_index_out_of_range.

(* WOFF *)
Theorem C10_woff_provider : forall s idx flavor length total major minor mo ml mol po pl entries tail,
  file_scope_ok s -> woff_ok flavor length total major minor mo ml mol po pl entries ->
  data s = enc_woff flavor length total major minor mo ml mol po pl entries ++ tail ->
  font_provider s idx = Ok (PWoff {| w_flavor := flavor; w_entries := entries |}).
Proof. exact woff_provider. Qed.
Print Assumptions C10_woff_provider.

(* any per-table choice: stored raw (comp = orig) or compressed with a compressor the decoder inverts *)
Theorem C10_woff_tables_exact : forall inflate deflate s w tag e orig,
  (forall b, inflate (deflate b) = Some b) ->
  file_scope_ok s -> Forall (seq_ok woff_entry_ty) (w_entries w) ->
  find_record tag (w_entries w) = Some e ->
  nth 1 e 0 + nth 2 e 0 <= dlen s ->
  take (nth 2 e 0) (drop (nth 1 e 0) (data s)) = (if nth 2 e 0 =? nth 3 e 0 then orig else deflate orig) ->
  woff_table_data inflate s w tag = Ok (Some orig).
Proof. exact woff_roundtrip. Qed.
Print Assumptions C10_woff_tables_exact.

(* the generic "read what was written" facts the above rest on (reused by C15/C09) *)
Theorem C10_read_records_written : forall t c recs rest,
  cinv c -> bytes_ok (data (sc c)) = true -> 0 <= base (sc c) -> base (sc c) + dlen (sc c) < USIZE ->
  0 < ty_size t < USIZE -> Forall (seq_ok t) recs ->
  drop (off c) (data (sc c)) = enc_records t recs ++ rest ->
  read_records t c (len recs) = Ok (recs, {| sc := sc c; off := off c + len recs * ty_size t |}).
Proof. exact read_records_written. Qed.
Print Assumptions C10_read_records_written.

(* non-vacuity: a concrete two-table font *)
Definition ex_file : list Z :=
  enc_offset_table 65536 32 1 0 [[1751474532; 7; 44; 3]; [1735162214; 9; 47; 2]] ++ [1; 2; 3; 4; 5].
Example C10_example_hyps :
  file_scope_ok (scope_new ex_file) /\ ot_ok 65536 32 1 0 [[1751474532; 7; 44; 3]; [1735162214; 9; 47; 2]].
Proof.
  split.
  - split; [reflexivity|]. split; [vm_compute; reflexivity|vm_compute; reflexivity].
  - split; [reflexivity|]. split.
    + vm_compute. repeat split; discriminate.
    + repeat constructor; vm_compute; try discriminate; auto.
Qed.
Example C10_example_run :
  match font_provider (scope_new ex_file) 0 with
  | Ok p => (provider_version p, provider_tags p,
             provider_table (fun _ => None) (scope_new ex_file) p 1751474532,
             provider_table (fun _ => None) (scope_new ex_file) p 1735162214,
             provider_table (fun _ => None) (scope_new ex_file) p 42)
  | _ => (0, [], Panic, Panic, Panic)
  end = (65536, [1751474532; 1735162214], Ok (Some [1; 2; 3]), Ok (Some [4; 5]), Ok None).
Proof. vm_compute. reflexivity. Qed.
