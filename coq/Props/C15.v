(* Props/C15.v — reading is the inverse of writing, for the tables and structures modelled
   (see docs/C15.md for what is and is not covered).

   Vocabulary.  `cgood c` : c is a read cursor over a byte slice (bytes in [0,256), shorter than
   2^64).  `at_bytes c bs` : the bytes from the cursor on are bs.  `advanced c c' rest` : c' is c
   moved forward so that exactly `rest` remains — i.e. the reader consumed exactly what the writer
   produced.  `rest` is arbitrary in every theorem: tables may be followed by anything.

   Layouts (`*_read : list ritem`, `*_write : list witem`) are regenerated from the Rust source by
   translators/tr_layouts.py on every run; `compat` is the decidable field-by-field agreement of a
   reader with a writer; `vals_okb` says the field values are values of their Rust types (and inside
   the enum / bitflags sets the reader keeps). *)
From AV Require Import Base.Prelude Gen.ReaderPrims Model.Reader Model.ReaderExt Proofs.ReaderProofs
  Model.TableLayout Gen.TableLayouts Model.Tables Model.Cff
  Proofs.TableLayoutProofs Proofs.RecordProofs Proofs.TableProofs Proofs.ArrayTableProofs Proofs.CffProofs
  Proofs.RefusalProofs Proofs.NameProofs Proofs.GlyphProofs
  Gen.CffDictTables Model.CffDict Proofs.CffDictProofs.
Open Scope Z_scope.

(* ===== 1. the generic theorem: any straight-line reader/writer pair that passes `compat` *)
Theorem C15_layout_roundtrip : forall rl wl fill vs rest c,
  compat rl wl = true ->
  vals_okb (strip_asserts rl) vs = true ->
  asserts_hold rl [] (wire fill wl vs) = true ->
  cgood c -> at_bytes c (write_items fill wl vs ++ rest) ->
  exists c', read_items rl [] c = Ok (readback fill wl vs, c') /\ advanced c c' rest.
Proof. exact layout_roundtrip. Qed.
Print Assumptions C15_layout_roundtrip.

(* the obligations on the current source: every extracted reader agrees with its writer *)
Theorem C15_layouts_compatible :
  compat head_read head_write = true /\ compat hhea_read hhea_write = true /\
  compat maxp_v1_read maxp_v1_write = true /\ compat long_hor_metric_read long_hor_metric_write = true /\
  compat name_record_read name_record_write = true /\ compat langtag_record_read langtag_record_write = true /\
  compat table_record_read table_record_write = true /\ compat bounding_box_read bounding_box_write = true /\
  compat post_header_read post_header_write = true /\ compat os2_base_read os2_base_write = true /\
  compat os2_version0_read os2_version0_write = true /\ compat os2_version1_read os2_version1_write = true /\
  compat os2_version2to4_read os2_version2to4_write = true /\ compat os2_version5_read os2_version5_write = true.
Proof. vm_compute. repeat split; reflexivity. Qed.
Print Assumptions C15_layouts_compatible.

(* ===== 2. per-table instances *)
(* head: the reader checks the magic number, so it is part of the format limits; with the
   checkSumAdjustment placeholder filled (fill = true) the value comes back unchanged, unfilled
   (fill = false) that field reads 0 *)
Theorem C15_head_roundtrip : forall fill vs rest c,
  vals_okb (strip_asserts head_read) vs = true -> nth 4 vs 0 = HEAD_MAGIC ->
  cgood c -> at_bytes c (write_items fill head_write vs ++ rest) ->
  exists c', read_items head_read [] c = Ok (readback fill head_write vs, c') /\ advanced c c' rest.
Proof. exact head_roundtrip. Qed.
Print Assumptions C15_head_roundtrip.

Theorem C15_head_filled_is_identity : forall vs,
  vals_okb (strip_asserts head_read) vs = true -> readback true head_write vs = vs.
Proof. intros vs H. exact (readback_filled _ head_write vs head_compat H). Qed.
Print Assumptions C15_head_filled_is_identity.

Theorem C15_hhea_roundtrip : forall vs rest c,
  vals_okb (strip_asserts hhea_read) vs = true ->
  cgood c -> at_bytes c (write_items false hhea_write vs ++ rest) ->
  exists c', read_items hhea_read [] c = Ok (vs, c') /\ advanced c c' rest.
Proof. exact hhea_roundtrip. Qed.
Print Assumptions C15_hhea_roundtrip.

(* layouts without checks or placeholders: MaxpVersion1SubTable, LongHorMetric, NameRecord,
   LangTagRecord, TableRecord, BoundingBox, post header, the OS/2 pieces *)
Theorem C15_plain_layout_roundtrip : forall rl wl vs rest c,
  In (rl, wl) [(maxp_v1_read, maxp_v1_write); (long_hor_metric_read, long_hor_metric_write);
               (name_record_read, name_record_write); (langtag_record_read, langtag_record_write);
               (table_record_read, table_record_write); (bounding_box_read, bounding_box_write);
               (post_header_read, post_header_write); (os2_base_read, os2_base_write);
               (os2_version0_read, os2_version0_write); (os2_version1_read, os2_version1_write);
               (os2_version2to4_read, os2_version2to4_write); (os2_version5_read, os2_version5_write)] ->
  vals_okb rl vs = true -> cgood c -> at_bytes c (write_items false wl vs ++ rest) ->
  exists c', read_items rl [] c = Ok (vs, c') /\ advanced c c' rest.
Proof.
  intros rl wl vs rest c Hin Hv Hg Hat.
  cbn [In] in Hin.
  repeat (destruct Hin as [Hin|Hin];
    [injection Hin as <- <-;
     match goal with H : at_bytes _ (write_items false ?w _ ++ _) |- _ => apply (plain_roundtrip _ w) end;
     try assumption; vm_compute; reflexivity|]).
  contradiction.
Qed.
Print Assumptions C15_plain_layout_roundtrip.

(* maxp: written as version 1.0 with the subtable or as 0.5 without; read back as the same value *)
Theorem C15_maxp_roundtrip : forall (t : maxp) rest c,
  maxp_ok t -> cgood c -> at_bytes c (maxp_write t ++ rest) ->
  exists c', maxp_read c = Ok (t, c') /\ advanced c c' rest.
Proof. exact maxp_roundtrip. Qed.
Print Assumptions C15_maxp_roundtrip.

(* OS/2: read(write(t)) = t up to the declared normalisation of the version field (2-3 written as
   4, anything above 5 as 5), for well-nested version tails; the table length recorded for the
   written table selects the v0 tail correctly; the normalisation is idempotent, so
   parse-write-parse is stable *)
Theorem C15_os2_roundtrip_normalised : forall (t : os2) table_size rest c,
  os2_wf t -> (os2_v0_min_size <=? table_size) = is_some (o_v0 t) ->
  cgood c -> at_bytes c (os2_write t ++ rest) ->
  exists c', os2_read c table_size = Ok (os2_normalise t, c') /\ advanced c c' rest.
Proof. exact os2_roundtrip. Qed.
Print Assumptions C15_os2_roundtrip_normalised.

Theorem C15_os2_written_length : forall t,
  os2_wf t -> (os2_v0_min_size <=? len (os2_write t)) = is_some (o_v0 t).
Proof. exact os2_written_length_selects_v0. Qed.
Print Assumptions C15_os2_written_length.

Theorem C15_os2_normalise_stable : forall t,
  os2_normalise (os2_normalise t) = os2_normalise t /\ os2_write (os2_normalise t) = os2_write t.
Proof. intros t. split; [apply os2_normalise_idem|apply os2_write_normalise]. Qed.
Print Assumptions C15_os2_normalise_stable.

(* hmtx with numberOfHMetrics <= numGlyphs *)
Theorem C15_hmtx_roundtrip : forall (t : hmtx) rest c,
  hmtx_ok t -> cgood c -> at_bytes c (hmtx_write t ++ rest) ->
  exists c', hmtx_read c (len (fst t) + len (snd t)) (len (fst t)) = Ok (t, c') /\ advanced c c' rest.
Proof. exact hmtx_roundtrip. Qed.
Print Assumptions C15_hmtx_roundtrip.

(* loca through the owned writer *)
Theorem C15_loca_short_roundtrip : forall offs b rest c,
  Forall u32_ok offs -> offs <> [] -> loca_write 0 offs = Ok b ->
  cgood c -> at_bytes c (b ++ rest) ->
  exists c', loca_read c (len offs - 1) 0 = Ok (offs, c') /\ advanced c c' rest.
Proof. exact loca_short_roundtrip. Qed.
Print Assumptions C15_loca_short_roundtrip.

Theorem C15_loca_long_roundtrip : forall offs rest c,
  Forall u32_ok offs -> offs <> [] ->
  cgood c -> at_bytes c (concat (map (write_prim PU32) offs) ++ rest) ->
  loca_write 1 offs = Ok (concat (map (write_prim PU32) offs)) /\
  exists c', loca_read c (len offs - 1) 1 = Ok (offs, c') /\ advanced c c' rest.
Proof. exact loca_long_roundtrip. Qed.
Print Assumptions C15_loca_long_roundtrip.

(* name, owned: owned::NameTable::write into a fresh buffer, then NameTable::read and
   owned::NameTable::try_from: the records (ids + string bytes) and the language tags come back.
   (ids_ok: the four ids are u16 values) *)
Theorem C15_name_owned_roundtrip : forall recs lts b rest c,
  Forall (fun r => ids_ok (fst r)) recs ->
  name_owned_write 0 recs lts = Ok b ->
  cgood c -> at_bytes c (b ++ rest) ->
  exists n c', name_read c = Ok (n, c') /\ name_to_owned n = Ok (recs, lts).
Proof. exact name_owned_roundtrip. Qed.
Print Assumptions C15_name_owned_roundtrip.

(* glyf simple glyphs (after the two fixes): whenever SimpleGlyph::write returns Ok for a glyph
   within format limits (i16 box and coordinates, u16 end points, at most 32767 contours, as many
   points as the last end point addresses), Glyph::read returns the same glyph with the flags reduced
   to ON_CURVE_POINT — the writer's normalisation —, in debug and release arithmetic *)
Theorem C15_simple_glyph_roundtrip : forall m g b rest c,
  glyph_ok g -> simple_glyph_write g = Ok b -> cgood c -> at_bytes c (b ++ rest) ->
  exists c', glyph_read m c = Ok (Some (glyph_norm g), c') /\ advanced c c' rest.
Proof. exact simple_glyph_roundtrip. Qed.
Print Assumptions C15_simple_glyph_roundtrip.

(* ===== 3. CFF *)
(* DICT integer operands: for ALL i32 *)
Theorem C15_cff_int_roundtrip : forall v rest c,
  i32_ok v -> cgood c -> at_bytes c (operand_int_write v ++ rest) ->
  exists c', op_read c = Ok (OpInt v, c') /\ advanced c c' rest.
Proof. exact operand_int_roundtrip. Qed.
Print Assumptions C15_cff_int_roundtrip.

Theorem C15_cff_offset_roundtrip : forall v rest c,
  i32_ok v -> cgood c -> at_bytes c (operand_offset_write v ++ rest) ->
  exists c', op_read c = Ok (OpInt v, c') /\ advanced c c' rest.
Proof. exact operand_offset_roundtrip. Qed.
Print Assumptions C15_cff_offset_roundtrip.

Theorem C15_cff_int_shortest_form : forall v, i32_ok v ->
  len (operand_int_write v) =
    if (-107 <=? v) && (v <=? 107) then 1
    else if (-1131 <=? v) && (v <=? 1131) then 2
    else if (-32768 <=? v) && (v <=? 32767) then 3 else 5.
Proof. exact operand_int_size. Qed.
Print Assumptions C15_cff_int_shortest_form.

(* INDEX (16- and 32-bit count): whenever the owned writer returns Ok, the reader gets exactly the
   objects back and consumes exactly the bytes written *)
Theorem C15_index_roundtrip : forall wide objs b rest c,
  index_write wide objs = Ok b -> cgood c -> at_bytes c (b ++ rest) ->
  exists ix c', index_read wide c = Ok (ix, c') /\ advanced c c' rest /\ index_objects ix = Ok objs.
Proof. exact index_roundtrip. Qed.
Print Assumptions C15_index_roundtrip.

(* offset size: minimal, and the offset array is never truncated *)
Theorem C15_offset_size_minimal : forall v sz, 0 <= v -> offset_size v = Some sz ->
  1 <= sz <= 4 /\ v < 256 ^ sz /\ (1 < sz -> 256 ^ (sz - 1) <= v).
Proof. exact offset_size_spec. Qed.
Print Assumptions C15_offset_size_minimal.

Theorem C15_offset_array_exact : forall offs, offs <> [] -> (forall o, In o offs -> 0 <= o <= last offs 0) ->
  match serialise_offset_array offs with
  | Ok (sz, arr) => offset_size (last offs 0) = Some sz /\ arr = enc_offs sz offs
  | Err e => e = BadValue /\ 4294967295 < last offs 0
  | _ => False
  end.
Proof. exact serialise_ok. Qed.
Print Assumptions C15_offset_array_exact.

(* ===== 4. too wide is refused, never truncated *)
Theorem C15_too_wide_refused_index : forall wide objs,
  match index_write wide objs with
  | Ok _ => len objs <= (if wide then 4294967295 else 65535) /\ (objs <> [] -> 1 + len (concat objs) <= 4294967295)
  | Err e => e = BadValue /\ ((if wide then 4294967295 else 65535) < len objs \/ 4294967295 < 1 + len (concat objs))
  | _ => False
  end.
Proof. exact index_write_refusal. Qed.
Print Assumptions C15_too_wide_refused_index.

Theorem C15_too_wide_refused_loca_short : forall offs b,
  Forall u32_ok offs -> loca_write 0 offs = Ok b ->
  Forall (fun o => o mod 2 = 0 /\ 0 <= o <= 131070) offs /\ len b = 2 * len offs.
Proof. exact loca_short_refuses_unrepresentable. Qed.
Print Assumptions C15_too_wide_refused_loca_short.

Theorem C15_loca_short_accepts_representable : forall offs,
  Forall (fun o => o mod 2 = 0 /\ 0 <= o <= 131070) offs -> exists b, loca_write 0 offs = Ok b.
Proof. exact loca_short_accepts_representable. Qed.
Print Assumptions C15_loca_short_accepts_representable.

Theorem C15_too_wide_refused_u24 : forall v, 0 <= v ->
  match write_u24 v with
  | Ok b => v <= 16777215 /\ len b = 3 /\ be_val b = v
  | Err e => e = BadValue /\ 16777215 < v
  | _ => False
  end.
Proof. exact u24_refusal. Qed.
Print Assumptions C15_too_wide_refused_u24.

Theorem C15_too_wide_refused_pascal : forall s,
  match pascal_write s with
  | Ok b => len s <= 255 /\ b = len s :: s
  | Err e => e = BadValue /\ 255 < len s
  | _ => False
  end.
Proof. exact pascal_refusal. Qed.
Print Assumptions C15_too_wide_refused_pascal.

Theorem C15_too_wide_refused_name : forall written recs lts b,
  name_owned_write written recs lts = Ok b ->
  len recs <= 65535 /\ len lts <= 65535 /\
  Forall (fun r => len (snd r) <= 65535) recs /\ Forall (fun s => len s <= 65535) lts /\
  Forall (fun o => o <= 65535) (string_offsets (map snd recs ++ lts) 0).
Proof. exact name_owned_refusal. Qed.
Print Assumptions C15_too_wide_refused_name.

(* glyf coordinate deltas (after the fix of SimpleGlyph::write): Ok exactly when every delta is
   an i16; the bytes are the deltas; accumulating them restores the coordinates *)
Theorem C15_too_wide_refused_glyph_deltas : forall xs prev,
  match write_deltas prev xs with
  | Ok b => Forall (fun d => -32768 <= d <= 32767) (deltas prev xs) /\
            b = enc_recs [PI16] (map (fun d => [d]) (deltas prev xs))
  | Err e => e = BadValue /\ Exists (fun d => d < -32768 \/ 32767 < d) (deltas prev xs)
  | _ => False
  end.
Proof. exact write_deltas_spec. Qed.
Print Assumptions C15_too_wide_refused_glyph_deltas.

Theorem C15_glyph_deltas_invert : forall xs prev, undeltas prev (deltas prev xs) = xs.
Proof. exact undeltas_deltas. Qed.
Print Assumptions C15_glyph_deltas_invert.

(* ===== CFF DICTs (Model/CffDict.v).  Vocabulary.  A dict is a list of (operator, operand list); an
   operator is its `as u16` code; operands are OInt / OOff (i32) and OReal (raw nibble bytes).
   `dict_read c max` is Dict::read_dep (Op::read + Operator::try_from + integer_to_offset + the operand
   limit), `dict_write defs d delta` the bytes of Dict::write_dep for the default table `defs`.
   `operand_ok` : an i32, or a real whose first 0xF nibble is in its last byte (what
   read_until_nibble returns).  `entry_wf max (op, ops)` : `op` is an operator TryFrom knows, the
   operands are operand_ok and at most `max`.  `entry_readback (op, ops)` : what the reader makes of the
   written entry — offsets come back as integers and integer_to_offset re-types them.
   `entry_normal` : entry_wf and entry_readback e = e ("Offset exactly where integer_to_offset puts it");
   `dict_normal max d` : every entry is.  `elide_defaults defs d` : d without the entries whose
   operand list EQUALS the operator's default list.  All statements hold for every default table
   and every operand limit, hence for the six DICT kinds of the current source. *)

(* round trip, no delta: for EVERY readable-normal dict, of any length *)
Theorem C15_dict_roundtrip : forall defs maxo d,
  dict_normal maxo d -> len (dict_write defs d []) < USIZE ->
  dict_read (table_ctxt (dict_write defs d [])) maxo = Ok (elide_defaults defs d).
Proof. exact dict_roundtrip. Qed.
Print Assumptions C15_dict_roundtrip.

(* the normalisation is exactly "operands equal the default list": kept iff not equal, order kept
   (elide_defaults is a filter); equality of operand lists is equality — length and kinds included *)
Theorem C15_dict_elision_exact : forall defs d op ops,
  In (op, ops) (elide_defaults defs d) <-> In (op, ops) d /\ assoc op defs <> Some ops.
Proof. exact elide_defaults_spec. Qed.
Print Assumptions C15_dict_elision_exact.

Theorem C15_dict_default_test_is_equality : forall defs op ops,
  is_default defs op ops = true <-> assoc op defs = Some ops.
Proof. exact is_default_spec. Qed.
Print Assumptions C15_dict_default_test_is_equality.

(* with a delta: what is read back is the entry_readback of what was written; entries named in the delta
   are written with the delta's operands and never elided, the others unless exactly default *)
Theorem C15_dict_roundtrip_delta : forall defs maxo d delta,
  Forall (entry_wf maxo) (dict_written defs d delta) -> len (dict_write defs d delta) < USIZE ->
  dict_read (table_ctxt (dict_write defs d delta)) maxo = Ok (dict_expected defs d delta).
Proof. exact dict_roundtrip_delta. Qed.
Print Assumptions C15_dict_roundtrip_delta.

Theorem C15_dict_delta_entries : forall defs d delta,
  (forall op ops dops, In (op, ops) d -> delta_get delta op = Some dops -> In (op, dops) (dict_written defs d delta)) /\
  (forall op ops, In (op, ops) d -> delta_get delta op = None -> is_default defs op ops = false ->
                  In (op, ops) (dict_written defs d delta)) /\
  (forall op wops, In (op, wops) (dict_written defs d delta) ->
                   (exists ops, In (op, ops) d /\ delta_get delta op = Some wops) \/
                   (In (op, wops) d /\ delta_get delta op = None /\ is_default defs op wops = false)) /\
  (length (dict_written defs d delta) <= length d)%nat.
Proof. exact dict_written_spec. Qed.
Print Assumptions C15_dict_delta_entries.

(* stability: writing what was read back reproduces the bytes *)
Theorem C15_dict_write_read_write : forall defs maxo d,
  dict_normal maxo d -> len (dict_write defs d []) < USIZE ->
  exists d', dict_read (table_ctxt (dict_write defs d [])) maxo = Ok d' /\
             dict_write defs d' [] = dict_write defs d [].
Proof. exact dict_write_read_write. Qed.
Print Assumptions C15_dict_write_read_write.

(* whatever Dict::read_dep accepts is readable-normal ... *)
Theorem C15_dict_read_is_normal : forall maxo b d,
  0 <= maxo -> bytes_ok b = true -> len b < USIZE ->
  dict_read (table_ctxt b) maxo = Ok d -> dict_normal maxo d.
Proof. exact dict_read_normal. Qed.
Print Assumptions C15_dict_read_is_normal.

(* ... hence parse-write-parse holds for ARBITRARY parsable bytes: the second parse is the first
   minus its exactly-default entries, writing it again gives the same bytes, parsing those the same dict *)
Theorem C15_dict_parse_write_parse : forall defs maxo b d,
  0 <= maxo -> bytes_ok b = true -> len b < USIZE ->
  dict_read (table_ctxt b) maxo = Ok d -> len (dict_write defs d []) < USIZE ->
  dict_read (table_ctxt (dict_write defs d [])) maxo = Ok (elide_defaults defs d) /\
  dict_write defs (elide_defaults defs d) [] = dict_write defs d [] /\
  dict_read (table_ctxt (dict_write defs (elide_defaults defs d) [])) maxo = Ok (elide_defaults defs d).
Proof. exact dict_parse_write_parse. Qed.
Print Assumptions C15_dict_parse_write_parse.

(* the length returned by write_dep is the number of bytes written, whatever was in the buffer before *)
Theorem C15_dict_written_length : forall written defs d delta b n,
  dict_write_dep written defs d delta = Ok (b, n) -> b = dict_write defs d delta /\ n = len b.
Proof. exact dict_write_dep_length. Qed.
Print Assumptions C15_dict_written_length.

(* the reader is total on byte strings: Ok or Err, never a panic (the `.unwrap()` on one-byte
   operators cannot fail on the current TryFrom table; the model's fuel always suffices) *)
Theorem C15_dict_read_never_panics : forall maxo b, bytes_ok b = true -> len b < USIZE ->
  definite (dict_read (table_ctxt b) maxo).
Proof. exact dict_read_definite. Qed.
Print Assumptions C15_dict_read_never_panics.

(* obligations on the current source: every operator of the enum survives write -> read and TryFrom
   accepts exactly the enum; the default tables, the offset-carrying operators and the limits are the
   declared ones (a changed default value, a dropped offset operator, ... fails here) *)
Theorem C15_dict_operators_agree :
  Forall operator_ok operator_enum /\
  (forall v, (exists o, operator_try_from v = Some o) <-> In v operator_enum).
Proof. exact operators_agree. Qed.
Print Assumptions C15_dict_operators_agree.

Theorem C15_dict_tables_declared :
  top_dict_default =
    [(3073, [OInt 0]); (3074, [OInt 0]); (3075, [OInt (-100)]); (3076, [OInt 50]); (3077, [OInt 0]);
     (3078, [OInt 2]); (3079, font_matrix_default); (5, [OInt 0; OInt 0; OInt 0; OInt 0]); (3080, [OInt 0]);
     (15, [OOff 0]); (16, [OOff 0]); (3103, [OInt 0]); (3104, [OInt 0]); (3105, [OInt 0]); (3106, [OInt 8720])] /\
  font_dict_default = [] /\
  private_dict_default =
    [(3081, [OReal [10; 3; 150; 37; 255]]); (3082, [OInt 7]); (3083, [OInt 1]); (3086, [OInt 0]); (3089, [OInt 0]);
     (3090, [OReal [10; 6; 255]]); (3091, [OInt 0]); (3080, [OInt 0]); (20, [OInt 0]); (21, [OInt 0])] /\
  cff2_top_dict_default = [(3079, font_matrix_default)] /\
  cff2_font_dict_default = [] /\
  cff2_private_dict_default =
    [(3081, [OReal [10; 3; 150; 37; 255]]); (3082, [OInt 7]); (3083, [OInt 1]); (3089, [OInt 0]);
     (3090, [OReal [10; 6; 255]]); (22, [OInt 0])] /\
  ito_guard_op = 16 /\ ito_guard_min = 1 /\ ito_single_ops = [15; 17; 19; 3108; 3109; 24] /\ ito_pair_ops = [18] /\
  cff_max_operands = 48 /\ cff2_max_operands = 513 /\ operator_wide_above = 255 /\ end_of_float_flag = 15 /\
  cffw_real_b0 = cffr_real_b0.
Proof. exact dict_tables_declared. Qed.
Print Assumptions C15_dict_tables_declared.

(* ===== the property as a whole: PARTIAL.  The conjunction below is what is proved of "read is the
   inverse of write for every table the library can write": straight-line layouts (head, hhea, maxp
   subtable, hmtx/name/directory records, bounding box, post header, OS/2 pieces), maxp, OS/2, hmtx,
   loca (owned writer), the owned name table, simple glyphs, CFF integer/offset operands, INDEX and
   DICTs (all six kinds, real operands and deltas included, and parse-write-parse on arbitrary bytes).
   Missing (see docs/C15.md): cmap subtables, cvt, composite glyphs, CFF charset/encoding/FDSelect,
   the CFF/CFF2 table assembly, item variation stores, the borrowed name writer, and parse-write-parse
   for arbitrary parsable bytes other than OS/2 and DICTs. *)
Theorem C15_read_inverts_write_partial :
  ltac:(let t := type of layout_roundtrip in exact t) /\
  ltac:(let t := type of maxp_roundtrip in exact t) /\
  ltac:(let t := type of os2_roundtrip in exact t) /\
  ltac:(let t := type of hmtx_roundtrip in exact t) /\
  ltac:(let t := type of loca_short_roundtrip in exact t) /\
  ltac:(let t := type of loca_long_roundtrip in exact t) /\
  ltac:(let t := type of name_owned_roundtrip in exact t) /\
  ltac:(let t := type of simple_glyph_roundtrip in exact t) /\
  ltac:(let t := type of operand_int_roundtrip in exact t) /\
  ltac:(let t := type of operand_offset_roundtrip in exact t) /\
  ltac:(let t := type of index_roundtrip in exact t) /\
  ltac:(let t := type of dict_roundtrip in exact t) /\
  ltac:(let t := type of dict_parse_write_parse in exact t).
Proof.
  exact (conj layout_roundtrip (conj maxp_roundtrip (conj os2_roundtrip (conj hmtx_roundtrip
        (conj loca_short_roundtrip (conj loca_long_roundtrip (conj name_owned_roundtrip
        (conj simple_glyph_roundtrip (conj operand_int_roundtrip (conj operand_offset_roundtrip
        (conj index_roundtrip (conj dict_roundtrip dict_parse_write_parse)))))))))))).
Qed.
Print Assumptions C15_read_inverts_write_partial.

(* ===== non-vacuity *)
Definition head_example : list Z :=
  [1; 0; 65536; 3735928559; 1594834165; 11; 2048; 3600000000; -1; -100; -200; 1000; 900; 3; 8; 2; 1; 0].
Example head_example_ok : vals_okb (strip_asserts head_read) head_example = true /\ nth 4 head_example 0 = HEAD_MAGIC.
Proof. vm_compute. split; reflexivity. Qed.
Example head_example_roundtrip :
  layout_read head_read (layout_write true head_write head_example) = Ok head_example /\
  layout_read head_read (layout_write false head_write head_example)
    = Ok [1; 0; 65536; 0; 1594834165; 11; 2048; 3600000000; -1; -100; -200; 1000; 900; 3; 8; 2; 1; 0].
Proof. vm_compute. split; reflexivity. Qed.
(* a head table with the wrong magic number is written but not read back: the hypothesis is needed *)
Example head_bad_magic :
  layout_read head_read (layout_write true head_write [1; 0; 0; 0; 7; 0; 0; 0; 0; 0; 0; 0; 0; 0; 0; 0; 0; 0]) = Err BadValue.
Proof. vm_compute. reflexivity. Qed.

Example cff_int_edges :
  map operand_int_write [0; 107; 108; -107; -108; 1131; 1132; -1131; -1132; 32767; 32768; -32768; -32769]
  = [[139]; [246]; [247; 0]; [32]; [251; 0]; [250; 255]; [28; 4; 108]; [254; 255]; [28; 251; 148];
     [28; 127; 255]; [29; 0; 0; 128; 0]; [28; 128; 0]; [29; 255; 255; 127; 255]].
Proof. vm_compute. reflexivity. Qed.

Example os2_version3_becomes_4 :
  let t := {| o_base := 3 :: repeat 0 33; o_v0 := Some [0;0;0;0;0]; o_v1 := Some [0;0];
              o_v2 := Some [0;0;0;0;0]; o_v5 := None |} in
  os2_wf t /\ hd 0 (o_base (os2_normalise t)) = 4 /\ len (os2_write t) = 96.
Proof. vm_compute. repeat split; try reflexivity; intros; try discriminate. Qed.

Example loca_short_refuses : loca_write 0 [0; 131072] = Err BadValue /\ loca_write 0 [0; 3] = Err BadValue /\
  loca_write 0 [0; 131070] = Ok [0; 0; 255; 255].
Proof. vm_compute. repeat split; reflexivity. Qed.

Example index_example :
  index_write false [[1; 2; 3]; []; [4]] = Ok [0; 3; 1; 1; 4; 4; 5; 1; 2; 3; 4].
Proof. vm_compute. reflexivity. Qed.
Example index_offsize_boundary :
  (* 254 bytes of data: last offset 255 fits one byte; 255 bytes: two-byte offsets *)
  nth 2 (match index_write false [repeat 7 254] with Ok b => b | _ => [] end) 0 = 1 /\
  nth 2 (match index_write false [repeat 7 255] with Ok b => b | _ => [] end) 0 = 2.
Proof. vm_compute. split; reflexivity. Qed.

Example glyph_delta_refused : write_deltas 0 [32767; -2] = Err BadValue /\ write_deltas 0 [32767; -1] = Ok [127; 255; 128; 0].
Proof. vm_compute. split; reflexivity. Qed.

(* the declared normalisation itself is pinned: the writer's version numbers on the current source *)
Theorem C15_os2_declared_versions :
  os2_wver_v5 = 5 /\ os2_wver_v2 = 4 /\ os2_wver_v1 = 1 /\ os2_wver_v0 = 0 /\
  os2_v0_min_size = 78 /\ os2_v1_min_version = 1 /\ os2_v2_min_version = 2 /\ os2_v5_min_version = 5 /\
  maxp_v1_version = 65536.
Proof. vm_compute. repeat split; reflexivity. Qed.
Print Assumptions C15_os2_declared_versions.

Example name_owned_example :
  let recs := [([3; 1; 1033; 1], [0; 65; 0; 66]); ([1; 0; 0; 2], [67])] in
  match name_owned_write 0 recs [[0; 101]] with
  | Ok b => (n <- name_read (table_ctxt b) ;; name_to_owned (fst n)) = Ok (recs, [[0; 101]]) /\ len b = 43
  | _ => False
  end.
Proof. vm_compute. split; reflexivity. Qed.

Definition glyph_ex : simple_glyph :=
  {| sg_bbox := [-5; -6; 7; 8]; sg_endpts := [1; 3]; sg_instr := [1; 2];
     sg_coords := [(1, (10, 20)); (54, (-30, 40)); (1, (50, -60)); (0, (70, 80))] |}.
Example glyph_example_ok : glyph_ok glyph_ex.
Proof.
  unfold glyph_ok, glyph_ex; cbn [sg_bbox sg_endpts sg_instr sg_coords]. split; [|split; [|split; [|split]]].
  - cbn [rec_ok]. repeat split.
  - repeat (constructor; [reflexivity|]). constructor.
  - vm_compute. discriminate.
  - repeat (constructor; [unfold i16v; cbn [fst snd]; lia|]). constructor.
  - reflexivity.
Qed.
Example glyph_example :
  match simple_glyph_write glyph_ex with
  | Ok b => (r <- glyph_read Debug (table_ctxt b) ;; Ok (fst r)) = Ok (Some (glyph_norm glyph_ex))
  | _ => False
  end.
Proof. vm_compute. reflexivity. Qed.

(* ----- CFF DICTs *)
(* BlueScale with NO operands (`0c 09`, as left behind by `blend` in a CFF2 Private DICT) is not the
   default [0.039625]: it is kept, written and read back; BlueScale with its default is dropped *)
Example dict_bluescale_empty_kept :
  elide_defaults private_dict_default [(3081, [])] = [(3081, [])] /\
  dict_write private_dict_default [(3081, [])] [] = [12; 9] /\
  dict_read (table_ctxt [12; 9]) cff_max_operands = Ok [(3081, [])] /\
  dict_write cff2_private_dict_default [(23, [OInt 1; OInt 2; OInt 1]); (3081, [])] [] = [140; 141; 140; 23; 12; 9].
Proof. vm_compute. repeat split; reflexivity. Qed.
Example dict_bluescale_default_dropped :
  elide_defaults private_dict_default [(3081, [OReal [10; 3; 150; 37; 255]]); (3082, [OInt 8])] = [(3082, [OInt 8])] /\
  dict_write private_dict_default [(3081, [OReal [10; 3; 150; 37; 255]])] [] = [].
Proof. vm_compute. split; reflexivity. Qed.
(* proper prefixes and extensions of a default are not the default *)
Example dict_default_prefix_and_extension_kept :
  elide_defaults top_dict_default
    [(5, [OInt 0; OInt 0; OInt 0]); (5, [OInt 0; OInt 0; OInt 0; OInt 0]); (5, [OInt 0; OInt 0; OInt 0; OInt 0; OInt 0]);
     (3075, [OInt (-100)]); (3075, [OInt (-101)]); (16, [OInt 0]); (15, [OOff 0])]
  = [(5, [OInt 0; OInt 0; OInt 0]); (5, [OInt 0; OInt 0; OInt 0; OInt 0; OInt 0]); (3075, [OInt (-101)]); (16, [OInt 0])].
Proof. vm_compute. reflexivity. Qed.

Definition dict_ex : dict :=
  [(3081, []); (15, [OOff 5]); (18, [OOff 10; OOff 2000]); (16, [OInt 1]); (16, [OOff 2]);
   (3079, [OReal [10; 0; 31]; OInt 0; OInt 0; OReal [10; 0; 47]; OInt (-70000); OInt 1131]);
   (3073, [OInt 0]); (6, [OInt 108; OInt (-108); OInt 32768])].
Example dict_example_normal : dict_normal cff_max_operands dict_ex.
Proof.
  unfold dict_normal, dict_ex.
  repeat (apply Forall_cons;
    [split; [split; [vm_compute; reflexivity|split; [|vm_compute; discriminate]]|vm_compute; reflexivity]|]);
    try apply Forall_nil;
    repeat (apply Forall_cons; [cbn [operand_ok]; try (unfold i32_ok; lia); try (split; vm_compute; reflexivity)|]);
    apply Forall_nil.
Qed.
Example dict_example_roundtrip :
  dict_read (table_ctxt (dict_write top_dict_default dict_ex [])) cff_max_operands
  = Ok (elide_defaults top_dict_default dict_ex) /\
  length (elide_defaults top_dict_default dict_ex) = 7%nat.
Proof. vm_compute. split; reflexivity. Qed.
(* the hypothesis is needed: an Integer where the reader would have produced an Offset comes back as Offset *)
Example dict_non_normal :
  dict_read (table_ctxt (dict_write top_dict_default [(15, [OInt 5])] [])) cff_max_operands = Ok [(15, [OOff 5])].
Proof. vm_compute. reflexivity. Qed.
(* a delta entry replaces the operands and defeats the elision (Charset 0 is the default) *)
Example dict_delta_example :
  dict_write top_dict_default [(15, [OOff 0]); (17, [OOff 7])] [] = [29; 0; 0; 0; 7; 17] /\
  dict_write top_dict_default [(15, [OOff 0]); (17, [OOff 7])] [(15, [OOff 300])] = [29; 0; 0; 1; 44; 15; 29; 0; 0; 0; 7; 17] /\
  dict_read (table_ctxt (dict_write top_dict_default [(15, [OOff 0]); (17, [OOff 7])] [(15, [OOff 300])])) cff_max_operands
  = Ok [(15, [OOff 300]); (17, [OOff 7])] /\
  dict_write_dep 3 top_dict_default [(15, [OOff 0]); (17, [OOff 7])] [(15, [OOff 300])] = Ok ([29; 0; 0; 1; 44; 15; 29; 0; 0; 0; 7; 17], 12).
Proof. vm_compute. repeat split; reflexivity. Qed.
(* the operand limit: 48 operands pass, the 49th is LimitExceeded; reserved bytes are BadValue *)
Example dict_limits :
  dict_read (table_ctxt (repeat 139 48 ++ [6])) cff_max_operands = Ok [(6, repeat (OInt 0) 48)] /\
  dict_read (table_ctxt (repeat 139 49 ++ [6])) cff_max_operands = Err LimitExceeded /\
  dict_read (table_ctxt [31]) cff_max_operands = Err BadValue /\
  dict_read (table_ctxt [12; 15]) cff_max_operands = Err BadValue /\
  dict_read (table_ctxt [30; 18; 52]) cff_max_operands = Err Eof.
Proof. vm_compute. repeat split; reflexivity. Qed.

(* ================================================================================================
   Composite glyphs (Model/Composite.v, Proofs/CompositeProofs.v, Proofs/CompositeAgree.v)

   Vocabulary.  A component `ccomp` = flags, glyph index, two arguments tagged with their Rust variant
   (AU8 / AI8 / AU16 / AI16), optional scale (raw F2Dot14).  `cg_ok g` is the round-trip domain: every
   component holds only defined flag bits, a u16 glyph index, arguments of the variant the flags
   select (ARG_1_AND_2_ARE_WORDS, ARGS_ARE_XY_VALUES) with values of that type, the scale form of the
   first scale flag set (none when none is set); MORE_COMPONENTS is set on every component but the
   last; there is at least one component; the bounding box is four i16.  The writer normalises
   NOTHING of this: it writes the flag word verbatim and each argument by its variant, so a value
   outside `cg_ok` is written as it is and read back differently (examples below).  The one
   normalisation is `cg_norm`: instructions are dropped when no component carries
   WE_HAVE_INSTRUCTIONS.  `any_instr cs` = some component carries that flag. *)
From AV Require Import Gen.GlyfConsts Model.Composite Proofs.CompositeProofs Proofs.CompositeAgree.

Theorem C15_composite_roundtrip : forall m g b rest c,
  cg_ok g -> cglyph_write g = Ok b -> cgood c -> at_bytes c (b ++ rest) ->
  exists c', glyph_read_full m c = Ok (GComposite (cg_norm g), c') /\ advanced c c' rest.
Proof. exact composite_roundtrip. Qed.
Print Assumptions C15_composite_roundtrip.

(* instructions are written iff SOME component carries WE_HAVE_INSTRUCTIONS (the writer's `|=` over
   all components); an instruction count beyond 16 bits is refused, never truncated *)
Theorem C15_composite_instructions_iff_flagged : forall g,
  let body := write_prim PI16 (-1) ++ write_items false bounding_box_write (cg_bbox g)
              ++ concat (map ccomp_write (cg_comps g)) in
  (any_instr (cg_comps g) = false -> cglyph_write g = Ok body) /\
  (any_instr (cg_comps g) = true -> len (cg_instr g) <= 65535 ->
     cglyph_write g = Ok (body ++ write_prim PU16 (len (cg_instr g)) ++ cg_instr g)) /\
  (any_instr (cg_comps g) = true -> 65535 < len (cg_instr g) -> cglyph_write g = Err BadValue).
Proof. exact composite_write_exact. Qed.
Print Assumptions C15_composite_instructions_iff_flagged.

Theorem C15_composite_flag_decision : forall cs, has_instructions cs = existsb flag_instr cs.
Proof. exact has_instructions_any. Qed.
Print Assumptions C15_composite_flag_decision.

Theorem C15_too_wide_refused_composite : forall g,
  (exists b, cglyph_write g = Ok b) \/
  (cglyph_write g = Err BadValue /\ any_instr (cg_comps g) = true /\ 65535 < len (cg_instr g)).
Proof. exact composite_write_total. Qed.
Print Assumptions C15_too_wide_refused_composite.

Theorem C15_composite_written_length : forall g b,
  cglyph_write g = Ok b ->
  len b = 2 + len (write_items false bounding_box_write (cg_bbox g)) + len (concat (map ccomp_write (cg_comps g)))
          + (if any_instr (cg_comps g) then 2 + len (cg_instr g) else 0).
Proof. exact composite_written_length. Qed.
Print Assumptions C15_composite_written_length.

(* whatever CompositeGlyph::read accepts, on ANY byte string, is in the round-trip domain *)
Theorem C15_composite_read_is_normal : forall m c g c',
  cgood c -> cglyph_read m c = Ok (g, c') ->
  cg_ok g /\ cg_norm g = g /\ len (cg_instr g) <= 65535 /\ cgood c'.
Proof. exact composite_read_normal. Qed.
Print Assumptions C15_composite_read_is_normal.

(* parse-write-parse for arbitrary parsable bytes (full, not partial) *)
Theorem C15_composite_parse_write_parse : forall m c g c1,
  cgood c -> glyph_read_full m c = Ok (GComposite g, c1) ->
  exists b, cglyph_write g = Ok b /\
    forall m2 c2 rest, cgood c2 -> at_bytes c2 (b ++ rest) ->
      exists c3, glyph_read_full m2 c2 = Ok (GComposite g, c3) /\ advanced c2 c3 rest.
Proof. exact composite_parse_write_parse. Qed.
Print Assumptions C15_composite_parse_write_parse.

(* Glyph::write / Glyph::read dispatch over both variants *)
Theorem C15_glyph_roundtrip : forall m g b rest c,
  glyph_ok_full g -> glyph_write_full g = Ok b -> cgood c -> at_bytes c (b ++ rest) ->
  exists c', glyph_read_full m c = Ok (glyph_norm_full g, c') /\ advanced c c' rest.
Proof. exact glyph_roundtrip. Qed.
Print Assumptions C15_glyph_roundtrip.

(* this reader and the C16 reader of composite glyphs (Model/GlyfOutline.v) are the same function *)
Theorem C15_composite_readers_agree : forall m c,
  cgood c ->
  GO.read_composite (remaining c) = drop_ctx (fun g => map proj_comp (cg_comps g)) (cglyph_read m c).
Proof. exact composite_readers_agree. Qed.
Print Assumptions C15_composite_readers_agree.

(* ----- the composite reader and writer inside the WOFF2 model (Model/Woff2.v, C11; not changed) are
   the same functions *)
From AV Require Import Proofs.CompositeAgreeWoff2.
Theorem C15_composite_reader_agrees_woff2 : forall c,
  cgood c ->
  sim (proj_w2_loop false) (ccomps_read (S (length (remaining c))) c) (W2.read_composite_glyphs (remaining c)).
Proof. exact composite_reader_agrees_woff2. Qed.
Print Assumptions C15_composite_reader_agrees_woff2.

Theorem C15_composite_writer_agrees_woff2 : forall m a b c d comps instr,
  Forall comp_ok comps -> prim_in_range PI16 a = true -> prim_in_range PI16 b = true ->
  prim_in_range PI16 c = true -> prim_in_range PI16 d = true ->
  (any_instr comps = true -> len instr <= 65535) ->
  W2.write_glyph m (W2.GComposite {| W2.bb_xmin := a; W2.bb_ymin := b; W2.bb_xmax := c; W2.bb_ymax := d |} (map proj_w2 comps) instr)
  = cglyph_write {| cg_bbox := [a; b; c; d]; cg_comps := comps; cg_instr := instr |}.
Proof. exact composite_writer_agrees_woff2. Qed.
Print Assumptions C15_composite_writer_agrees_woff2.

(* ----- non-vacuity and the limits of the domain *)
(* WE_HAVE_INSTRUCTIONS (0x100) on the FIRST of two components only; words + xy args, MORE on the first *)
Definition cg_ex : cglyph :=
  {| cg_bbox := [0; -5; 10; 32767];
     cg_comps := [ {| cc_flags := 291; cc_gid := 5; cc_arg1 := (AI16, 3453); cc_arg2 := (AI16, -1); cc_scale := None |};
                   {| cc_flags := 70; cc_gid := 4; cc_arg1 := (AI8, -128); cc_arg2 := (AI8, 127); cc_scale := Some (CXY 16384 (-16384)) |} ];
     cg_instr := [1; 2; 3] |}.
Example cg_ex_ok : cg_ok cg_ex.
Proof.
  unfold cg_ok, cg_ex. cbn [cg_bbox cg_comps]. split; [cbn; repeat split; reflexivity|].
  split; [|cbn; split; reflexivity].
  repeat (apply Forall_cons; [unfold comp_ok, arg_ok, scale_ok, f2d14; cbn; repeat split; try reflexivity; try lia|]); apply Forall_nil.
Qed.
Example cg_ex_roundtrip :
  cglyph_write cg_ex = Ok [255; 255; 0; 0; 255; 251; 0; 10; 127; 255; 1; 35; 0; 5; 13; 125; 255; 255;
                           0; 70; 0; 4; 128; 127; 64; 0; 192; 0; 0; 3; 1; 2; 3] /\
  exists c', glyph_read_full Debug (table_ctxt ([255; 255; 0; 0; 255; 251; 0; 10; 127; 255; 1; 35; 0; 5; 13; 125; 255; 255;
                                                 0; 70; 0; 4; 128; 127; 64; 0; 192; 0; 0; 3; 1; 2; 3] ++ [9; 9]))
             = Ok (GComposite cg_ex, c') /\ off c' = 33.
Proof. vm_compute. split; [reflexivity|]. eexists. split; reflexivity. Qed.
(* outside the domain: no component (written, unreadable); an argument variant that contradicts the
   flags (written by its variant, read by the flags); MORE_COMPONENTS on the last component *)
Example cg_outside_domain :
  (cglyph_write {| cg_bbox := [0; 0; 0; 0]; cg_comps := []; cg_instr := [] |} = Ok [255; 255; 0; 0; 0; 0; 0; 0; 0; 0] /\
   glyph_read_full Debug (table_ctxt [255; 255; 0; 0; 0; 0; 0; 0; 0; 0]) = Err Eof) /\
  (cglyph_write {| cg_bbox := [0; 0; 0; 0];
                   cg_comps := [ {| cc_flags := 2; cc_gid := 1; cc_arg1 := (AI16, 300); cc_arg2 := (AI16, 2); cc_scale := None |} ];
                   cg_instr := [] |} = Ok [255; 255; 0; 0; 0; 0; 0; 0; 0; 0; 0; 2; 0; 1; 1; 44; 0; 2] /\
   exists c', glyph_read_full Debug (table_ctxt [255; 255; 0; 0; 0; 0; 0; 0; 0; 0; 0; 2; 0; 1; 1; 44; 0; 2]) =
     Ok (GComposite {| cg_bbox := [0; 0; 0; 0];
                       cg_comps := [ {| cc_flags := 2; cc_gid := 1; cc_arg1 := (AI8, 1); cc_arg2 := (AI8, 44); cc_scale := None |} ];
                       cg_instr := [] |}, c')) /\
  (cglyph_write {| cg_bbox := [0; 0; 0; 0];
                   cg_comps := [ {| cc_flags := 32; cc_gid := 1; cc_arg1 := (AU8, 1); cc_arg2 := (AU8, 2); cc_scale := None |} ];
                   cg_instr := [] |} = Ok [255; 255; 0; 0; 0; 0; 0; 0; 0; 0; 0; 32; 0; 1; 1; 2] /\
   glyph_read_full Debug (table_ctxt [255; 255; 0; 0; 0; 0; 0; 0; 0; 0; 0; 32; 0; 1; 1; 2]) = Err Eof).
Proof. vm_compute. repeat split; try reflexivity. eexists; reflexivity. Qed.
(* 65536 instruction bytes: refused when flagged, irrelevant (dropped) when not *)
Example cg_instruction_length_limit :
  cglyph_write {| cg_bbox := [0; 0; 0; 0];
                  cg_comps := [ {| cc_flags := 256; cc_gid := 1; cc_arg1 := (AU8, 1); cc_arg2 := (AU8, 2); cc_scale := None |} ];
                  cg_instr := repeat 7 (Z.to_nat 65536) |} = Err BadValue /\
  cglyph_write {| cg_bbox := [0; 0; 0; 0];
                  cg_comps := [ {| cc_flags := 0; cc_gid := 1; cc_arg1 := (AU8, 1); cc_arg2 := (AU8, 2); cc_scale := None |} ];
                  cg_instr := repeat 7 (Z.to_nat 65536) |} = Ok [255; 255; 0; 0; 0; 0; 0; 0; 0; 0; 0; 0; 0; 1; 1; 2].
Proof. vm_compute. split; reflexivity. Qed.

(* ================================================================================================
   cmap sub-tables and the cmap table (Model/CmapWrite.v, Proofs/CmapRoundtrip.v), on the C06 reader
   model (Model/Cmap.v: `subtable`, `parse` = CmapSubtable::read, `parse_cmap` = Cmap::read).

   Vocabulary.  `sub_write st` is BOTH the borrowed `CmapSubtable::write` and
   `owned::CmapSubtable::write` (the same function of the parsed fields; tr_layouts.py compares the two
   bodies on every run).  `sub_size st` = the number of bytes of the encoding, `sub_fits st` = every
   count and the length fit the field they are stored in (format 4: at most 32767 segments and at most
   65535 bytes; format 0 / 6: 65535 bytes, 65535 entries; formats 10 / 12: 32 bits).  `sub_wf st` =
   a value the format can hold: fields within their widths, the four segment arrays of format 4
   equally long, 256 entries in format 0; not format 2 (which has no writer).
   `field16 b off` / `field32 b off` = the big-endian field at byte `off` of the written bytes.

   Declared normalisations of the writers (nothing else): the length field is recomputed from what is
   written; format 4: segCountX2, searchRange, entrySelector, rangeShift recomputed from the number of
   start codes, reservedPad = 0; bytes after the arrays the length field covered are not kept; the
   whole table is written with one private copy of the sub-table per record (shared sub-tables are
   unshared) in record order, directly after the records. *)
From AV Require Import Gen.CmapPrefs Model.MacRoman Model.Cmap Model.CmapSpec Model.CmapSubset Model.CmapWrite
  Proofs.CmapRoundtrip.

(* Ok => everything fits and the byte count is the size *)
Theorem C15_cmap_sub_write_ok_size : forall st b,
  sub_write st = Ok b -> sub_fits st /\ len b = sub_size st.
Proof. exact sub_write_ok_size. Qed.
Print Assumptions C15_cmap_sub_write_ok_size.

(* Ok => the length field and every count field hold the true values (16-bit length of formats 0, 4,
   6; segCountX2; entryCount; the 32-bit length, numChars, numGroups of formats 10, 12) — for ALL
   values, whatever the array sizes *)
Theorem C15_cmap_sub_fields_exact : forall st b,
  sub_write st = Ok b ->
  match st with
  | F0 _ _ => field16 b 2 = len b
  | F2 _ _ _ _ => True
  | F4 _ _ s _ _ _ => field16 b 2 = len b /\ field16 b 6 = 2 * len s
  | F6 _ _ g => field16 b 2 = len b /\ field16 b 8 = len g
  | F10 _ _ g => field32 b 4 = len b /\ field32 b 16 = len g
  | F12 _ gs => field32 b 4 = len b /\ field32 b 12 = len gs
  end.
Proof. exact sub_write_fields. Qed.
Print Assumptions C15_cmap_sub_fields_exact.

(* fits => written; does not fit => refused with BadValue (format 2: NotImplemented), nothing truncated.
   In particular a format 4 sub-table of 65536 bytes or more (2 segments + 32752 glyph ids; 8190
   segments) is refused *)
Theorem C15_cmap_sub_fits_written : forall st, sub_fits st -> exists b, sub_write st = Ok b.
Proof. exact sub_write_fits. Qed.
Print Assumptions C15_cmap_sub_fits_written.
Theorem C15_too_wide_refused_cmap_sub : forall st,
  ~ sub_fits st ->
  sub_write st = Err (match st with F2 _ _ _ _ => NotImplemented | _ => BadValue end).
Proof. exact sub_write_refusal. Qed.
Print Assumptions C15_too_wide_refused_cmap_sub.

(* read after write, every format, whatever follows the sub-table *)
Theorem C15_cmap_sub_roundtrip : forall st b rest,
  sub_wf st -> sub_write st = Ok b -> parse (b ++ rest) = Ok st.
Proof. exact sub_roundtrip. Qed.
Print Assumptions C15_cmap_sub_roundtrip.

(* whatever CmapSubtable::read accepts on ANY bytes is well-formed; formats 0 and 4 then always fit *)
Theorem C15_cmap_sub_read_is_wf : forall d st,
  bytes_ok d = true -> parse d = Ok st -> ~ is_f2 st -> sub_wf st.
Proof. exact parse_sub_wf. Qed.
Print Assumptions C15_cmap_sub_read_is_wf.

(* parse-write-parse of sub-tables on arbitrary parsable bytes *)
Theorem C15_cmap_sub_parse_write_parse : forall d st,
  bytes_ok d = true -> parse d = Ok st -> ~ is_f2 st ->
  (forall b rest, sub_write st = Ok b -> parse (b ++ rest) = Ok st) /\
  (sub_fits st -> exists b, sub_write st = Ok b) /\
  (~ sub_fits st -> sub_write st = Err BadValue) /\
  match st with F0 _ _ | F4 _ _ _ _ _ _ => exists b, sub_write st = Ok b | _ => True end.
Proof. exact sub_parse_write_parse. Qed.
Print Assumptions C15_cmap_sub_parse_write_parse.

Theorem C15_cmap_to_owned_parsed : forall d st,
  bytes_ok d = true -> parse d = Ok st -> ~ is_f2 st -> to_owned st = Some st.
Proof. exact to_owned_parsed. Qed.
Print Assumptions C15_cmap_to_owned_parsed.

(* the whole table: header, encoding records, true offsets, sub-tables *)
Theorem C15_cmap_table_roundtrip : forall recs b,
  Forall (fun r => u16 (cr_platform r) /\ u16 (cr_encoding r) /\ sub_wf (cr_sub r)) recs ->
  cmap_write recs = Ok b ->
  cmap_read_all b = Ok (mk_recs recs (table_offsets recs)).
Proof. exact cmap_roundtrip. Qed.
Print Assumptions C15_cmap_table_roundtrip.

Theorem C15_cmap_table_exact : forall recs b,
  cmap_write recs = Ok b ->
  len recs <= 65535 /\ Forall (fun r => sub_fits (cr_sub r)) recs /\
  Forall (fun o => 0 <= o <= 4294967295) (table_offsets recs) /\
  exists subs, b = w16 0 ++ w16 (len recs) ++ write_records recs (table_offsets recs) ++ subs /\
               len subs = subs_size recs /\ len b = 4 + 8 * len recs + subs_size recs.
Proof. exact cmap_write_exact. Qed.
Print Assumptions C15_cmap_table_exact.

Theorem C15_too_wide_refused_cmap_table : forall recs,
  (65535 < len recs -> cmap_write recs = Err BadValue) /\
  ((exists b, cmap_write recs = Ok b) \/ cmap_write recs = Err BadValue \/ cmap_write recs = Err NotImplemented).
Proof. intros recs. split; [apply cmap_write_too_many|apply cmap_write_total]. Qed.
Print Assumptions C15_too_wide_refused_cmap_table.

(* parse-write-parse of the whole table on arbitrary parsable bytes *)
Theorem C15_cmap_table_parse_write_parse : forall d l crecs b,
  bytes_ok d = true -> cmap_read_all d = Ok l -> owned_records l = Some crecs ->
  cmap_write crecs = Ok b ->
  cmap_read_all b = Ok (mk_recs crecs (table_offsets crecs)) /\
  map cr_sub crecs = map snd l /\
  map cr_platform crecs = map (fun x => er_platform (fst x)) l /\
  map cr_encoding crecs = map (fun x => er_encoding (fst x)) l.
Proof. exact cmap_parse_write_parse. Qed.
Print Assumptions C15_cmap_table_parse_write_parse.

(* this writer and the C08 model of the owned writer agree where both apply *)
Theorem C15_cmap_writer_agrees_C08 : forall m st,
  match st with
  | F0 _ g => len g = 256
  | F4 _ _ s _ _ _ => 1 <= len s <= 32767
  | F12 _ _ => True
  | _ => False
  end ->
  write_subtable m st = sub_write st.
Proof. exact sub_write_agrees_C08. Qed.
Print Assumptions C15_cmap_writer_agrees_C08.

(* ----- non-vacuity: the 65535 / 65536 byte boundary of format 4, both shapes; no segment at all *)
Definition zeros (n : Z) : list Z := repeat 0 (Z.to_nat n).
Lemma len_zeros n : 0 <= n -> len (zeros n) = n.
Proof. intros H. unfold zeros, len. rewrite repeat_length. lia. Qed.
(* with C15_cmap_sub_fits_written / C15_too_wide_refused_cmap_sub: written resp. refused *)
Example cmap_f4_boundary :
  (* 2 segments + 32751 glyph ids = 65534 bytes: fits *)
  sub_fits (F4 0 [10; 65535] [5; 65535] [0; 1] [4; 0] (zeros 32751)) /\
  sub_size (F4 0 [10; 65535] [5; 65535] [0; 1] [4; 0] (zeros 32751)) = 65534 /\
  (* 2 segments + 32752 glyph ids = 65536 bytes; + 32818: do not fit *)
  ~ sub_fits (F4 0 [10; 65535] [5; 65535] [0; 1] [4; 0] (zeros 32752)) /\
  ~ sub_fits (F4 0 [10; 65535] [5; 65535] [0; 1] [4; 0] (zeros 32818)) /\
  (* 8189 segments = 65528 bytes: fits; 8190 segments = 65536 bytes: does not *)
  sub_fits (F4 0 (zeros 8189) (zeros 8189) (zeros 8189) (zeros 8189) []) /\
  ~ sub_fits (F4 0 (zeros 8190) (zeros 8190) (zeros 8190) (zeros 8190) []) /\
  (* 32768 segments: segCountX2 does not fit *)
  ~ sub_fits (F4 0 [] (zeros 32768) [] [] []) /\
  (* no segment: readable, hence writable (fix 3bafcbb) *)
  parse [0; 4; 0; 16; 0; 0; 0; 0; 0; 0; 0; 0; 0; 0; 0; 0] = Ok (F4 0 [] [] [] [] []) /\
  sub_write (F4 0 [] [] [] [] []) = Ok [0; 4; 0; 16; 0; 0; 0; 0; 0; 0; 0; 0; 0; 0; 0; 0].
Proof.
  cbn [sub_fits sub_size].
  rewrite !len_zeros by lia.
  change (len [10; 65535]) with 2. change (len [5; 65535]) with 2. change (len [0; 1]) with 2. change (len [4; 0]) with 2.
  change (len (@nil Z)) with 0.
  repeat split; try lia; vm_compute; reflexivity.
Qed.
Example cmap_table_example :
  cmap_write [ {| cr_platform := 3; cr_encoding := 1; cr_sub := F4 0 [65535] [65535] [1] [0] [] |};
               {| cr_platform := 0; cr_encoding := 3; cr_sub := F6 0 5 [1; 2; 3] |} ]
  = Ok [0;0; 0;2; 0;3; 0;1; 0;0;0;20; 0;0; 0;3; 0;0;0;44;
        0;4; 0;24; 0;0; 0;2; 0;2; 0;0; 0;0; 255;255; 0;0; 255;255; 0;1; 0;0;
        0;6; 0;16; 0;0; 0;5; 0;3; 0;1; 0;2; 0;3] /\
  table_offsets [ {| cr_platform := 3; cr_encoding := 1; cr_sub := F4 0 [65535] [65535] [1] [0] [] |};
                  {| cr_platform := 0; cr_encoding := 3; cr_sub := F6 0 5 [1; 2; 3] |} ] = [20; 44].
Proof. vm_compute. split; reflexivity. Qed.
(* the well-formedness hypothesis is needed: segment arrays of different lengths are written as they
   are and read back as a different sub-table *)
Example cmap_f4_unequal_arrays :
  exists b, sub_write (F4 0 [7] [1; 2] [0; 0] [0; 0] []) = Ok b /\ parse b <> Ok (F4 0 [7] [1; 2] [0; 0] [0; 0] []).
Proof. eexists. split; [vm_compute; reflexivity|]. vm_compute. discriminate. Qed.

(* ----- obligations on the current source (Gen/GlyfCmapShapes.v is regenerated by tr_glyfcmap.py from
   src/tables/glyf.rs and src/tables/cmap.rs on every run; Gen/GlyfConsts.v by tr_glyf.py) *)
From AV Require Import Gen.GlyfCmapShapes.
Theorem C15_glyf_cmap_writers_declared :
  (* the composite flag word: bit values, the truncation mask, what the accessors test — as declared
     in the OpenType glyf chapter, and as the model (through Gen/GlyfConsts.v) uses them *)
  [cgf_arg_1_and_2_are_words; cgf_args_are_xy_values; cgf_round_xy_to_grid; cgf_we_have_a_scale; cgf_more_components;
   cgf_we_have_an_x_and_y_scale; cgf_we_have_a_two_by_two; cgf_we_have_instructions; cgf_use_my_metrics;
   cgf_overlap_compound; cgf_scaled_component_offset; cgf_unscaled_component_offset]
  = [1; 2; 4; 8; 32; 64; 128; 256; 512; 1024; 2048; 4096] /\
  cgf_all = 8175 /\ CF_ALL = cgf_all /\
  [cgf_test_arg_1_and_2_are_words; cgf_test_args_are_xy_values; cgf_test_we_have_a_scale;
   cgf_test_we_have_an_x_and_y_scale; cgf_test_we_have_a_two_by_two; cgf_test_more_components; cgf_test_we_have_instructions]
  = [cf_arg_1_and_2_are_words; cf_args_are_xy_values; cf_we_have_a_scale; cf_we_have_an_x_and_y_scale;
     cf_we_have_a_two_by_two; cf_more_components; cf_we_have_instructions] /\
  [cf_arg_1_and_2_are_words; cf_args_are_xy_values; cf_we_have_a_scale; cf_we_have_an_x_and_y_scale;
   cf_we_have_a_two_by_two; cf_more_components; cf_we_have_instructions] = [1; 2; 8; 64; 128; 32; 256] /\
  scale_tests = [(8, KScale); (64, KXY); (128, KMatrix)] /\
  (arg_kind true true, arg_kind true false, arg_kind false true, arg_kind false false) = (AI16, AU16, AI8, AU8) /\
  cgw_number_of_contours = -1 /\
  (* the cmap writers: format word, width of the (back-patched, checked) length field, width of the
     (checked) count field; the segment limit; the reader's format 0 / format 4 constants *)
  cmw_formats = [(0, PU16, None); (4, PU16, None); (6, PU16, Some PU16); (10, PU32, Some PU32); (12, PU32, Some PU32)] /\
  cmw_max_segments = 32767 /\ cmr_f0_entries = 256 /\ cmr_f0_min_length = 262 /\ cmr_f4_header_words = (8, 4).
Proof. vm_compute. repeat split; reflexivity. Qed.
Print Assumptions C15_glyf_cmap_writers_declared.

(* ===== cvt, CFF custom charsets, FDSelect, custom encodings (Model/CffSets.v) *)
From AV Require Import Model.CffSets Proofs.CffSetsProofs.

(* cvt: every list of FWORDs reads back from a table of twice as many bytes; an odd length is refused *)
Theorem C15_cvt_roundtrip : forall vs rest c,
  Forall i16_ok vs -> cgood c -> at_bytes c (cvt_write vs ++ rest) ->
  exists c', cvt_read c (2 * len vs) = Ok (vs, c') /\ advanced c c' rest.
Proof. exact cvt_roundtrip. Qed.
Print Assumptions C15_cvt_roundtrip.

Theorem C15_cvt_odd_length_refused : forall c l, l mod 2 <> 0 -> cvt_read c l = Err BadValue.
Proof. exact cvt_odd_length_refused. Qed.
Print Assumptions C15_cvt_odd_length_refused.

Theorem C15_cvt_write_length : forall vs, len (cvt_write vs) = 2 * len vs.
Proof. exact cvt_write_length. Qed.
Print Assumptions C15_cvt_write_length.

(* charsets: format 0 with n_glyphs - 1 SIDs, formats 1 / 2 with ranges whose last range (and no
   earlier one) completes the n_glyphs - 1 glyphs — read_range_array's loop stops exactly there *)
Theorem C15_charset_roundtrip : forall cs n_glyphs rest c,
  charset_ok cs n_glyphs -> cgood c -> at_bytes c (charset_write cs ++ rest) ->
  exists c', charset_read c n_glyphs = Ok (cs, c') /\ advanced c c' rest.
Proof. exact charset_roundtrip. Qed.
Print Assumptions C15_charset_roundtrip.

Example charset_ok_somewhere :
  charset_ok (1, [[391; 2]; [1000; 0]; [5; 255]]) 261 /\ charset_ok (2, [[1; 65535]]) 40000 /\ charset_ok (0, [[7]; [9]]) 3 /\
  charset_ok (2, []) 1.
Proof.
  unfold charset_ok. cbn [fst snd]. split; [|split; [|split]].
  - split; [lia|]. split; [repeat constructor|]. right. split; [auto|]. cbv [covers range_len nthZ nth Z.to_nat Pos.to_nat Pos.iter_op Init.Nat.add]. lia.
  - split; [lia|]. split; [repeat constructor|]. right. split; [auto|]. cbv [covers range_len nthZ nth Z.to_nat Pos.to_nat Pos.iter_op Init.Nat.add]. lia.
  - split; [lia|]. split; [repeat constructor|]. left. split; reflexivity.
  - split; [lia|]. split; [constructor|]. right. split; [auto|]. cbv [covers range_len nthZ nth Z.to_nat Pos.to_nat Pos.iter_op Init.Nat.add]. lia.
Qed.

(* the general statement about the peeking loop (any record type with the count in field 1) *)
Theorem C15_read_range_array_roundtrip : forall t recs n rest c,
  (0 <? ty_size t) && (ty_size t <? 1000) = true ->
  Forall (rec_ok t) recs -> covers recs 0 n ->
  cgood c -> at_bytes c (RecordProofs.enc_recs t recs ++ rest) ->
  exists c', read_range_array t c n = Ok (recs, c') /\ advanced c c' rest.
Proof. exact read_range_array_roundtrip. Qed.
Print Assumptions C15_read_range_array_roundtrip.

(* … and its limit: ranges after the covering one are written but not read back (the charset writer
   has no check; `CustomCharset` values built by the subsetter always cover exactly) *)
Theorem C15_charset_ranges_excess_dropped : forall t recs extra n rest c,
  (0 <? ty_size t) && (ty_size t <? 1000) = true ->
  Forall (rec_ok t) recs -> covers recs 0 n ->
  cgood c -> at_bytes c (RecordProofs.enc_recs t (recs ++ extra) ++ rest) ->
  exists c', read_range_array t c n = Ok (recs, c') /\ advanced c c' (RecordProofs.enc_recs t extra ++ rest).
Proof. exact charset_ranges_excess_dropped. Qed.
Print Assumptions C15_charset_ranges_excess_dropped.

Theorem C15_charset_zero_glyphs_refused : forall c, charset_read c 0 = Err BadValue.
Proof. exact charset_zero_glyphs_refused. Qed.
Print Assumptions C15_charset_zero_glyphs_refused.

(* FDSelect formats 0 and 3 *)
Theorem C15_fdselect_roundtrip : forall f n_glyphs b rest c,
  fdselect_ok f n_glyphs -> fdselect_write f = Ok b -> cgood c -> at_bytes c (b ++ rest) ->
  exists c', fdselect_read c n_glyphs = Ok (f, c') /\ advanced c c' rest.
Proof. exact fdselect_roundtrip. Qed.
Print Assumptions C15_fdselect_roundtrip.

Example fdselect_ok_somewhere :
  fdselect_ok {| fs_fmt := 3; fs_recs := [[0; 1]; [12; 0]]; fs_sentinel := 40 |} 40 /\
  fdselect_write {| fs_fmt := 3; fs_recs := [[0; 1]; [12; 0]]; fs_sentinel := 40 |} = Ok [3; 0; 2; 0; 0; 1; 0; 12; 0; 0; 40].
Proof. split; [right; repeat split; repeat constructor | vm_compute; reflexivity]. Qed.

Theorem C15_too_wide_refused_fdselect : forall f,
  fs_fmt f <> 0 ->
  match fdselect_write f with
  | Ok b => len (fs_recs f) <= 65535
  | Err e => e = BadValue /\ 65535 < len (fs_recs f)
  | _ => False
  end.
Proof. exact fdselect_too_many_ranges_refused. Qed.
Print Assumptions C15_too_wide_refused_fdselect.

(* custom encodings, formats 0 and 1; a count above 255 is refused, supplements are NotImplemented *)
Theorem C15_encoding_roundtrip : forall e b rest c,
  encoding_ok e -> encoding_write e = Ok b -> cgood c -> at_bytes c (b ++ rest) ->
  exists c', encoding_read c = Ok (e, c') /\ advanced c c' rest.
Proof. exact encoding_roundtrip. Qed.
Print Assumptions C15_encoding_roundtrip.

Theorem C15_too_wide_refused_encoding : forall e,
  match encoding_write e with
  | Ok b => len (snd e) <= 255
  | Err x => x = BadValue /\ 255 < len (snd e)
  | _ => False
  end.
Proof. exact encoding_too_many_refused. Qed.
Print Assumptions C15_too_wide_refused_encoding.

Theorem C15_encoding_supplement_not_implemented : forall c fmt rest,
  cgood c -> 128 <= fmt <= 255 -> at_bytes c (write_prim PU8 fmt ++ rest) ->
  encoding_read c = Err NotImplemented.
Proof. exact encoding_supplement_not_implemented. Qed.
Print Assumptions C15_encoding_supplement_not_implemented.

(* charset queries on the parsed value (formats 1 and 2): CustomCharset::id_for_glyph is the lookup in
   the expansion of the ranges — the value the round trip preserves is the value the queries see *)
From AV Require Import Proofs.CffSetsLookup.
Theorem C15_charset_id_for_glyph_ranges : forall fmt recs gid,
  fmt <> 0 -> Forall (fun r => 0 <= nthZ r 1) recs -> 0 <= gid ->
  charset_id_for_glyph (fmt, recs) gid =
    if gid =? 0 then Some 0
    else if gid <=? len (expand recs)
      then (let v := nthZ (expand recs) (gid - 1) in if v <=? 65535 then Some v else None)
      else None.
Proof. exact charset_id_for_glyph_ranges. Qed.
Print Assumptions C15_charset_id_for_glyph_ranges.

Example charset_id_for_glyph_somewhere :
  expand [[391; 2]; [1000; 0]; [65535; 1]] = [391; 392; 393; 1000; 65535; 65536] /\
  map (charset_id_for_glyph (1, [[391; 2]; [1000; 0]; [65535; 1]])) [0; 1; 3; 4; 5; 6; 7]
    = [Some 0; Some 391; Some 393; Some 1000; Some 65535; None; None].
Proof. split; vm_compute; reflexivity. Qed.

(* the SID -> glyph query (used for seac components) is a right inverse of id_for_glyph on every range
   list, and its result is a glyph id in 1..65535 — no wrap-around, whatever the ranges claim *)
Theorem C15_charset_sid_to_gid_inverts : forall fmt recs sid g,
  fmt <> 0 -> Forall (fun r => 0 <= nthZ r 1) recs -> 0 <= sid <= 65535 ->
  charset_sid_to_gid (fmt, recs) sid = Some g ->
  1 <= g <= 65535 /\ charset_id_for_glyph (fmt, recs) g = Some sid.
Proof. exact charset_sid_to_gid_inverts. Qed.
Print Assumptions C15_charset_sid_to_gid_inverts.

Example charset_sid_to_gid_somewhere :
  map (charset_sid_to_gid (2, [[100; 65535]; [7; 0]])) [100; 5; 7; 65535] = [Some 1; None; None; Some 65436] /\
  charset_sid_to_gid (1, [[391; 2]; [1000; 0]]) 1000 = Some 4.
Proof. split; vm_compute; reflexivity. Qed.
