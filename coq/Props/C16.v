(* Props/C16.v — the theorems that decide C16 (TrueType outlines: flag/coordinate decoding, contour
   semantics, composite glyphs).  Statements only; every proof is `exact <lemma>` and is followed by
   Print Assumptions.  Model: Model/GlyfOutline.v (after src/tables/glyf.rs, src/tables/glyf/outline.rs,
   constants from Gen/GlyfConsts.v); specification: Model/GlyfSpec.v. *)
From AV Require Import Base.Prelude Gen.GlyfConsts Gen.LocaConsts Model.GlyfSpec Model.GlyfOutline Model.GlyfLoca
     Proofs.GlyfContourProofs Proofs.GlyfDecodeProofs Proofs.GlyfCompositeProofs Proofs.GlyfGlyphProofs
     Proofs.GlyfLocaProofs.
From Coq Require Import QArith.
Open Scope Z_scope.

(* ---- (a) packed flags and coordinates --------------------------------------------------------- *)

(* For EVERY point list with i16 coordinates and EVERY legal way of writing it (per point and axis:
   short / same / long delta, either sign bit for a zero short delta, any reserved bits; any grouping
   of runs of equal flag bytes into REPEAT_FLAG records, count 0..255, or plain repetition), the three
   passes of SimpleGlyph::read_dep consume exactly the encoding and return exactly the points with
   their on-curve bits. *)
Theorem C16_flags_decode_all_encodings : forall pts chs gs rest,
  encoding_legal pts chs gs = true ->
  exists coords, read_points (len pts) (encode_points pts chs gs ++ rest) = Ok (coords, rest) /\
                 map to_spoint coords = pts.
Proof. exact decode_encode. Qed.
Print Assumptions C16_flags_decode_all_encodings.

(* endPtsOfContours that increase strictly and stay inside the coordinate array cut it into
   consecutive non-empty contours, one per entry *)
Theorem C16_contours_partition : forall (coords : list point) ends start,
  0 <= start -> ends_ok start ends (len coords) = true ->
  concat (contours start ends coords) = take (next_start start ends - start) (drop start coords) /\
  Forall (fun c => c <> []) (contours start ends coords) /\
  length (contours start ends coords) = length ends.
Proof. exact (@contours_partition point). Qed.
Print Assumptions C16_contours_partition.

(* ---- (b) contour -> commands ------------------------------------------------------------------ *)

(* For EVERY non-empty contour (every on/off pattern, every length: one point, two points, all
   off-curve, ...) the walker terminates without panic (no `unreachable!`, no index out of range, the
   model's loop fuel is never exhausted) and delivers exactly the specification's reading of the
   cyclic expansion, started at one of its on-curve points (rotation k). *)
Theorem C16_contour_matches_expansion : forall c : list point, c <> [] ->
  exists cmds k, contour_cmds c = Ok cmds /\
    (k < length (expand (map to_spoint c)))%nat /\
    path_of_rotation (rotl k (expand (map to_spoint c))) = Some cmds.
Proof. exact contour_cmds_spec. Qed.
Print Assumptions C16_contour_matches_expansion.

(* What such a path is, read back independently through `trace`: one closed sub-path
   move_to ... close with only lines and quadratics in between, starting on the curve, passing
   through the rotated expansion point by point in order (off-curve points exactly as control
   points, on-curve points exactly as end points); the closing edge is explicit exactly when it is a
   curve (the expansion ends off-curve), otherwise it is left to `close`. *)
Theorem C16_path_is_closed_subpath_in_order : forall R cmds, path_of_rotation R = Some cmds ->
  exists e R' b, R = e :: R' /\ e_on e = true /\
    cmds = Move (e_pos e) :: b ++ [Close] /\ forallb is_segment b = true /\
    trace cmds = map untag R ++ (if ends_off R' then [(true, e_pos e)] else []).
Proof. exact path_shape. Qed.
Print Assumptions C16_path_is_closed_subpath_in_order.

(* The expansion without recursion: each point, followed by the implied on-curve midpoint exactly
   when it and its CYCLIC successor (the first point after the last) are both off-curve. *)
Theorem C16_expansion_is_cyclic_midpoints : forall sp,
  expand sp = flat_map (fun pq => e_orig (fst pq) :: implied_between (fst pq) (snd pq)) (cyclic_pairs sp)
  /\ forall p q, implied_between p q =
       if negb (fst p) && negb (fst q)
       then [{| e_implied := true; e_on := true;
                e_pos := (fst (snd p) + fst (snd q), snd (snd p) + snd (snd q)) |}]   (* half units *)
       else [].
Proof. intros sp. split; [exact (expand_pairs sp)|exact implied_between_spec]. Qed.
Print Assumptions C16_expansion_is_cyclic_midpoints.

(* the original points appear exactly once each and in (cyclic) order in every rotation *)
Theorem C16_points_once_in_order : forall sp k, exists k',
  filter (fun e => negb (e_implied e)) (rotl k (expand sp)) = rotl k' (map e_orig sp).
Proof. exact rotation_originals. Qed.
Print Assumptions C16_points_once_in_order.

(* a simple glyph: the paths of its non-empty contours, in order (empty contours — a repeated
   endPtsOfContours value, finding F16 — draw nothing) *)
Theorem C16_simple_glyph_all_contours : forall cs : list (list point), exists paths,
  simple_cmds cs = Ok (concat paths) /\
  Forall2 is_path_of (filter (fun c => negb (len c =? 0)) cs) paths.
Proof. exact simple_cmds_spec. Qed.
Print Assumptions C16_simple_glyph_all_contours.

Theorem C16_simple_outline_total : forall sg, exists cmds, visit_simple sg = Ok cmds.
Proof. exact visit_simple_total. Qed.
Print Assumptions C16_simple_outline_total.

(* (a) + (b) end to end.  For EVERY list of non-empty contours and EVERY legal way of writing them as
   a simple glyph description (contour count, any bounding box bytes, endPtsOfContours, any
   instructions, any legal flag/coordinate encoding; anything may follow), Glyph::read parses it and
   the outline drawn is, contour by contour, a specified reading of that contour's cyclic expansion. *)
Theorem C16_simple_glyph_end_to_end : forall cs bbox instr chs gs rest,
  simple_glyph_legal cs bbox instr chs gs = true ->
  exists sg paths,
    read_glyph (simple_glyph_bytes cs bbox instr chs gs ++ rest) = Ok (GSimple sg) /\
    visit_simple sg = Ok (concat paths) /\
    Forall2 spec_path_of cs paths.
Proof. exact simple_glyph_end_to_end. Qed.
Print Assumptions C16_simple_glyph_end_to_end.

(* ... and through OutlineBuilder::visit (table load, glyph lookup, identity transform): the commands
   are those paths, in font units (half of the doubled coordinates) *)
Theorem C16_visit_simple_glyph : forall cs bbox instr chs gs,
  simple_glyph_legal cs bbox instr chs gs = true ->
  exists cmds paths,
    visit [simple_glyph_bytes cs bbox instr chs gs] 0 = Ok cmds /\
    cmds_eq cmds (map (map_cmd half) (concat paths)) /\
    Forall2 spec_path_of cs paths.
Proof. exact visit_simple_glyph. Qed.
Print Assumptions C16_visit_simple_glyph.

(* ---- (c) composite glyphs --------------------------------------------------------------------- *)

(* the transform built for a component with x/y offsets is the OpenType one:
   x' = xscale x + scale10 y + dx,  y' = scale01 x + yscale y + dy   (exact rationals);
   the argument order of Matrix2x2F::row_major is read from the source (Gen.row_major_args) *)
Theorem C16_component_transform_is_opentype : forall c p,
  has (c_flags c) cf_args_are_xy_values = true ->
  qp_eq (x_apply (comp_xform c) p) (spec_transform (sscale_of c) (c_arg1 c) (c_arg2 c) p).
Proof. exact comp_xform_spec. Qed.
Print Assumptions C16_component_transform_is_opentype.

(* the judge of the correspondence applies exactly this specified transform (spec_xform) *)
Theorem C16_judge_transform_is_spec : forall c p, supported c = true ->
  qp_eq (x_apply (spec_xform c) p) (spec_transform (sscale_of c) (c_arg1 c) (c_arg2 c) p).
Proof. exact spec_xform_spec. Qed.
Print Assumptions C16_judge_transform_is_spec.

Theorem C16_transform_composition : forall a b p,
  qp_eq (x_apply (x_compose a b) p) (x_apply a (x_apply b p)).
Proof. exact x_compose_apply. Qed.
Print Assumptions C16_transform_composition.

(* Whenever visit delivers an outline, it is the declarative one: a composite's outline is the
   concatenation over its components of the component glyph's outline mapped through the component's
   scale matrix and offset — at every nesting level (the accumulated transform `tr` is applied on
   top).  Stated for tables whose components are in the supported class (x/y offsets that are not to
   be scaled); the excluded class is the source's documented TODOs, see the witnesses below. *)
Theorem C16_composite_component_transformed : forall t, table_supported t ->
  forall fuel gid tr depth insts,
  visit_outline comp_xform fuel t gid tr depth = Ok insts ->
  exists o, outline_spec fuel t gid = Some o /\
            cmds_eq (render insts) (map (map_cmd (x_apply tr)) o).
Proof. exact visit_outline_spec. Qed.
Print Assumptions C16_composite_component_transformed.

(* bounded nesting: an outline is delivered only if every glyph of the composite tree is at most
   RECURSION_LIMIT reference steps below the visited glyph ... *)
Theorem C16_composite_depth_bounded : forall cx t fuel gid tr depth insts,
  visit_outline cx fuel t gid tr depth = Ok insts ->
  forall n gid', reach t gid n gid' -> depth + Z.of_nat n * DEPTH_STEP <= RECURSION_LIMIT.
Proof. exact visit_depth_bounded. Qed.
Print Assumptions C16_composite_depth_bounded.

(* ... and the model's recursion fuel never cuts the traversal short: only the depth test does *)
Theorem C16_fuel_irrelevant : forall cx t gid k,
  visit_outline cx (VISIT_FUEL + k) t gid x_id DEPTH_START = visit_outline cx VISIT_FUEL t gid x_id DEPTH_START.
Proof. exact visit_fuel_irrelevant. Qed.
Print Assumptions C16_fuel_irrelevant.

(* ---- (d) "for every glyph in a glyf table": loca and the records of the table ------------------ *)
(* Model: Model/GlyfLoca.v (after src/tables/loca.rs and GlyfTable::read_dep; the multiplier of the
   short format is read from the source, Gen.LOCA_SHORT_MULT). *)

(* EVERY list of offsets a format can express (short: even, at most 2 * 65535 = 131070; long: below
   2^32) is read back exactly from the loca table the OpenType specification prescribes for it (short:
   offset / 2 as uint16; long: offset as uint32), whatever follows: no offset wraps or is truncated. *)
Theorem C16_loca_offsets_read_back : forall fmt offs rest,
  offs <> [] -> forallb (offset_legal fmt) offs = true ->
  loca_offsets fmt (len offs - 1) (encode_loca fmt offs ++ rest) = Ok offs.
Proof. exact loca_offsets_encode. Qed.
Print Assumptions C16_loca_offsets_read_back.

(* EVERY legal layout — any number (>= 1) of glyph records of any sizes (empty, or at least the two
   bytes of the contour count; padding counts as part of the record), stored one after the other
   after any unused prefix and before any trailing bytes, in either loca format — is cut by
   LocaTable::read_dep + GlyfTable::read_dep into exactly these records, in order. *)
Theorem C16_glyf_table_records_are_layout : forall fmt pre gs post lrest,
  layout_legal fmt pre gs = true ->
  glyf_table fmt (len gs) (encode_loca fmt (offsets_of (len pre) gs) ++ lrest) (pre ++ concat gs ++ post) = Ok gs.
Proof. exact glyf_table_layout. Qed.
Print Assumptions C16_glyf_table_records_are_layout.

(* Whatever the two tables hold: when they are accepted, visiting a glyph id is visiting the record
   GlyfTable::read_dep made for it (so every theorem about `visit` on records speaks about the tables) *)
Theorem C16_table_visit_is_record_visit : forall fmt n loca glyf gid t,
  glyf_table fmt n loca glyf = Ok t -> visit_glyf fmt n loca glyf gid = visit t gid.
Proof. exact visit_glyf_is_visit. Qed.
Print Assumptions C16_table_visit_is_record_visit.

(* ... hence for EVERY glyph id of EVERY legal layout the outline delivered through the bytes of both
   tables is the outline of that glyph's own record *)
Theorem C16_visit_every_glyph_of_table : forall fmt pre gs post lrest gid,
  layout_legal fmt pre gs = true ->
  visit_glyf fmt (len gs) (encode_loca fmt (offsets_of (len pre) gs) ++ lrest) (pre ++ concat gs ++ post) gid
  = visit gs gid.
Proof. exact visit_glyf_layout. Qed.
Print Assumptions C16_visit_every_glyph_of_table.

(* (a) + (b) + (d) end to end: a legally described simple glyph (up to 65536 points, last
   endPtsOfContours up to 65535) followed by any padding, at ANY glyph id of ANY legal layout in either
   loca format, is drawn as the specified paths of its contours. *)
Theorem C16_visit_simple_glyph_in_table : forall fmt pre gl post lrest gid cs bbox instr chs gs pad,
  layout_legal fmt pre gl = true ->
  nth_opt gl gid = Some (simple_glyph_bytes cs bbox instr chs gs ++ pad) ->
  simple_glyph_legal cs bbox instr chs gs = true ->
  exists cmds paths,
    visit_glyf fmt (len gl) (encode_loca fmt (offsets_of (len pre) gl) ++ lrest) (pre ++ concat gl ++ post) gid
      = Ok cmds /\
    cmds_eq cmds (map (map_cmd half) (concat paths)) /\
    Forall2 spec_path_of cs paths.
Proof. exact visit_simple_glyph_in_table. Qed.
Print Assumptions C16_visit_simple_glyph_in_table.

(* ---- non-vacuity and boundary witnesses ------------------------------------------------------- *)

Definition P (on : bool) (x y : Z) : point := ((if on then 1 else 0), (x, y)).

(* all points off-curve: starts at the implied point across the closing edge *)
Example ex_all_off :
  contour_cmds [P false 0 0; P false 10 0; P false 10 10] =
  Ok [Move (10, 10); Quad (0, 0) (10, 0); Quad (20, 0) (20, 10); Quad (20, 20) (10, 10); Close].
Proof. vm_compute. reflexivity. Qed.
Example ex_single_on : contour_cmds [P true 3 4] = Ok [Move (6, 8); Close].
Proof. vm_compute. reflexivity. Qed.
Example ex_single_off : contour_cmds [P false 3 4] = Ok [Move (6, 8); Quad (6, 8) (6, 8); Close].
Proof. vm_compute. reflexivity. Qed.
Example ex_two_off_on : contour_cmds [P false 0 0; P true 4 0] = Ok [Move (8, 0); Quad (0, 0) (8, 0); Close].
Proof. vm_compute. reflexivity. Qed.
(* first off, last on, implied point in the middle, closing edge left to `close` *)
Example ex_off_first :
  contour_cmds [P false 0 0; P false 2 0; P true 2 2; P true 0 2] =
  Ok [Move (0, 4); Quad (0, 0) (2, 0); Quad (4, 0) (4, 4); Close].
Proof. vm_compute. reflexivity. Qed.
Example ex_empty_contour_skipped :
  simple_cmds [[P true 0 0]; []; [P true 1 1]] = Ok [Move (0, 0); Close; Move (2, 2); Close].
Proof. vm_compute. reflexivity. Qed.

(* a legal encoding that uses a repeat record, a short negative, a same and a long delta *)
Definition ex_pts : list spoint := [(true, (5, 0)); (true, (10, 0)); (false, (10, -300)); (true, (9, -300))].
Definition chS := {| ch_x := DShort; ch_y := DSame; ch_xzero_pos := false; ch_yzero_pos := false; ch_reserved := 0 |}.
Definition chL := {| ch_x := DSame; ch_y := DLong; ch_xzero_pos := false; ch_yzero_pos := false; ch_reserved := 1 |}.
Example ex_encoding_legal : encoding_legal ex_pts [chS; chS; chL; chS] [(1%nat, true); (0%nat, false); (0%nat, true)] = true.
Proof. vm_compute. reflexivity. Qed.
Example ex_encoding_bytes :
  encode_points ex_pts [chS; chS; chL; chS] [(1%nat, true); (0%nat, false); (0%nat, true)]
  = [59; 1; 80; 43; 0; 5; 5; 1; 254; 212].
Proof. vm_compute. reflexivity. Qed.

Example ex_simple_glyph_legal :
  simple_glyph_legal [[(true, (5, 0)); (true, (10, 0))]; [(false, (10, -300)); (true, (9, -300))]]
                     [0; 0; 0; 0; 0; 0; 0; 0] [7]
                     [chS; chS; chL; chS] [(1%nat, true); (0%nat, false); (0%nat, true)] = true.
Proof. vm_compute. reflexivity. Qed.

(* composites: nested offsets accumulate (finding F17), the two-by-two matrix is applied as
   x' = xscale x + scale10 y (finding: it was transposed) *)
Definition g_sq : list Z :=
  [0; 1; 0; 0; 0; 0; 0; 0; 0; 0; 0; 3; 0; 0; 1; 1; 1; 1; 0; 0; 0; 100; 0; 0; 255; 156; 0; 0; 0; 0; 0; 100; 0; 0].
Definition g_A : list Z := [255; 255; 0; 0; 0; 0; 0; 0; 0; 0; 0; 3; 0; 1; 3; 232; 0; 0].   (* glyph 1 at (1000, 0) *)
Definition g_B : list Z := [255; 255; 0; 0; 0; 0; 0; 0; 0; 0; 0; 3; 0; 2; 0; 0; 1; 244].   (* glyph 2 at (0, 500) *)
Example ex_nested_offsets :
  visit [g_A; g_B; g_sq] 0 =
  Ok [Move (1000, 500)%Q; Line (1100, 500)%Q; Line (1100, 600)%Q; Line (1000, 600)%Q; Close].
Proof. vm_compute. reflexivity. Qed.
Definition g_2x2 : list Z :=   (* xscale 1, scale01 1/2, scale10 0, yscale 1 *)
  [255; 255; 0; 0; 0; 0; 0; 0; 0; 0; 0; 131; 0; 1; 0; 0; 0; 0; 64; 0; 32; 0; 0; 0; 64; 0].
Example ex_two_by_two :
  visit [g_2x2; g_sq] 0 =
  Ok [Move (0, 0)%Q; Line (100, 50)%Q; Line (100, 150)%Q; Line (0, 100)%Q; Close].
Proof. vm_compute. reflexivity. Qed.

(* the nesting limit: a self-referencing glyph is rejected, a short chain is drawn, a chain longer
   than the limit read from the source is rejected *)
Definition g_self : list Z := [255; 255; 0; 0; 0; 0; 0; 0; 0; 0; 0; 3; 0; 0; 0; 0; 0; 0].
Example ex_cycle_rejected : visit [g_self] 0 = Err LimitExceeded.
Proof. vm_compute. reflexivity. Qed.
Definition g_ch (k : Z) : list Z := [255; 255; 0; 0; 0; 0; 0; 0; 0; 0; 0; 3; 0; k; 0; 1; 0; 0].
Fixpoint chain (k : Z) (n : nat) : table :=
  match n with O => [g_sq] | S n' => g_ch (k + 1) :: chain (k + 1) n' end.
Example ex_chain_3_drawn :
  visit (chain 0 3) 0 = Ok [Move (3, 0)%Q; Line (103, 0)%Q; Line (103, 100)%Q; Line (3, 100)%Q; Close].
Proof. vm_compute. reflexivity. Qed.
Example ex_chain_beyond_limit_rejected :
  visit (chain 0 (Z.to_nat RECURSION_LIMIT + 2)) 0 = Err LimitExceeded.
Proof. vm_compute. reflexivity. Qed.

(* the excluded class is real: with ARGS_ARE_XY_VALUES clear the arguments are ignored (the source's
   TODO), and SCALED_COMPONENT_OFFSET does not scale the offset *)
Definition c_pointnum : component := {| c_flags := 1; c_gid := 1; c_arg1 := 3; c_arg2 := 4; c_scale := None |}.
Example ex_excluded_point_numbers :
  supported c_pointnum = false /\ x_apply (comp_xform c_pointnum) (0, 0)%Q = (0, 0)%Q.
Proof. vm_compute. split; reflexivity. Qed.
Definition c_scaledoff : component :=
  {| c_flags := 2 + 8 + 2048; c_gid := 1; c_arg1 := 100; c_arg2 := 0; c_scale := Some (SScale 8192) |}.
Example ex_excluded_scaled_offset :
  supported c_scaledoff = false /\ x_apply (comp_xform c_scaledoff) (0, 0)%Q = (100, 0)%Q.   (* scaled: (50, 0) *)
Proof. vm_compute. split; reflexivity. Qed.

(* the short loca format: stored values are doubled without wrapping (65535 -> 131070) *)
Example ex_short_loca_no_wrap :
  loca_offsets LShort 2 [0; 0; 128; 0; 255; 255] = Ok [0; 65536; 131070] /\
  offset_legal LShort 131070 = true /\ offset_legal LShort 131072 = false /\ offset_legal LShort 7 = false.
Proof. vm_compute. repeat split; reflexivity. Qed.
(* a legal short layout with an empty record in the middle; every glyph id gets its own record *)
Example ex_layout_short :
  layout_legal LShort [] [g_A; []; g_B; g_sq] = true /\
  glyf_table LShort 4 (encode_loca LShort (offsets_of 0 [g_A; []; g_B; g_sq])) (g_A ++ g_B ++ g_sq)
    = Ok [g_A; []; g_B; g_sq] /\
  visit_glyf LShort 4 (encode_loca LShort (offsets_of 0 [g_A; []; g_B; g_sq])) (g_A ++ g_B ++ g_sq) 3 =
  Ok [Move (0, 0)%Q; Line (100, 0)%Q; Line (100, 100)%Q; Line (0, 100)%Q; Close].
Proof. vm_compute. repeat split; reflexivity. Qed.
(* odd record lengths cannot be expressed in the short format (the layout is not legal), they can in the long one *)
Example ex_layout_odd : layout_legal LShort [] [[0; 0; 0]] = false /\ layout_legal LLong [] [[0; 0; 0]] = true.
Proof. vm_compute. split; reflexivity. Qed.
(* damaged loca tables are rejected as coded: decreasing offsets, an offset beyond the table, no glyph *)
Example ex_loca_damaged :
  glyf_table LLong 2 (encode_loca LLong [0; 34; 20]) g_sq = Err BadOffset /\
  glyf_table LLong 1 (encode_loca LLong [40; 44]) g_sq = Err BadOffset /\
  glyf_table LLong 0 (encode_loca LLong [0]) g_sq = Err BadIndex /\
  glyf_table LShort 1 [0; 0] g_sq = Err Eof.
Proof. vm_compute. repeat split; reflexivity. Qed.
(* the last legal point number: a contour that ends at point 65535 is delivered (65536 points) *)
Example ex_last_point_number :
  map len (contours 0 [65531; 65535] (repeat (P true 0 0) (Z.to_nat 65536))) = [65532; 4].
Proof. vm_compute. reflexivity. Qed.
