(* Props/C08.v — the theorems that decide C08 (subsetting preserves the character mapping of
   retained glyphs).  Statements only; every proof is `exact <lemma>` followed by Print Assumptions.
   Model: Model/CmapSubset.v (after src/tables/cmap/subset.rs, the owned cmap writers of
   src/tables/cmap.rs, the cmap path of src/subset.rs), read back with the C06 reader model
   Model/Cmap.v ([parse], [map_glyph], [font_map_glyph]) whose conformance is C06.
   [lookup0 M c] is the kept mapping of code c: its glyph, or 0 when c is not kept. *)
From AV Require Import Base.Prelude Gen.CmapPrefs Model.MacRoman Model.Cmap Model.CmapSpec Model.CmapSubset
  Proofs.CmapProofs Proofs.CmapSubsetProofs Proofs.CmapWriteProofs Proofs.CmapKeepProofs Proofs.CmapSubsetTop
  Proofs.CmapSubsetLift Proofs.CmapFormat2Proofs Proofs.CmapSubsetFormat2.
Open Scope Z_scope.

(* ---- 1. which mappings are kept (MappingsToKeep::new) ---------------------------------------- *)

(* keep_exact: for every character, the kept glyph is that of the LAST pair of the source
   enumeration that is wanted for it: glyph retained and not 0, the code has a character in the
   source encoding, and (Mac Roman target) the character is a Mac Roman character *)
Theorem C08_keep_exact : forall enc sfc ids target pairs st oc,
  bt_lookup oc (fst (fold_left (keep_step enc sfc ids target) pairs st)) =
  last_wanted (wanted enc sfc ids target) oc pairs (bt_lookup oc (fst st)).
Proof. exact keep_fold_lookup. Qed.
Print Assumptions C08_keep_exact.

(* nothing else is kept *)
Theorem C08_keep_only_wanted : forall enc sfc ids target pairs st oc g,
  In (oc, g) (fst (fold_left (keep_step enc sfc ids target) pairs st)) ->
  In (oc, g) (fst st) \/ exists p, In p pairs /\ wanted enc sfc ids target p = Some (oc, g).
Proof. exact keep_fold_in. Qed.
Print Assumptions C08_keep_only_wanted.

(* the map is strictly sorted by character (so membership and lookup coincide) *)
Theorem C08_keep_sorted : forall enc sfc ids target pairs st,
  bt_sorted (fst st) -> bt_sorted (fst (fold_left (keep_step enc sfc ids target) pairs st)).
Proof. exact keep_fold_sorted. Qed.
Print Assumptions C08_keep_sorted.

Theorem C08_sorted_membership : forall l k v, bt_sorted l -> (In (k, v) l <-> bt_lookup k l = Some v).
Proof. exact bt_sorted_lookup_in. Qed.
Print Assumptions C08_sorted_membership.

(* plane_choice: the reported plane bounds every kept character (Unrestricted target) ... *)
Theorem C08_plane_bounds_kept : forall enc sfc ids pairs st,
  (forall oc g, In (oc, g) (fst st) -> rank (existence_of oc) <= rank (snd st)) ->
  let st' := fold_left (keep_step enc sfc ids TUnrestricted) pairs st in
  forall oc g, In (oc, g) (fst st') -> rank (existence_of oc) <= rank (snd st').
Proof. exact keep_fold_plane. Qed.
Print Assumptions C08_plane_bounds_kept.

(* ... and with a Mac Roman target only Mac Roman characters are kept and the plane is Mac Roman *)
Theorem C08_macroman_target : forall enc sfc ids pairs st,
  snd st = XMacRoman ->
  (forall oc g, In (oc, g) (fst st) -> existence_of oc = XMacRoman) ->
  let st' := fold_left (keep_step enc sfc ids TMacRoman) pairs st in
  snd st' = XMacRoman /\ forall oc g, In (oc, g) (fst st') -> existence_of oc = XMacRoman.
Proof. exact keep_fold_macroman. Qed.
Print Assumptions C08_macroman_target.

(* ---- 2. format 4 builder ---------------------------------------------------------------------- *)

(* EVERY sorted mapping list with 16-bit codes and glyph ids, both arithmetic modes: if building
   and writing succeed, the written bytes parse back to the built table and every code maps to its
   kept glyph, every other code to glyph 0.  The write-side length check is a hypothesis on
   purpose (C08_format4_build needs `len gids <= 65535`, which only the write guarantees). *)
Theorem C08_format4_correct : forall m M st bytes,
  sorted_above (-1) M ->
  f4_from_mappings m M = Ok st -> write_subtable m st = Ok bytes ->
  parse bytes = Ok st /\
  forall c, 0 <= c -> glyph_of (map_glyph st c) = lookup0 M c.
Proof. exact subset_format4_correct. Qed.
Print Assumptions C08_format4_correct.

Theorem C08_format4_build : forall m M l ends starts deltas ros gids,
  sorted_above (-1) M ->
  f4_from_mappings m M = Ok (F4 l ends starts deltas ros gids) ->
  len gids <= 65535 ->
  forall c, 0 <= c -> glyph_of (map_glyph (F4 l ends starts deltas ros gids) c) = lookup0 M c.
Proof. exact f4_build_correct. Qed.
Print Assumptions C08_format4_build.

Theorem C08_format4_shape : forall m M l ends starts deltas ros gids,
  sorted_above (-1) M ->
  f4_from_mappings m M = Ok (F4 l ends starts deltas ros gids) ->
  l = 0 /\ Forall u16 ends /\ Forall u16 starts /\ Forall i16 deltas /\ Forall u16 ros /\ Forall u16 gids /\
  len ends = len starts /\ len deltas = len starts /\ len ros = len starts.
Proof. exact f4_build_shape. Qed.
Print Assumptions C08_format4_shape.

(* what a successful format 4 write implies about sizes *)
Theorem C08_format4_write_bounds : forall m l ends starts deltas ros gids bytes,
  write_subtable m (F4 l ends starts deltas ros gids) = Ok bytes ->
  len starts <= 32767 /\
  16 + 2 * (len ends + len starts + len deltas + len ros + len gids) <= 65535.
Proof. exact write_f4_bounds. Qed.
Print Assumptions C08_format4_write_bounds.

(* the segment step: what CmapSubtableFormat4Segment::add does to the glyph of every code *)
Theorem C08_segment_add : forall m sg ch gid sg',
  seg_wf sg -> sg_end sg < ch -> ch <= 65535 -> 0 <= gid <= 65535 ->
  seg_add m sg ch gid = Ok (Some sg') ->
  seg_wf sg' /\ sg_start sg' = sg_start sg /\ sg_end sg' = ch /\
  seg_val sg' ch = gid /\
  (forall c, sg_end sg < c < ch -> seg_val sg' c = 0) /\
  (forall c, c <= sg_end sg -> seg_val sg' c = seg_val sg c).
Proof. exact seg_add_some. Qed.
Print Assumptions C08_segment_add.

(* ---- 3. format 12 and format 0 builders ------------------------------------------------------- *)

Theorem C08_format12_correct : forall m M st bytes,
  sorted_above32 (-1) M ->
  f12_from_mappings m M = Ok st -> write_subtable m st = Ok bytes ->
  parse bytes = Ok st /\
  forall c, glyph_of (map_glyph st c) = lookup0 M c.
Proof. exact subset_format12_correct. Qed.
Print Assumptions C08_format12_correct.

Theorem C08_format0_correct : forall m (M : list (character * Z)) arr bytes,
  Forall (fun p => 0 <= char_code (fst p)) M -> NoDup (map fst M) ->
  Forall (fun p => 0 <= snd p <= 255) M ->
  f0_fill (repeat 0 256) M = Ok arr -> write_subtable m (F0 0 arr) = Ok bytes ->
  parse bytes = Ok (F0 0 arr) /\
  (forall u g, In (CUnicode u, g) M ->
     exists b, char_to_macroman u = Some b /\ glyph_of (map_glyph (F0 0 arr) b) = g) /\
  (forall b, 0 <= b -> (forall u g, In (CUnicode u, g) M -> char_to_macroman u <> Some b) ->
     glyph_of (map_glyph (F0 0 arr) b) = 0).
Proof. exact subset_format0_correct. Qed.
Print Assumptions C08_format0_correct.

(* ---- 4. reading is the inverse of the owned writers (formats the subsetter emits) ------------- *)

Theorem C08_parse_write_format4 : forall m l ends starts deltas ros gids bytes,
  u16 l -> Forall u16 ends -> Forall u16 starts -> Forall i16 deltas -> Forall u16 ros -> Forall u16 gids ->
  len ends = len starts -> len deltas = len starts -> len ros = len starts ->
  write_subtable m (F4 l ends starts deltas ros gids) = Ok bytes ->
  parse bytes = Ok (F4 l ends starts deltas ros gids).
Proof. exact parse_write_f4. Qed.
Print Assumptions C08_parse_write_format4.

Theorem C08_parse_write_format12 : forall m l groups bytes,
  u32 l -> Forall (fun g => u32 (g_start g) /\ u32 (g_end g) /\ u32 (g_gid g)) groups ->
  write_subtable m (F12 l groups) = Ok bytes ->
  parse bytes = Ok (F12 l groups).
Proof. exact parse_write_f12. Qed.
Print Assumptions C08_parse_write_format12.

Theorem C08_parse_write_format0 : forall m l gids bytes,
  u16 l -> len gids = 256 -> Forall (fun g => 0 <= g <= 255) gids ->
  write_subtable m (F0 l gids) = Ok bytes ->
  parse bytes = Ok (F0 l gids).
Proof. exact parse_write_f0. Qed.
Print Assumptions C08_parse_write_format0.

(* ---- 5. the cmap table of the subset font, as Font reads it (format choice by plane) ----------- *)

(* planes BMP and symbol, and the Mac Roman plane when a new glyph id exceeds 255 (F8): one
   format 4 sub-table, selected as Unicode resp. Symbol, Font::map_glyph = the kept mapping *)
Theorem C08_cmap_format4 : forall m M plane bytes,
  plane = XBmp \/ plane = XDivine \/ (plane = XMacRoman /\ forallb (fun p => snd p <=? 255) M = false) ->
  sorted_above (-1) (as_pairs M) ->
  build_cmap m M plane = Ok bytes ->
  charmap_info bytes = Ok (match plane with XDivine => ESymbol | _ => EUnicode end, 12) /\
  forall c, 0 <= c -> font_map_glyph bytes 12 c = Ok (lookup0 (as_pairs M) c).
Proof. exact build_cmap_format4. Qed.
Print Assumptions C08_cmap_format4.

Theorem C08_cmap_format12 : forall m M bytes,
  sorted_above32 (-1) (as_pairs M) ->
  build_cmap m M XAstral = Ok bytes ->
  charmap_info bytes = Ok (EUnicode, 12) /\
  forall c, font_map_glyph bytes 12 c = Ok (lookup0 (as_pairs M) c).
Proof. exact build_cmap_format12. Qed.
Print Assumptions C08_cmap_format12.

Theorem C08_cmap_format0 : forall m M bytes,
  Forall (fun p => 0 <= char_code (fst p)) M -> NoDup (map fst M) ->
  Forall (fun p => 0 <= snd p <= 255) M ->
  build_cmap m M XMacRoman = Ok bytes ->
  charmap_info bytes = Ok (EAppleRoman, 12) /\
  (forall u g, In (CUnicode u, g) M ->
     exists b, char_to_macroman u = Some b /\ font_map_glyph bytes 12 b = Ok g) /\
  (forall b, 0 <= b -> (forall u g, In (CUnicode u, g) M -> char_to_macroman u <> Some b) ->
     font_map_glyph bytes 12 b = Ok 0).
Proof. exact build_cmap_format0. Qed.
Print Assumptions C08_cmap_format0.

(* ---- 6. lifted through C06: the subset font against the source font ----------------------------- *)

(* PARTIAL (Unicode source sub-tables, unrestricted target, output selected as a Unicode sub-table;
   see docs/C08.md for what is outside): every character maps to the new id of the glyph the source
   font maps it to when that glyph is retained and not 0, and to glyph 0 otherwise.
   [expected_glyph st ids u] = match lookup st u with Some g => if g <> 0 and g in ids then
   new_id ids g else 0 | None => 0. *)
Theorem C08_subset_lookup_unicode_partial : forall m src os2 ids out recs r st_s first,
  bytes_ok src = true ->
  parse_cmap src = Ok recs -> find_good_cmap_subtable recs = Some (EUnicode, r) ->
  parse (slice_from src (er_offset r)) = Ok st_s ->
  supported st_s -> strictly_well_formed st_s ->
  len ids <= 65535 ->
  subset_cmap m src os2 ids TUnrestricted = Ok out ->
  charmap_info out = Ok (EUnicode, 12) ->
  forall u, is_char u = true -> font_lookup out first u = Ok (expected_glyph st_s ids u).
Proof. exact subset_lookup_unicode. Qed.
Print Assumptions C08_subset_lookup_unicode_partial.

(* ---- non-vacuity ------------------------------------------------------------------------------ *)

(* gaps of exactly 3 (same segment, three 0 entries) and 4 (new segment); a compact run of five
   consecutive ids followed by a gap of 1 (new segment); a code at 0xFFFF *)
Definition exM : list (Z * Z) :=
  [(65, 10); (69, 7); (74, 8); (80, 1); (81, 2); (82, 3); (83, 4); (84, 5); (86, 9); (65535, 11)].

Example exM_sorted : sorted_above (-1) exM.
Proof. cbn. lia. Qed.

Example exM_built :
  f4_from_mappings Debug exM =
  Ok (F4 0 [69; 74; 84; 86; 65535; 65535] [65; 74; 80; 86; 65535; 65535] [0; -66; -79; -77; 12; 1]
        [12; 0; 0; 0; 0; 0] [10; 0; 0; 0; 7]).
Proof. vm_compute. reflexivity. Qed.

Example exM_lookups :
  match f4_from_mappings Debug exM with
  | Ok st => map (fun c => glyph_of (map_glyph st c)) [64; 65; 66; 68; 69; 70; 74; 80; 84; 85; 86; 65534; 65535; 65536]
  | _ => []
  end = [0; 10; 0; 0; 7; 0; 8; 1; 5; 0; 9; 0; 11; 0].
Proof. vm_compute. reflexivity. Qed.

(* F8: the Mac Roman plane with a new glyph id above 255 is written as a Unicode format 4 table
   ('A' -> 299), not truncated into a byte *)
Example f8_large_gid :
  match build_cmap Debug [(CUnicode 65, 299)] XMacRoman with
  | Ok bytes => (charmap_info bytes, font_map_glyph bytes 12 65, font_map_glyph bytes 12 66)
  | _ => (Err OtherErr, Err OtherErr, Err OtherErr)
  end = (Ok (EUnicode, 12), Ok 299, Ok 0).
Proof. vm_compute. reflexivity. Qed.

Example f8_small_gid :
  match build_cmap Debug [(CUnicode 65, 43); (CUnicode 233, 7)] XMacRoman with
  | Ok bytes => (charmap_info bytes, font_map_glyph bytes 12 65, font_map_glyph bytes 12 142, font_map_glyph bytes 12 233)
  | _ => (Err OtherErr, Err OtherErr, Err OtherErr, Err OtherErr)
  end = (Ok (EAppleRoman, 12), Ok 43, Ok 7, Ok 0).
Proof. vm_compute. reflexivity. Qed.

(* format 12: consecutive codes with consecutive ids merge, anything else starts a new group *)
Example ex12_groups :
  f12_from_mappings Debug [(97, 1); (98, 2); (99, 9); (129408, 3); (129409, 4)] =
  Ok (F12 0 [ {| g_start := 97; g_end := 98; g_gid := 1 |}; {| g_start := 99; g_end := 99; g_gid := 9 |};
              {| g_start := 129408; g_end := 129409; g_gid := 3 |} ]).
Proof. vm_compute. reflexivity. Qed.

(* the hypothesis "write succeeds" is not vacuous and is needed: a table whose glyph id array does
   not fit a 16 bit length is refused by the writer, never written truncated *)
Example write_refuses_long_table :
  write_subtable Release (F4 0 [65535] [65535] [1] [0] (repeat 1 (Z.to_nat 32760))) = Err BadValue.
Proof. vm_compute. reflexivity. Qed.

(* the lifted statement on a concrete source: (3,1) format 4 with 'A','B' -> glyphs 5,6; glyphs
   0, 9, 6 retained: 'B' -> new id 2, 'A' -> 0 *)
Definition ex_src : list Z :=
  [0;0; 0;1; 0;3; 0;1; 0;0;0;12;
   0;4; 0;32; 0;0; 0;4; 0;0; 0;0; 0;0; 0;66; 255;255; 0;0; 0;65; 255;255; 255;196; 0;1; 0;0; 0;0].
Example ex_subset_end_to_end :
  match subset_cmap Debug ex_src (Ok None) [0; 9; 6] TUnrestricted with
  | Ok out => (charmap_info out, font_lookup out None 65, font_lookup out None 66, font_lookup out None 67)
  | _ => (Err OtherErr, Err OtherErr, Err OtherErr, Err OtherErr)
  end = (Ok (EAppleRoman, 12), Ok 0, Ok 2, Ok 0).
Proof. vm_compute. reflexivity. Qed.

(* the same with the codes U+0100, U+0101 (not Mac Roman): the output is a Unicode format 4 table and
   the hypothesis of C08_subset_lookup_unicode_partial holds *)
Definition ex_src2 : list Z :=
  [0;0; 0;1; 0;3; 0;1; 0;0;0;12;
   0;4; 0;32; 0;0; 0;4; 0;0; 0;0; 0;0; 1;1; 255;255; 0;0; 1;0; 255;255; 255;5; 0;1; 0;0; 0;0].
Example ex_subset_end_to_end_unicode :
  match subset_cmap Debug ex_src2 (Ok None) [0; 9; 6] TUnrestricted with
  | Ok out => (charmap_info out, font_lookup out None 256, font_lookup out None 257, font_lookup out None 258)
  | _ => (Err OtherErr, Err OtherErr, Err OtherErr, Err OtherErr)
  end = (Ok (EUnicode, 12), Ok 0, Ok 2, Ok 0).
Proof. vm_compute. reflexivity. Qed.

(* ---- format 2 sources (legacy Big5 / Shift-JIS fonts; also accepted under every other encoding) ------- *)

(* What MappingsToKeep::new is fed by mappings_fn on a format 2 sub-table is what the single lookup
   (Font::lookup_glyph_index -> map_glyph) gives: for EVERY format 2 sub-table whose 256 subHeaderKeys
   are multiples of 8 with key 0 for byte 0 and whose firstCode fields are not negative, whatever the
   sub-headers, offsets, idDelta and glyph arrays hold, and also when the enumeration fails half way. *)
Theorem C08_format2_enumeration_sound : forall l keys headers scope c g,
  forall (Hkeys : f2_keys_wf keys) (Hfirst : f2_first_codes_nonneg headers)
         (Hin : In (c, g) (fst (mappings (F2 l keys headers scope)))),
  map_glyph (F2 l keys headers scope) c = Ok (Some g).
Proof. exact f2_mappings_sound. Qed.
Print Assumptions C08_format2_enumeration_sound.

(* a glyphIndexArray entry 0 is the missing glyph, never idDelta ... *)
Theorem C08_format2_hole_is_glyph0 : forall sh key scope idx arr,
  forall (Harr : glyph_index_sub_array sh key scope = Ok arr) (Hzero : get arr idx = Some 0),
  f2_glyph sh key scope idx = Ok 0.
Proof. exact f2_glyph_hole. Qed.
Print Assumptions C08_format2_hole_is_glyph0.

(* ... and a pair whose glyph is 0 is never kept *)
Theorem C08_keep_ignores_glyph0 : forall enc sfc ids target st ch,
  keep_step enc sfc ids target st (ch, 0) = st.
Proof. exact keep_step_glyph0. Qed.
Print Assumptions C08_keep_ignores_glyph0.

(* non-vacuity: C06's witness table (single bytes 0x20..0x7F; lead byte 0x81, firstCode 0x41, idDelta 5,
   glyphIndexArray [300; 0]) enumerates 0x8141 -> 305 and the hole 0x8142 -> 0 (not 5); with glyph 5 and 305
   retained, only 0x8141 is kept *)
Example ex_format2_enumeration :
  (existsb (fun p => (fst p =? 33089) && (snd p =? 305)) (fst (mappings ex2)),
   existsb (fun p => (fst p =? 33090) && (snd p =? 0)) (fst (mappings ex2)),
   existsb (fun p => (fst p =? 33090) && negb (snd p =? 0)) (fst (mappings ex2)),
   map_glyph ex2 33090) = (true, true, false, Ok (Some 0)).
Proof. vm_compute. reflexivity. Qed.
Example ex_format2_keys_wf :
  (len ex2_keys, forallb (fun k => (0 <=? k) && (k mod 8 =? 0)) ex2_keys, get ex2_keys 0) = (256, true, Some 0).
Proof. vm_compute. reflexivity. Qed.
Example ex_format2_keep :
  fst (fold_left (keep_step EUnicode None [0; 5; 305] TUnrestricted)
                 (filter (fun p => 33000 <=? fst p) (fst (mappings ex2))) ([], XMacRoman))
  = [(CUnicode 33089, 305)].
Proof. vm_compute. reflexivity. Qed.
