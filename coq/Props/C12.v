(* Props/C12.v — instancing a variable font evaluates the OpenType variation model.  Statements only.
   Numbers: F2Dot14 coordinates are raw i16 integers (16384 = 1.0); scalars and deltas are exact
   rationals (the implementation's f32 arithmetic is tied to them by the correspondence, within the
   property's tolerance); point coordinates, deltas read from the font and metrics are integers. *)
From AV Require Import Base.Prelude Gen.VariationConsts Model.Variation
  Proofs.VariationScalar Proofs.VariationPacked Proofs.VariationIup Proofs.VariationStore
  Proofs.VariationSum Proofs.VariationDefault Proofs.VariationTags.
From Coq Require Import QArith Ascii.
Local Open Scope Z_scope.

(* ======================================================================================== *)
(* (a) region scalars *)

(* for EVERY (start, peak, end, coordinate) the per-axis scalar is the one the OpenType algorithm
   prescribes, including the "ignore this axis" cases of malformed regions and zero peaks *)
Theorem C12_scalar_spec : forall x s p e, axis_scalar_spec s p e x (calculate_scalar x s p e).
Proof. exact calculate_scalar_spec. Qed.
Print Assumptions C12_scalar_spec.

(* ... and the specification determines it *)
Theorem C12_scalar_spec_functional : forall s p e x q1 q2,
  axis_scalar_spec s p e x q1 -> axis_scalar_spec s p e x q2 -> q1 = q2.
Proof. exact axis_scalar_spec_functional. Qed.
Print Assumptions C12_scalar_spec_functional.

Theorem C12_scalar_range : forall x s p e,
  (0 <= calculate_scalar x s p e)%Q /\ (calculate_scalar x s p e <= 1)%Q.
Proof. exact calculate_scalar_range. Qed.
Print Assumptions C12_scalar_range.

(* linear between start and peak, and between peak and end *)
Theorem C12_scalar_linear : forall x s p e, region_valid s p e -> p <> 0 ->
  (s <= x < p -> (calculate_scalar x s p e * qz (p - s) == qz (x - s))%Q) /\
  (p < x <= e -> (calculate_scalar x s p e * qz (e - p) == qz (e - x))%Q) /\
  calculate_scalar p s p e = 1%Q /\
  (x < s \/ e < x -> calculate_scalar x s p e = 0%Q).
Proof.
  intros x s p e V P. split; [exact (calculate_scalar_rising x s p e V P)|].
  split; [exact (calculate_scalar_falling x s p e V P)|].
  split; [exact (calculate_scalar_at_peak s p e)|exact (calculate_scalar_outside x s p e V P)].
Qed.
Print Assumptions C12_scalar_linear.

(* at the default location a well-formed region with a non-zero peak has scalar 0 *)
Theorem C12_scalar_default_zero : forall s p e, region_valid s p e -> p <> 0 ->
  (calculate_scalar 0 s p e == 0)%Q.
Proof. exact calculate_scalar_default. Qed.
Print Assumptions C12_scalar_default_zero.

(* tuple variation headers without an intermediate region: the region runs from zero to the peak *)
Theorem C12_implied_region : forall p,
  region_valid (implied_start p) p (implied_end p) /\
  (p < 0 -> implied_start p = p /\ implied_end p = 0) /\
  (p = 0 -> implied_start p = 0 /\ implied_end p = 0) /\
  (0 < p -> implied_start p = 0 /\ implied_end p = p).
Proof. intros p. split; [exact (implied_region_valid p)|exact (implied_region_spec p)]. Qed.
Print Assumptions C12_implied_region.

(* the scalar of a tuple / region is a product of per-axis scalars, hence in [0, 1] *)
Theorem C12_tuple_scalar_range : forall starts ends inst peaks axes tuple,
  ((0 <= tuple_scalar starts ends inst peaks)%Q /\ (tuple_scalar starts ends inst peaks <= 1)%Q) /\
  ((0 <= region_product axes tuple)%Q /\ (region_product axes tuple <= 1)%Q).
Proof. intros. split; [apply tuple_scalar_range|apply region_product_range]. Qed.
Print Assumptions C12_tuple_scalar_range.

(* ======================================================================================== *)
(* (b) packed point numbers and packed deltas *)

(* read-after-write for every well-formed sequence of byte / word runs and both count encodings *)
Theorem C12_packed_points_roundtrip : forall runs cnt rest np,
  Forall prun_ok runs ->
  let ds := all_diffs runs in
  0 < len ds < 32768 -> zsum ds < 65536 ->
  (cnt = enc_count2 (len ds) \/ (len ds < 128 /\ cnt = enc_count1 (len ds))) ->
  read_packed_point_numbers (cnt ++ concat (map enc_prun runs) ++ rest) np
  = Ok (PSpecific (psums 0 ds), rest).
Proof. exact packed_points_roundtrip. Qed.
Print Assumptions C12_packed_points_roundtrip.

(* count 0 = all points of the glyph, phantom points included *)
Theorem C12_packed_points_all : forall rest np,
  read_packed_point_numbers (0 :: rest) np = Ok (PAll np, rest)
  /\ read_packed_point_numbers (enc_count2 0 ++ rest) np = Ok (PAll np, rest).
Proof. exact packed_points_all. Qed.
Print Assumptions C12_packed_points_all.

(* every non-decreasing list of u16 point numbers has an encoding that reads back as itself *)
Theorem C12_packed_points_every_list : forall pts rest np,
  0 < len pts < 32768 -> nondecreasing 0 pts -> Forall (fun p => p < 65536) pts ->
  read_packed_point_numbers (encode_points pts ++ rest) np = Ok (PSpecific pts, rest).
Proof. exact encode_points_roundtrip. Qed.
Print Assumptions C12_packed_points_every_list.

(* a running sum that leaves the u16 range is an error (never a wrapped point number) *)
Theorem C12_packed_points_overflow_rejected : forall r rest np,
  prun_ok r -> 65536 <= zsum (prun_diffs r) -> len (prun_diffs r) < 128 ->
  read_packed_point_numbers (enc_count1 (len (prun_diffs r)) ++ enc_prun r ++ rest) np = Err BadValue.
Proof. exact packed_points_overflow_rejected. Qed.
Print Assumptions C12_packed_points_overflow_rejected.

(* read-after-write for every well-formed sequence of zero / byte / word runs *)
Theorem C12_packed_deltas_roundtrip : forall runs rest,
  Forall drun_ok runs ->
  read_packed_deltas (concat (map enc_drun runs) ++ rest) (len (all_vals runs)) = Ok (all_vals runs, rest).
Proof. exact packed_deltas_roundtrip. Qed.
Print Assumptions C12_packed_deltas_roundtrip.

(* the reader finishes the run in which the requested count is reached *)
Theorem C12_packed_deltas_overshoot : forall runs rest num,
  Forall drun_ok runs -> runs_cover num 0 runs ->
  read_packed_deltas (concat (map enc_drun runs) ++ rest) num = Ok (all_vals runs, rest).
Proof. exact packed_deltas_overshoot. Qed.
Print Assumptions C12_packed_deltas_overshoot.

Theorem C12_packed_deltas_every_list : forall l rest,
  Forall (fun v => -32768 <= v < 32768) l ->
  read_packed_deltas (encode_deltas l ++ rest) (len l) = Ok (l, rest).
Proof. exact encode_deltas_roundtrip. Qed.
Print Assumptions C12_packed_deltas_every_list.

(* ======================================================================================== *)
(* (c) explicit and inferred deltas *)

(* the dense map of explicit deltas: an error iff a point number is out of range, otherwise the
   last delta given for each point *)
Theorem C12_explicit_deltas : forall np pairs,
  0 <= np -> Forall (fun p => 0 <= fst p) pairs ->
  (Exists (fun p => np <= fst p) pairs /\ build_emap np pairs = Err BadIndex)
  \/ (Forall (fun p => fst p < np) pairs /\
      exists m, build_emap np pairs = Ok m /\ len m = np /\
                forall i, 0 <= i < np -> ref_at m i = last_assoc i pairs None).
Proof. exact build_emap_spec. Qed.
Print Assumptions C12_explicit_deltas.

(* inference in one direction: equal coordinates / outside / between *)
Theorem C12_iup_axis_spec : forall pc tc nc pd nd, infer_axis_spec pc tc nc pd nd (do_infer pc tc nc pd nd).
Proof. exact do_infer_spec. Qed.
Print Assumptions C12_iup_axis_spec.

(* the neighbours the implementation finds are the nearest referenced points before and after the
   target in cyclic order within the contour, and those are unique *)
Theorem C12_iup_neighbours : forall m s e t,
  s <= t <= e -> ref_at m t = None ->
  (forall n d, next_ref m s e t = Some (n, d) -> is_next m s e t n /\ ref_at m n = Some d) /\
  (forall p d, prev_ref m s e t = Some (p, d) -> is_prev m s e t p /\ ref_at m p = Some d) /\
  (forall n1 n2, is_next m s e t n1 -> is_next m s e t n2 -> n1 = n2) /\
  (forall p1 p2, is_prev m s e t p1 -> is_prev m s e t p2 -> p1 = p2).
Proof.
  intros m s e t Ht Hu. split; [intros n d; exact (next_ref_spec m s e t n d Ht Hu)|].
  split; [intros p d; exact (prev_ref_spec m s e t p d Ht Hu)|].
  split; [exact (is_next_unique m s e t)|exact (is_prev_unique m s e t)].
Qed.
Print Assumptions C12_iup_neighbours.

(* model = specification, per contour *)
Theorem C12_iup_contour_matches_spec : forall m coords s e deltas,
  0 <= s <= e -> e < len coords -> (Z.to_nat e < length deltas)%nat ->
  (forall j d, s <= j <= e -> ref_at m j = Some d -> dnth deltas j = qd d) ->
  exists deltas',
    infer_one_contour m coords s e deltas = Ok deltas' /\
    length deltas' = length deltas /\
    (forall j, 0 <= j -> ~ (s <= j <= e) -> dnth deltas' j = dnth deltas j) /\
    ((forall j, s <= j <= e -> ref_at m j = None) -> deltas' = deltas) /\
    ((exists r, s <= r <= e /\ referenced m r) ->
     forall j, s <= j <= e -> point_spec m coords s e j (dnth deltas' j)).
Proof. exact infer_one_contour_spec. Qed.
Print Assumptions C12_iup_contour_matches_spec.

(* ... and for all the contours of a glyph with well-formed contour end points *)
Theorem C12_iup_glyph_matches_spec : forall endpts m coords begin deltas,
  0 <= begin -> contours_wf (len coords) begin endpts ->
  (len coords <= Z.of_nat (length deltas)) ->
  (forall j d, begin <= j -> ref_at m j = Some d -> dnth deltas j = qd d) ->
  exists deltas',
    infer_contours m coords begin endpts deltas = Ok deltas' /\
    length deltas' = length deltas /\
    (forall j, 0 <= j -> (forall s e, In (s, e) (contour_ranges begin endpts) -> ~ (s <= j <= e)) ->
               dnth deltas' j = dnth deltas j) /\
    (forall s e, In (s, e) (contour_ranges begin endpts) ->
       ((forall j, s <= j <= e -> ref_at m j = None) -> forall j, s <= j <= e -> dnth deltas' j = dnth deltas j) /\
       ((exists r, s <= r <= e /\ referenced m r) -> forall j, s <= j <= e -> point_spec m coords s e j (dnth deltas' j))).
Proof. exact infer_contours_spec. Qed.
Print Assumptions C12_iup_glyph_matches_spec.

(* contour end points that are not increasing or lie beyond the glyph's points: an error *)
Theorem C12_iup_rejects_malformed_contours : forall m coords begin e rest deltas,
  (e < begin \/ len coords <= e) -> infer_contours m coords begin (e :: rest) deltas = Err BadValue.
Proof. exact infer_contours_rejects. Qed.
Print Assumptions C12_iup_rejects_malformed_contours.

(* the deltas of a glyph are the sum over the applicable tuples of scalar * tuple delta *)
Theorem C12_glyph_deltas_is_sum : forall g axis_count shared inst data deltas,
  glyph_deltas g axis_count shared inst data = Ok (Some deltas) ->
  exists st cs,
    read_store axis_count (number_of_points g + 4) data = Ok st /\
    contributions g (number_of_points g + 4) shared inst (tvs_shared_points st) (tvs_headers st) = Ok cs /\
    length deltas = Z.to_nat (number_of_points g + 4) /\
    forall k, (k < length deltas)%nat ->
      (qfst deltas k == sum_fst cs k)%Q /\ (qsnd deltas k == sum_snd cs k)%Q.
Proof. exact glyph_deltas_is_sum. Qed.
Print Assumptions C12_glyph_deltas_is_sum.

(* ======================================================================================== *)
(* rounding of the final values *)

(* a value plus its exact delta, rounded as the implementation rounds, is within half a unit of the
   exact value (whenever that is representable), and exactly the value when the delta is zero *)
Theorem C12_round_within_half : forall v d,
  ((inject_Z (-32768) <= qz v + d)%Q -> (qz v + d <= inject_Z 32767)%Q ->
   (inject_Z (add_round_i16 v d) - (qz v + d) <= 1 # 2)%Q /\ ((qz v + d) - inject_Z (add_round_i16 v d) <= 1 # 2)%Q) /\
  ((0 <= qz v + d)%Q -> (qz v + d <= inject_Z 65535)%Q ->
   (inject_Z (add_round_u16 v d) - (qz v + d) <= 1 # 2)%Q /\ ((qz v + d) - inject_Z (add_round_u16 v d) <= 1 # 2)%Q).
Proof. intros v d. split; [exact (add_round_i16_within_half v d)|exact (add_round_u16_within_half v d)]. Qed.
Print Assumptions C12_round_within_half.

Theorem C12_round_zero_delta : forall v d, (d == 0)%Q ->
  (-32768 <= v <= 32767 -> add_round_i16 v d = v) /\ (0 <= v <= 65535 -> add_round_u16 v d = v).
Proof.
  intros v d Hd. split; intros Hv; [exact (add_round_i16_zero v d Hv Hd)|exact (add_round_u16_zero v d Hv Hd)].
Qed.
Print Assumptions C12_round_zero_delta.

(* ======================================================================================== *)
(* (d) item variation store, delta-set index map *)

Theorem C12_item_store_adjustment_is_sum : forall st outer inner inst d row,
  nth_error (ivs_data st) (Z.to_nat outer) = Some d ->
  delta_set d inner = Some row ->
  indices_ok (length (ivs_regions st)) row (ivd_regions d) ->
  exists q, adjustment st outer inner inst = Ok q
            /\ (q == net_adjustment (ivs_regions st) inst row (ivd_regions d))%Q.
Proof. exact adjustment_spec. Qed.
Print Assumptions C12_item_store_adjustment_is_sum.

(* a region index without a region is an error, not a silently dropped delta *)
Theorem C12_item_store_bad_region_index : forall deltas idxs regions inst acc,
  ~ indices_ok (length regions) deltas idxs -> adjust_sum regions inst deltas idxs acc = Err BadIndex.
Proof. exact adjust_sum_bad_index. Qed.
Print Assumptions C12_item_store_bad_region_index.

(* decoding a delta-set row laid out as the specification says (word deltas then short deltas, in
   either the 16/8-bit or the LONG_WORDS 32/16-bit form) *)
Theorem C12_delta_set_row : forall (d : ivd) (k : Z) (before after wordv shortv : list Z),
  0 <= k ->
  let long := long_deltas d in
  len wordv = word_delta_count d ->
  len wordv + len shortv = ivd_ric d ->
  len before = k * row_length d ->
  ivd_data d = before ++ enc_row long wordv shortv ++ after ->
  Forall (fun v => if long then - 2 ^ 31 <= v < 2 ^ 31 else - 2 ^ 15 <= v < 2 ^ 15) wordv ->
  Forall (fun v => if long then - 2 ^ 15 <= v < 2 ^ 15 else - 2 ^ 7 <= v < 2 ^ 7) shortv ->
  delta_set d k = Some (wordv ++ shortv).
Proof. exact delta_set_row. Qed.
Print Assumptions C12_delta_set_row.

(* DeltaSetIndexMap::entry for every entry format: entry i, or the last entry when i >= mapCount *)
Theorem C12_delta_set_index_map_spec : forall fmt (entries : list (Z * Z)) (i : Z),
  0 <= fmt < 256 -> entries <> [] -> Forall (entry_ok fmt) entries -> 0 <= i ->
  dsim_entry {| dsim_format := fmt; dsim_count := len entries;
                dsim_data := concat (map (enc_entry fmt) entries) |} i
  = Ok (nth (Z.to_nat (Z.min i (len entries - 1))) entries (0, 0)).
Proof. exact dsim_entry_spec. Qed.
Print Assumptions C12_delta_set_index_map_spec.

(* ======================================================================================== *)
(* the default location *)

(* a tuple variation whose peak has a non-zero coordinate does not apply at the default location *)
Theorem C12_header_not_applicable_at_default : forall shared n h,
  proper_header shared n h -> header_scalar shared (repeat 0 n) h = None.
Proof. exact proper_header_not_applicable. Qed.
Print Assumptions C12_header_not_applicable_at_default.

(* THE default-instance theorem (per glyph, glyf/gvar path): at the all-zero tuple the varied glyph
   is the source glyph - same points, same component offsets - and advance width and left side
   bearing derived from the phantom points are those of the source hmtx *)
Theorem C12_default_instance_is_default_master : forall m g xmin aw lsb axis_count shared (n : nat) data,
  glyph_in_range g ->
  (len data = 0 \/
   exists st, read_store axis_count (number_of_points g + 4) data = Ok st /\
              Forall (proper_header shared n) (tvs_headers st)) ->
  let x0 := match g with GEmpty => 0 | _ => xmin end in
  i16 (x0 - lsb) -> 0 <= aw <= 32767 -> i16 (x0 - lsb + aw) -> i16 lsb ->
  exists v, apply_variations m g xmin aw lsb axis_count shared (repeat 0 n) data = Ok v /\
            v_glyph v = g /\ metric_from_phantom m x0 v = Ok (aw, lsb).
Proof. exact default_instance_glyph. Qed.
Print Assumptions C12_default_instance_is_default_master.

(* item variation stores (HVAR, MVAR) contribute nothing at the default location, so advance, side
   bearing and the MVAR-controlled values are unchanged *)
Theorem C12_default_item_store : forall deltas idxs regions (n : nat),
  Forall (fun axes => exists k, (k < length axes)%nat /\ (k < n)%nat /\
                                let '(s, p, e) := nth k axes (0, 0, 0) in region_valid s p e /\ p <> 0) regions ->
  (net_adjustment regions (repeat 0%Z n) deltas idxs == 0)%Q.
Proof. exact net_adjustment_default. Qed.
Print Assumptions C12_default_item_store.

Theorem C12_default_metrics_unchanged : forall aw lsb (da dl : Q) k value,
  (da == 0)%Q -> (dl == 0)%Q ->
  (0 <= aw <= 65535 -> i16 lsb -> add_round_u16 aw da = aw /\ add_round_i16 lsb dl = lsb) /\
  ((match k with KI16 => i16 value | KU16 => 0 <= value <= 65535 end) -> mvar_apply k value da = value).
Proof.
  intros aw lsb da dl k value Ea El. split.
  - intros Ha Hl. exact (hvar_default_metric aw lsb da dl Ha Hl Ea El).
  - intros Hv. exact (mvar_default k value da Hv Ea).
Qed.
Print Assumptions C12_default_metrics_unchanged.

(* ======================================================================================== *)
(* (e) the instance is a static font *)

Theorem C12_is_var_table_spec : forall b0 b1 b2 b3,
  0 <= b0 < 256 -> 0 <= b1 < 256 -> 0 <= b2 < 256 -> 0 <= b3 < 256 ->
  (is_var_table (tag_of_bytes b0 b1 b2 b3) = true <->
   (b1 = chr "v"%char /\ b2 = chr "a"%char /\ b3 = chr "r"%char) \/ (b1 = chr "V"%char /\ b2 = chr "A"%char /\ b3 = chr "R"%char)).
Proof. exact is_var_table_bytes. Qed.
Print Assumptions C12_is_var_table_spec.

(* no table of the instance ends in var / VAR, whatever tables the source font carries *)
Theorem C12_instance_is_static : forall built source_tags glyf_font t,
  incl built BUILT_TAGS -> In t (output_tags built source_tags glyf_font) -> is_var_table t = false.
Proof. exact output_tags_static. Qed.
Print Assumptions C12_instance_is_static.

(* and every other table of the source is kept *)
Theorem C12_instance_keeps_tables : forall built source_tags glyf_font t,
  In t source_tags -> is_var_table t = false -> is_postponed t = false ->
  In t (output_tags built source_tags glyf_font).
Proof. exact output_tags_keep. Qed.
Print Assumptions C12_instance_keeps_tables.

(* process_mvar's value-tag table (regenerated from the source) is the specification's table *)
Theorem C12_mvar_table_is_spec : MVAR_TABLE = MVAR_SPEC.
Proof. exact mvar_table_is_spec. Qed.
Print Assumptions C12_mvar_table_is_spec.

(* ======================================================================================== *)
(* non-vacuity *)

(* scalars: half way up a region 0 .. 1; an intermediate region; outside; the malformed regions the
   unfixed code interpolated over (start > peak; spanning zero) *)
Example ex_scalars :
  (Qred (calculate_scalar 4096 0 8192 8192), Qred (calculate_scalar 12288 8192 12288 16384),
   Qred (calculate_scalar 14336 8192 12288 16384), calculate_scalar (-1) 0 8192 8192,
   calculate_scalar 100 8000 200 16384, calculate_scalar 0 (-16384) 8192 16384)
  = (1 # 2, 1, 1 # 2, 0, 1, 1)%Q.
Proof. vm_compute. reflexivity. Qed.

(* the vectors of the crate's own unit tests *)
Example ex_packed_points :
  read_packed_point_numbers [13; 12; 1; 4; 4; 2; 1; 2; 3; 3; 2; 1; 1; 3; 4] 13
  = Ok (PSpecific [1; 5; 9; 11; 12; 14; 17; 20; 22; 23; 24; 27; 31], []).
Proof. vm_compute. reflexivity. Qed.
Example ex_packed_deltas :
  read_packed_deltas [3; 10; 151; 0; 198; 135; 65; 16; 34; 251; 52] 14
  = Ok ([10; -105; 0; -58; 0; 0; 0; 0; 0; 0; 0; 0; 4130; -1228], []).
Proof. vm_compute. reflexivity. Qed.
(* the instance of the round-trip theorem behind the first vector *)
Example ex_packed_points_runs :
  enc_count1 13 ++ concat (map enc_prun [RBytes [1; 4; 4; 2; 1; 2; 3; 3; 2; 1; 1; 3; 4]])
  = [13; 12; 1; 4; 4; 2; 1; 2; 3; 3; 2; 1; 1; 3; 4]
  /\ Forall prun_ok [RBytes [1; 4; 4; 2; 1; 2; 3; 3; 2; 1; 1; 3; 4]].
Proof. split; [reflexivity|]. repeat constructor; cbv; intros; discriminate. Qed.
(* the fixed overflow: 0xFFFF then +1 *)
Example ex_points_overflow : read_packed_point_numbers [1; 129; 255; 255; 0; 1] 10 = Err BadValue.
Proof. vm_compute. reflexivity. Qed.

(* inferred deltas on a 4-point contour with points 0 and 2 referenced: point 1 lies between them in
   x (interpolated: 5 + (1/2)(9-5) = 7) and beyond both in y; point 3 is outside in x on the side of
   point 0 *)
Example ex_iup_values :
  match region_deltas_simple [(0, 0); (5, 20); (10, 10); (-3, 5)] [3] 8 [(0, (5, 1)); (2, (9, 3))] with
  | Ok l => map (fun d => (Qred (fst d), Qred (snd d))) l
  | _ => []
  end = [(5 # 1, 1 # 1); (7 # 1, 3 # 1); (9 # 1, 3 # 1); (5 # 1, 2 # 1); (0 # 1, 0 # 1); (0 # 1, 0 # 1); (0 # 1, 0 # 1); (0 # 1, 0 # 1)]%Q.
Proof. vm_compute. reflexivity. Qed.
(* F18: non-increasing contour end points are an error *)
Example ex_bad_contours : region_deltas_simple [(0, 0); (1, 1); (2, 2); (3, 3)] [3; 1] 8 [(0, (5, 5))] = Err BadValue.
Proof. vm_compute. reflexivity. Qed.

(* delta-set index map: format 0x11 = 2-byte entries, 2 inner bits; entry 0x0123 = outer 0x48, inner 3 *)
Example ex_dsim :
  match read_dsim [0; 17; 0; 2; 1; 35; 0; 5] with
  | Ok m => (dsim_entry m 0, dsim_entry m 1, dsim_entry m 7)
  | _ => (Panic, Panic, Panic)
  end = (Ok (72, 3), Ok (1, 1), Ok (1, 1)).
Proof. vm_compute. reflexivity. Qed.

(* tags: fvar / HVAR are variation tables; STAT, glyf and `_wcs` (whose bits contain those of `var`)
   are not *)
Example ex_tags :
  map is_var_table [1719034226; 1213612370; 1398030676; 1735162214; 1601659763] = [true; true; false; false; false].
Proof. vm_compute. reflexivity. Qed.

(* the default-instance theorem is not vacuous: a glyph with one tuple variation (embedded peak 1.0,
   private "all points", deltas x = 1,2 / y = 3,4): unchanged at the zero tuple, moved at 1.0 *)
Definition ex_gvar_data : list Z :=
  [0; 1; 0; 10; 0; 14; 160; 0; 64; 0; 0; 11; 1; 2; 0; 0; 0; 0; 3; 4; 0; 0; 0; 0].
Example ex_default :
  (match apply_variations Debug (GSimple [(10, 20); (30, 40)] [1]) 10 500 10 1 [] [0] ex_gvar_data with
   | Ok v => (v_glyph v, v_pp1 v, v_pp2 v) | _ => (GEmpty, 0, 0) end,
   match apply_variations Debug (GSimple [(10, 20); (30, 40)] [1]) 10 500 10 1 [] [16384] ex_gvar_data with
   | Ok v => (v_glyph v, v_pp1 v, v_pp2 v) | _ => (GEmpty, 0, 0) end)
  = ((GSimple [(10, 20); (30, 40)] [1], 0, 500), (GSimple [(11, 23); (32, 44)] [1], 0, 500)).
Proof. vm_compute. reflexivity. Qed.
Example ex_default_proper :
  match read_store 1 6 ex_gvar_data with
  | Ok st => map (fun h => header_scalar [] [0] h) (tvs_headers st)
  | _ => []
  end = [None].
Proof. vm_compute. reflexivity. Qed.

(* KNOWN FINDING (known/C12.json, class mvar-vhea): instance() calls process_mvar with `&mut None`
   for vhea, so the vertical metrics an MVAR table controls (vasc, vdsc, vlgp, vcrs, vcrn, vcof) keep
   their default values in the instance.  Witness: one region 0 .. 1.0, delta +100 for `vasc`, at
   coordinate 1.0 the value 800 stays 800; had the vhea table been passed it would become 900. *)
Example ex_mvar_vhea_known_finding :
  let st := {| ivs_regions := [[(0, 16384, 16384)]];
               ivs_data := [{| ivd_wdc := 1; ivd_ric := 1; ivd_regions := [0]; ivd_data := [0; 100] |}] |} in
  let vals := [900; -300; 0; 1000; 300; 800] in
  (nth 5 (process_mvar st [16384] false [(1986098019, 0, 0)] vals) 0,
   nth 5 (process_mvar st [16384] true [(1986098019, 0, 0)] vals) 0) = (800, 900).
Proof. vm_compute. reflexivity. Qed.
(* the horizontal counterpart is applied *)
Example ex_mvar_hasc_applied :
  let st := {| ivs_regions := [[(0, 16384, 16384)]];
               ivs_data := [{| ivd_wdc := 1; ivd_ric := 1; ivd_regions := [0]; ivd_data := [0; 100] |}] |} in
  nth 0 (process_mvar st [8192] false [(1751216995, 0, 0)] [900; -300]) 0 = 950.
Proof. vm_compute. reflexivity. Qed.

(* ======================================================================================== *)
(* (f) CFF2: instancing charstrings.  A value is the numerator of an exact rational over
   UNIT = 2^48 (Model/Type2.v); `sv_from` is `impl From<f32> for StackValue` (the conversion
   cff2::blend uses to push a blended operand back on the charstring stack, regenerated from the
   source as an expression), `enc_sv` is `impl WriteBinary for StackValue`, `inst_emit` what
   CharStringInstancer::visit writes for one operator.  The names of Model/Type2.v shadow those of
   Model/Variation.v from here on. *)
From AV Require Import Gen.Type2Consts Gen.Cff2InstConsts Model.Type2 Model.Type2Spec
  Model.Cff2Instance Proofs.Cff2InstanceProofs.

(* every operand the instancer writes is one of the number forms of the charstring format, for
   every i16 and every 16.16 value ... *)
Theorem C12_cff2_operand_encoding : forall v, sv_wf v -> encodes (enc_sv v) (sv_value v).
Proof. exact enc_sv_encodes. Qed.
Print Assumptions C12_cff2_operand_encoding.

(* ... so the interpreter that loads the instance reads back exactly the value that was written *)
Theorem C12_cff2_operand_roundtrip : forall v, sv_wf v -> forall df e d rest s,
  run (S df) e d (enc_sv v ++ rest) s = s1 <~ push e (sv_value v) s ;; run (S df) e d rest s1.
Proof. exact enc_sv_decodes. Qed.
Print Assumptions C12_cff2_operand_roundtrip.

(* a blended operand default + sum(scalar * delta) = v goes back on the stack as a representable
   operand within 2^-17 of v, and unchanged when v is a whole number: the fraction is kept *)
Theorem C12_cff2_blended_operand : forall v, operand_range v ->
  sv_wf (sv_from v) /\
  2 * 65536 * Z.abs (sv_value (sv_from v) - v) <= UNIT /\
  (v mod UNIT = 0 -> sv_value (sv_from v) = v).
Proof. exact sv_from_close. Qed.
Print Assumptions C12_cff2_blended_operand.

(* charstring operands are relative moves: the errors of n consecutive operands add up to at most
   n * 2^-17, so a point that is the running sum of up to 2^17 operands stays within one unit *)
Theorem C12_cff2_operand_drift : forall vs, Forall operand_range vs ->
  2 * 65536 * Z.abs (sumZ (map emitted vs) - sumZ vs) <= len vs * UNIT.
Proof. exact drift_bound. Qed.
Print Assumptions C12_cff2_operand_drift.

Theorem C12_cff2_drift_within_one_unit : forall vs, Forall operand_range vs -> len vs <= 131072 ->
  Z.abs (sumZ (map emitted vs) - sumZ vs) <= UNIT.
Proof. exact drift_within_one_unit. Qed.
Print Assumptions C12_cff2_drift_within_one_unit.

(* from operands to outline points: two paths whose primitives have operands at most eps apart
   have every coordinate at most (operands per axis) * eps apart, and the same segments *)
Theorem C12_cff2_path_drift : forall eps ps ps', 0 <= eps -> Forall2 (prim_close eps) ps ps' ->
  Forall2 (cmd_close (nops ps * eps)) (path_of ps) (path_of ps').
Proof. exact path_drift. Qed.
Print Assumptions C12_cff2_path_drift.

(* the bytes the instancer writes for a sequence of visited operators (each with the operand
   stack it is visited with) are an encoding of these operators ... *)
Theorem C12_cff2_emitted_charstring : forall visits, Forall visit_ok visits ->
  enc_ops (map fst visits) (inst_emit_all visits).
Proof. exact inst_emit_all_enc_ops. Qed.
Print Assumptions C12_cff2_emitted_charstring.

(* ... hence the charstring of the instance is static: loaded without any variation data it draws
   the path of the visited operators (interp = spec of property C18) *)
Theorem C12_cff2_instance_is_static : forall e visits fd subrs,
  e_kind e = KCFF2 ->
  glyph_fd e = Some fd -> nth_opt (e_fds e) fd = Some subrs ->
  nth_opt (e_glyphs e) (e_gid e) = Some (inst_emit_all visits) ->
  Forall visit_ok visits ->
  prog_wf CFF2_MAX_OPERANDS None (map fst visits) ->
  exists s, interp_glyph e = COk s /\ out s = prog_path (map fst visits).
Proof. exact instance_draws_visits. Qed.
Print Assumptions C12_cff2_instance_is_static.

(* non-vacuity.  102 - 2^-17 (default 102, delta -1/8, scalar 2^-14): the fraction rounds up to
   1.0 and carries into the integer part (before the fix b33f0d4 the carry was lost whenever the
   integer part was odd: 101.0, one unit off); 100.25 keeps its fraction; a whole number is an
   Int; the encodings *)
Example ex_cff2_carry : sv_from (102 * UNIT - 2147483648) = SFixed (102 * 65536).
Proof. vm_compute. reflexivity. Qed.
Example ex_cff2_fraction :
  (sv_from (100 * UNIT + UNIT / 4), sv_from (-(100 * UNIT + UNIT / 4)), sv_from (-300 * UNIT))
  = (SFixed 6569984, SFixed (-6569984), SInt (-300)).
Proof. vm_compute. reflexivity. Qed.
Example ex_cff2_enc :
  map enc_sv [SInt 0; SInt 107; SInt 108; SInt (-108); SInt 1131; SInt 1132; SInt (-32768); SFixed (-8192)]
  = [[139]; [246]; [247; 0]; [251; 0]; [250; 255]; [28; 4; 108]; [28; 128; 0]; [255; 255; 255; 224; 0]].
Proof. vm_compute. reflexivity. Qed.
Example ex_cff2_visit :
  inst_emit_all [(SRMove 0 (of_int 5), [SInt 0; SInt 5]); (SHLine [of_fixed 98304], [SFixed 98304])]
  = [139; 144; 21; 255; 0; 1; 128; 0; 6].
Proof. vm_compute. reflexivity. Qed.

(* KNOWN FINDING (known/C12.json, class cff2-operand-range): outside `operand_range` the conversion
   cannot keep the value and does not fail either: the whole number 33000 saturates to 32767
   (`value as i16`); fractional values beyond the range wrap in Fixed::from (`int << 16` in i32, not
   modelled).  C12_cff2_blended_operand is stated for values inside the range of a charstring
   operand. *)
Example ex_cff2_operand_range_known_finding :
  (sv_from (33000 * UNIT), sv_from (-33000 * UNIT)) = (SInt 32767, SInt (-32768)).
Proof. vm_compute. reflexivity. Qed.
