(* Props/C11.v — the theorems that decide C11 (WOFF2 decoding reconstructs the original font).
   Statements only; every proof is `exact <lemma>` and is followed by Print Assumptions.
   Model: Model/Woff2.v (+ Gen/Woff2Lut.v regenerated from src/woff2/lut.rs on every run).
   Specification side (what a conforming encoder may write): Proofs/Woff2Spec.v. *)
From AV Require Import Base.Prelude Base.Lemmas Gen.Woff2Lut Model.Woff2
  Proofs.Woff2Spec Proofs.Woff2Ints Proofs.Woff2Triplet Proofs.Woff2Glyf Proofs.Woff2Hmtx Proofs.Woff2Dir
  Proofs.Woff2Provider Proofs.Woff2TtSpec Proofs.Woff2TtProofs Proofs.Woff2Total.
Open Scope Z_scope.

(* ================================================================== (a) variable-length integers *)
(* 255UInt16: every one of the encodings the specification allows for a value decodes to it. *)
Theorem C11_packed_u16_all_encodings : forall bytes v rest,
  encodes_255 bytes v -> read_packed_u16 (bytes ++ rest) = Ok (v, rest).
Proof. exact packed_u16_all_encodings. Qed.
Print Assumptions C11_packed_u16_all_encodings.

(* every u16 has an encoding (the shortest one), so the previous theorem is about all values *)
Theorem C11_packed_u16_total : forall v, 0 <= v < 65536 -> encodes_255 (enc_255 v) v.
Proof. exact enc_255_encodes. Qed.
Print Assumptions C11_packed_u16_total.

(* and nothing else is accepted: a successful read consumed exactly one of those encodings *)
Theorem C11_packed_u16_sound : forall s v rest,
  bytes_ok s = true -> read_packed_u16 s = Ok (v, rest) ->
  exists bytes, s = bytes ++ rest /\ encodes_255 bytes v /\ 0 <= v < 65536.
Proof. exact packed_u16_sound. Qed.
Print Assumptions C11_packed_u16_sound.

Example C11_ex_255_alternatives :
  encodes_255 [255; 253] 506 /\ encodes_255 [254; 0] 506 /\ encodes_255 [253; 1; 250] 506.
Proof.
  split; [|split].
  - exact (E255_more1 506 ltac:(lia)).
  - exact (E255_more2 506 ltac:(lia)).
  - exact (E255_word 506 ltac:(lia)).
Qed.

(* UIntBase128: round trip for every 32-bit value ... *)
Theorem C11_base128_roundtrip : forall v rest, 0 <= v < 4294967296 ->
  read_base128 (enc_base128 v ++ rest) = Ok (v, rest).
Proof. exact base128_roundtrip. Qed.
Print Assumptions C11_base128_roundtrip.

(* ... and the reader accepts exactly the canonical encodings of 32-bit values: leading zero
   groups, more than five bytes and values of 2^32 or more never produce a value *)
Theorem C11_base128_sound : forall s v rest,
  bytes_ok s = true -> read_base128 s = Ok (v, rest) ->
  0 <= v < 4294967296 /\ s = enc_base128 v ++ rest.
Proof. exact base128_sound. Qed.
Print Assumptions C11_base128_sound.

Theorem C11_base128_rejects_leading_zero : forall s, read_base128 (128 :: s) = Err BadValue.
Proof. exact base128_rejects_leading_zero. Qed.
Print Assumptions C11_base128_rejects_leading_zero.

Theorem C11_base128_rejects_long : forall b1 b2 b3 b4 b5 s,
  128 <= b1 < 256 -> 128 <= b2 < 256 -> 128 <= b3 < 256 -> 128 <= b4 < 256 -> 128 <= b5 < 256 ->
  read_base128 (b1 :: b2 :: b3 :: b4 :: b5 :: s) = Err BadValue.
Proof. exact base128_rejects_long. Qed.
Print Assumptions C11_base128_rejects_long.

Theorem C11_base128_rejects_overflow : forall b1 b2 b3 b4 b5 s,
  bytes_ok (b1 :: b2 :: b3 :: b4 :: b5 :: s) = true ->
  128 <= b1 -> 128 <= b2 -> 128 <= b3 -> 128 <= b4 ->
  4294967296 <= ((((b1 - 128) * 128 + (b2 - 128)) * 128 + (b3 - 128)) * 128 + (b4 - 128)) * 128 + b5 mod 128 ->
  exists e, read_base128 (b1 :: b2 :: b3 :: b4 :: b5 :: s) = Err e.
Proof. exact base128_rejects_overflow. Qed.
Print Assumptions C11_base128_rejects_overflow.

Example C11_ex_base128 :
  read_base128 [143; 255; 255; 255; 127] = Ok (4294967295, []) /\
  read_base128 [255; 255; 255; 255; 127] = Err BadValue /\
  read_base128 [143; 255; 255; 255; 255; 127] = Err BadValue.
Proof. vm_compute. repeat split; reflexivity. Qed.

(* ================================================================== (b) coordinate triplets *)
(* the 128 rows translated from src/woff2/lut.rs are the table of section 5.2, generated here
   from the rule (byte counts, bit widths, deltas, signs) *)
Theorem C11_lut_is_spec_lut : coord_lut = spec_lut.
Proof. exact lut_is_spec_lut. Qed.
Print Assumptions C11_lut_is_spec_lut.

(* for every row and every pair of field values of the row's bit widths, XYTriplet::dx / dy (as
   translated from the source, debug or release arithmetic) applied to the packed bytes give
   +-(field + delta) with the row's signs: all magnitudes, all signs, all rows *)
Theorem C11_triplet_roundtrip : forall m i fx fy,
  0 <= i < 128 ->
  0 <= fx < 2 ^ x_bits (spec_row i) -> 0 <= fy < 2 ^ y_bits (spec_row i) ->
  decode_triplet m (spec_row i) (pack_fields (spec_row i) fx fy) =
    Ok (to_signed 16 (sgn (x_is_negative (spec_row i)) (fx + delta_x (spec_row i))),
        to_signed 16 (sgn (y_is_negative (spec_row i)) (fy + delta_y (spec_row i)))).
Proof. exact triplet_roundtrip. Qed.
Print Assumptions C11_triplet_roundtrip.

(* encoder's view: whichever row the encoder picks among those that can carry (dx, dy), decoding
   returns (dx, dy) (as int16), consuming exactly the row's byte count *)
Theorem C11_triplet_all_encodings : forall m i bytes dx dy,
  triplet_encodes i bytes dx dy ->
  decode_triplet m (spec_row i) bytes = Ok (to_signed 16 dx, to_signed 16 dy) /\
  len bytes = byte_count (spec_row i) /\ bytes_ok bytes = true.
Proof. exact triplet_encodes_decodes. Qed.
Print Assumptions C11_triplet_all_encodings.

Theorem C11_triplet_total : forall dx dy, -65535 <= dx <= 65535 -> -65535 <= dy <= 65535 ->
  exists i bytes, triplet_encodes i bytes dx dy.
Proof. exact triplet_total. Qed.
Print Assumptions C11_triplet_total.

(* the table-driven decoder computes what the decoding procedure spelled out in the
   specification computes, for every flag and every data bytes *)
Theorem C11_triplet_is_reference : forall m flag bytes,
  0 <= flag < 128 -> bytes_ok bytes = true -> len bytes = byte_count (spec_row flag) ->
  decode_triplet m (spec_row flag) bytes =
    Ok (to_signed 16 (fst (spec_triplet flag bytes)), to_signed 16 (snd (spec_triplet flag bytes))).
Proof. exact decode_is_reference. Qed.
Print Assumptions C11_triplet_is_reference.

(* the delta -32768 (sign bit set, magnitude 0x8000) decodes without overflow in both modes *)
Example C11_ex_triplet_min :
  decode_triplet Debug (spec_row 124) [128; 0; 128; 0] = Ok (-32768, -32768).
Proof. vm_compute. reflexivity. Qed.

(* ================================================================== (c) transformed glyf *)
(* Every encoding of a glyph list that section 5.1 allows decodes to that glyph list: contours
   (endPtsOfContours), points and on-curve flags, instructions, bounding boxes (explicit, or
   omitted and recomputed), composite components and their instructions.  `encodes_glyf_table`
   quantifies over every encoder choice; `simple_ok` requires int16 coordinates, fewer than 65536
   points and strictly increasing end points - nothing about the deltas: two consecutive points
   may be up to 65535 units apart (the triplet carries a 16-bit magnitude and a sign) and the
   decoder lands on the right coordinate in debug and release builds alike (m is arbitrary). *)
Theorem C11_glyf_transform_roundtrip : forall m gs bytes,
  encodes_glyf_table gs bytes -> read_woff2_glyf m bytes = Ok gs.
Proof. exact glyf_transform_roundtrip. Qed.
Print Assumptions C11_glyf_transform_roundtrip.

(* non-vacuity: a concrete table (an empty glyph, a two-point simple glyph with an omitted
   bounding box and one instruction byte, a composite glyph) satisfies the relation *)
Definition ex_simple : simple_glyph :=
  {| sg_bbox := {| bb_xmin := 10; bb_ymin := -5; bb_xmax := 10; bb_ymax := 20 |};
     sg_end_pts := [1]; sg_instr := [77];
     sg_points := [ {| p_on := true; p_x := 10; p_y := 20 |}; {| p_on := false; p_x := 10; p_y := -5 |} ] |}.
Definition ex_comp : component :=
  {| c_flags := 259; c_gid := 1; c_arg1 := -3; c_arg2 := 300; c_scale := [] |}.
Definition ex_glyphs : list glyph :=
  [GEmpty; GSimple ex_simple;
   GComposite {| bb_xmin := 1; bb_ymin := 2; bb_xmax := 3; bb_ymax := 4 |} [ex_comp] [9; 8]].
Definition ex_contribs : list contrib :=
  [ {| k_nc := [0; 0]; k_np := []; k_fl := []; k_gl := []; k_comp := []; k_bbox := []; k_ins := []; k_bit := false |};
    {| k_nc := wr_i16 1; k_np := concat [[2]]; k_fl := [27; 128]; k_gl := ([147] ++ [25]) ++ [1]; k_comp := [];
       k_bbox := []; k_ins := [77]; k_bit := false |};
    {| k_nc := wr_i16 (-1); k_np := []; k_fl := []; k_gl := [253; 0; 2];
       k_comp := flat_map write_component [ex_comp];
       k_bbox := wr_bbox {| bb_xmin := 1; bb_ymin := 2; bb_xmax := 3; bb_ymax := 4 |}; k_ins := [9; 8];
       k_bit := true |} ].
Definition ex_table : list Z := tglyf_bytes 0 0 [32; 0; 0; 0] ex_contribs.

Example C11_ex_glyf_table_encodes : encodes_glyf_table ex_glyphs ex_table.
Proof.
  exists ex_contribs, [32; 0; 0; 0], 0, 0.
  split; [|split; [vm_compute; reflexivity|split; [|split; [lia|split; [lia|split; [vm_compute; reflexivity|reflexivity]]]]]].
  - constructor; [apply EG_empty|]. constructor; [|constructor; [|constructor]].
    + apply (EG_simple ex_simple [[2]] [27; 128] ([147] ++ [25]) [1] false).
      * unfold simple_ok, ex_simple. cbn [sg_end_pts sg_points sg_instr sg_bbox].
        repeat split; try (vm_compute; congruence); try (vm_compute; reflexivity);
          try (unfold i16_ok; cbn; lia).
        repeat constructor; unfold i16_ok; cbn; lia.
      * change (contour_counts (-1) (sg_end_pts ex_simple)) with [2].
        constructor; [exact (E255_one 2 ltac:(lia))|constructor].
      * change (sg_points ex_simple) with
          [ {| p_on := true; p_x := 10; p_y := 20 |}; {| p_on := false; p_x := 10; p_y := -5 |} ].
        change [27; 128] with [27 + (if true then 0 else 128); 0 + (if false then 0 else 128)].
        apply (EP_cons 0 0 {| p_on := true; p_x := 10; p_y := 20 |} _ 27 [147]).
        { split; [lia|]. exists 9, 3. vm_compute. repeat split; reflexivity. }
        change [25] with ([25] ++ []).
        apply (EP_cons 10 20 {| p_on := false; p_x := 10; p_y := -5 |} _ 0 [25]).
        { split; [lia|]. exists 0, 25. vm_compute. repeat split; reflexivity. }
        apply EP_nil.
      * change (len (sg_instr ex_simple)) with 1. exact (E255_one 1 ltac:(lia)).
      * intros _. vm_compute. reflexivity.
    + apply (EG_composite _ [ex_comp] [9; 8] [253; 0; 2]).
      * cbn [components_ok]. unfold component_ok, ex_comp, u16_ok, i16_ok, arg_ok.
        cbn [c_flags c_gid c_arg1 c_arg2 c_scale].
        repeat split; try (vm_compute; reflexivity); try (vm_compute; congruence); try lia; try constructor.
      * unfold bbox_ok, i16_ok. cbn. lia.
      * reflexivity.
      * vm_compute. reflexivity.
      * change (have_instructions [ex_comp]) with true. cbv iota.
        exact (E255_word 2 ltac:(lia)).
  - unfold bitmap_ok. split; [vm_compute; reflexivity|split; [reflexivity|]].
    intros i Hi. change (len (map k_bit ex_contribs)) with 3 in Hi.
    assert (i = 0 \/ i = 1 \/ i = 2) as [->|[->| ->]] by lia; vm_compute; reflexivity.
Qed.

(* non-vacuity for wide deltas: from x = -20000 to x = 20000 (delta 40000, row 127) is an encoding
   the relation admits, hence covered by the round trip in debug and release builds *)
Example C11_ex_wide_delta_encodes :
  encodes_points (-20000) 0 [ {| p_on := true; p_x := 20000; p_y := 0 |} ]
    [127 + (if true then 0 else 128)] ([156; 64; 0; 0] ++ []).
Proof.
  apply (EP_cons (-20000) 0 {| p_on := true; p_x := 20000; p_y := 0 |} [] 127 [156; 64; 0; 0]).
  - split; [lia|]. exists 40000, 0. vm_compute. repeat split; reflexivity.
  - apply EP_nil.
Qed.

(* ================================================================== (d) transformed hmtx *)
(* Where the code is right: the trailing leftSideBearing[] array is present in the stream (flag
   bit 1 clear).  The lsb[] array of the long metrics may be present or dropped (flag bit 0, then
   rebuilt from the glyphs' xMin); reserved flag bits are arbitrary. *)
Theorem C11_hmtx_transform_roundtrip : forall flags glyf h bytes,
  hmtx_ok glyf h -> Forall xmin_readable glyf -> encodes_hmtx_flags flags glyf h bytes ->
  Z.land flags 2 = 0 ->
  read_woff2_hmtx glyf (len glyf) (len (fst h)) bytes = Ok h.
Proof. exact hmtx_transform_roundtrip. Qed.
Print Assumptions C11_hmtx_transform_roundtrip.

(* KNOWN FINDING C11-hmtx-lsb-absent: with LEFT_SIDE_BEARING_ABSENT (flag bit 1 set) the code
   rebuilds the trailing array from ALL glyphs starting at glyph 0.  Exactly what it produces: *)
Theorem C11_hmtx_lsb_absent_actual : forall flags glyf h bytes,
  hmtx_ok glyf h -> Forall xmin_readable glyf -> encodes_hmtx_flags flags glyf h bytes ->
  Z.land flags 2 = 2 ->
  read_woff2_hmtx glyf (len glyf) (len (fst h)) bytes = Ok (fst h, map xmin_spec glyf).
Proof. exact hmtx_lsb_absent_actual. Qed.
Print Assumptions C11_hmtx_lsb_absent_actual.

(* ... which is never the original table once numberOfHMetrics >= 1 (numGlyphs trailing entries
   instead of numGlyphs - numberOfHMetrics): the property fails on the whole class *)
Theorem C11_hmtx_lsb_absent_differs : forall flags glyf h bytes,
  hmtx_ok glyf h -> Forall xmin_readable glyf -> encodes_hmtx_flags flags glyf h bytes ->
  Z.land flags 2 = 2 -> 1 <= len (fst h) ->
  read_woff2_hmtx glyf (len glyf) (len (fst h)) bytes <> Ok h.
Proof. exact hmtx_lsb_absent_differs. Qed.
Print Assumptions C11_hmtx_lsb_absent_differs.

(* ... and what a reader of the decoded table sees: glyphs below numberOfHMetrics keep their
   metrics (so a font with numberOfHMetrics = numGlyphs only carries numGlyphs surplus entries);
   glyph g >= numberOfHMetrics gets the xMin of glyph g - numberOfHMetrics instead of its own *)
Theorem C11_hmtx_lsb_absent_lookup : forall flags glyf h bytes r g,
  hmtx_ok glyf h -> Forall xmin_readable glyf -> encodes_hmtx_flags flags glyf h bytes ->
  Z.land flags 2 = 2 ->
  read_woff2_hmtx glyf (len glyf) (len (fst h)) bytes = Ok r ->
  (0 <= g < len (fst h) -> hmtx_lsb r g = hmtx_lsb h g) /\
  (len (fst h) <= g < len glyf ->
     hmtx_lsb r g = xmin_spec (nth (Z.to_nat (g - len (fst h))) glyf GEmpty) /\
     hmtx_lsb h g = xmin_spec (nth (Z.to_nat g) glyf GEmpty)).
Proof. exact hmtx_lsb_absent_lookup. Qed.
Print Assumptions C11_hmtx_lsb_absent_lookup.

(* witness inside the class: three glyphs with xMin 11, 22, 33, numberOfHMetrics = 1, both arrays
   dropped (flags = 3).  The original table is 500/11 : 22, 33; the decoder returns three trailing
   entries and glyph 1 reads the left side bearing 11 instead of 22, glyph 2 reads 22 instead of 33 *)
Definition ex_hmtx_glyphs : list glyph :=
  let g x := GComposite {| bb_xmin := x; bb_ymin := 0; bb_xmax := 0; bb_ymax := 0 |} [] [] in
  [g 11; g 22; g 33].
Example C11_known_hmtx_lsb_absent :
  encodes_hmtx_flags 3 ex_hmtx_glyphs ([(500, 11)], [22; 33]) [3; 1; 244] /\
  read_woff2_hmtx ex_hmtx_glyphs 3 1 [3; 1; 244] = Ok ([(500, 11)], [11; 22; 33]) /\
  hmtx_lsb ([(500, 11)], [11; 22; 33]) 1 = 11 /\ hmtx_lsb ([(500, 11)], [22; 33]) 1 = 22.
Proof.
  split; [|vm_compute; repeat split; reflexivity].
  unfold encodes_hmtx_flags. split; [lia|]. repeat split; intros; reflexivity.
Qed.

(* the same metrics with the trailing array kept (flags = 1) decode correctly *)
Example C11_ex_hmtx_lsb_present :
  read_woff2_hmtx ex_hmtx_glyphs 3 1 [1; 1; 244; 0; 22; 0; 33] = Ok ([(500, 11)], [22; 33]).
Proof. vm_compute. reflexivity. Qed.

(* ================================================================== (e) directory, tables *)
Theorem C11_known_tags_is_spec : known_table_tags = spec_known_tags.
Proof. exact known_tags_is_spec. Qed.
Print Assumptions C11_known_tags_is_spec.

(* one entry: known-tag index or arbitrary tag, transformation version per tag, lengths *)
Theorem C11_dir_entry_roundtrip : forall t bytes offset r,
  tabspec_ok t -> encodes_dir_entry t bytes ->
  read_dir_entry offset (bytes ++ r) =
    Ok ({| e_tag := t_tag t; e_offset := offset; e_orig_length := t_orig_length t;
           e_transform_length := if t_transformed t then Some (len (t_data t)) else None |}, r).
Proof. exact dir_entry_roundtrip. Qed.
Print Assumptions C11_dir_entry_roundtrip.

(* the directory: entry k starts where the stored bytes of entries 0..k-1 end *)
Theorem C11_table_directory_offsets : forall ts encs offset r,
  Forall tabspec_ok ts -> Forall2 encodes_dir_entry ts encs ->
  read_table_directory (length ts) offset (concat encs ++ r) = Ok (spec_entries offset ts, r).
Proof. exact table_directory_roundtrip. Qed.
Print Assumptions C11_table_directory_offsets.

(* untransformed tables come out byte-identical (any tags, any order) *)
Theorem C11_untransformed_identity : forall m ts flavor index,
  Forall tabspec_ok ts -> Forall (fun t => t_transformed t = false) ts -> NoDup (map t_tag ts) ->
  table_provider m {| f_flavor := flavor; f_dir := spec_entries 0 ts; f_coll := None;
                      f_block := block_of ts |} index
  = Ok (map (fun t => (t_tag t, t_data t)) ts).
Proof. exact untransformed_identity. Qed.
Print Assumptions C11_untransformed_identity.

(* from the file bytes: header, directory, then the tables *)
Theorem C11_single_font_tables : forall m h ts encs index,
  header_ok h -> hf_flavor h <> spec_ttcf -> hf_num_tables h = len ts ->
  Forall tabspec_ok ts -> Forall (fun t => t_transformed t = false) ts -> NoDup (map t_tag ts) ->
  Forall2 encodes_dir_entry ts encs ->
  woff2_tables m (header_bytes h ++ concat encs) (block_of ts) index =
    Ok (spec_entries 0 ts, map (fun t => (t_tag t, t_data t)) ts).
Proof. exact single_font_tables. Qed.
Print Assumptions C11_single_font_tables.

Theorem C11_collection_directory_roundtrip : forall fonts bytes r,
  encodes_collection fonts bytes -> read_collection_directory (bytes ++ r) = Ok (fonts, r).
Proof. exact collection_directory_roundtrip. Qed.
Print Assumptions C11_collection_directory_roundtrip.

(* a collection member receives exactly the tables its index list names (shared tables included) *)
Theorem C11_collection_member_tables : forall m ts fonts k idxs flavor,
  Forall tabspec_ok ts -> Forall (fun t => t_transformed t = false) ts ->
  nth_error fonts k = Some idxs -> Forall (fun i => 0 <= i < len ts) idxs ->
  NoDup (map (fun i => t_tag (nth (Z.to_nat i) ts tab0)) idxs) ->
  table_provider m {| f_flavor := flavor; f_dir := spec_entries 0 ts; f_coll := Some fonts;
                      f_block := block_of ts |} (Z.of_nat k)
  = Ok (map (fun i => (t_tag (nth (Z.to_nat i) ts tab0), t_data (nth (Z.to_nat i) ts tab0))) idxs).
Proof. exact collection_member_tables. Qed.
Print Assumptions C11_collection_member_tables.

(* Woff2TableProvider::new on a TrueType font stored with the glyf, loca and hmtx transforms
   (gs, h = the glyphs and metrics the encoder started from): hmtx is the plain serialisation of
   h, glyf/loca are what the (modelled) writers produce from exactly gs, head carries the matching
   indexToLocFormat, every other table is byte-identical.
   PARTIAL with respect to C11: that G/L, read back as TrueType glyf/loca, describe gs again is
   established by correspondence (the harness re-parses the output), not by this theorem. *)
Theorem C11_transformed_font_tables_partial :
  forall m ts flavor index gs h flags gt lt ht hdt mt hht head long G offs L,
  Forall tabspec_ok ts -> NoDup (map t_tag ts) ->
  In gt ts -> t_tag gt = tag_glyf -> t_transformed gt = true -> encodes_glyf_table gs (t_data gt) ->
  In lt ts -> t_tag lt = tag_loca -> t_transformed lt = true ->
  In ht ts -> t_tag ht = tag_hmtx -> t_transformed ht = true ->
  encodes_hmtx_flags flags gs h (t_data ht) -> Z.land flags 2 = 0 -> hmtx_ok gs h ->
  In hdt ts -> t_tag hdt = tag_head -> t_transformed hdt = false -> read_head (t_data hdt) = Ok (head, long) ->
  In mt ts -> t_tag mt = tag_maxp -> t_transformed mt = false -> read_maxp (t_data mt) = Ok (len gs) ->
  In hht ts -> t_tag hht = tag_hhea -> t_transformed hht = false -> read_hhea (t_data hht) = Ok (len (fst h)) ->
  write_glyf m (negb long) gs 0 = Ok (G, offs) ->
  write_loca (negb (long || (65535 <? last offs 0 / 2))) offs = Some L ->
  table_provider m {| f_flavor := flavor; f_dir := spec_entries 0 ts; f_coll := None;
                      f_block := block_of ts |} index
  = Ok ([(tag_hmtx, write_hmtx h); (tag_glyf, G);
         (tag_head, write_head head (long || (65535 <? last offs 0 / 2))); (tag_loca, L)]
        ++ map (fun t => (t_tag t, t_data t)) (filter (fun t => negb (rebuilt_tag (t_tag t))) ts)).
Proof. exact transformed_font_tables_partial. Qed.
Print Assumptions C11_transformed_font_tables_partial.

(* What the rebuilt glyf/loca describe.  tt_read_glyf / tt_read_glyph (Proofs/Woff2TtSpec.v) is a
   reader of the plain TrueType glyf format written from the OpenType specification; read_loca is
   LocaTable::read_dep.  Whatever padding and loca format the writers choose, reading the written
   loca and then the written glyf through it gives back the glyph list. *)
Theorem C11_rebuilt_glyf_loca_read_back : forall m pad short gs G offs L,
  Forall glyph_tt_ok gs -> write_glyf m pad gs 0 = Ok (G, offs) -> len G < 4294967296 ->
  write_loca short offs = Some L ->
  read_loca L (len gs) (negb short) = Ok offs /\ tt_read_glyf G offs = Ok gs.
Proof. exact rebuilt_glyf_loca_read_back. Qed.
Print Assumptions C11_rebuilt_glyf_loca_read_back.

(* END TO END for a TrueType font stored with the glyf, loca and hmtx transforms (gs, h = the
   glyphs and metrics the encoder started from, int16 coordinates; `glyph_deltas_ok`: int16 deltas
   between consecutive points, as in every TrueType glyf table - the glyf WRITER refuses anything
   else with a WriteError, the WOFF2 decoder does not care): in debug and
   release arithmetic Woff2TableProvider::new succeeds and returns
     hmtx  = the plain serialisation of h (the original table),
     glyf, loca = tables through which the TrueType reader finds exactly gs,
     head  = the original with checkSumAdjustment zeroed and the matching indexToLocFormat,
     every other table byte-identical.
   The hypothesis `Z.land flags 2 = 0` (the hmtx encoder kept the trailing leftSideBearing[]
   array) excludes the known finding C11-hmtx-lsb-absent; inside that class hmtx is not the
   original table (C11_hmtx_lsb_absent_differs). *)
Theorem C11_transformed_font_roundtrip :
  forall m ts flavor index gs h flags gt lt ht hdt mt hht head long,
  Forall tabspec_ok ts -> NoDup (map t_tag ts) ->
  In gt ts -> t_tag gt = tag_glyf -> t_transformed gt = true -> encodes_glyf_table gs (t_data gt) ->
  Forall glyph_deltas_ok gs ->
  In lt ts -> t_tag lt = tag_loca -> t_transformed lt = true ->
  In ht ts -> t_tag ht = tag_hmtx -> t_transformed ht = true ->
  encodes_hmtx_flags flags gs h (t_data ht) -> Z.land flags 2 = 0 -> hmtx_ok gs h ->
  In hdt ts -> t_tag hdt = tag_head -> t_transformed hdt = false -> read_head (t_data hdt) = Ok (head, long) ->
  In mt ts -> t_tag mt = tag_maxp -> t_transformed mt = false -> read_maxp (t_data mt) = Ok (len gs) ->
  In hht ts -> t_tag hht = tag_hhea -> t_transformed hht = false -> read_hhea (t_data hht) = Ok (len (fst h)) ->
  exists G L long',
    table_provider m {| f_flavor := flavor; f_dir := spec_entries 0 ts; f_coll := None;
                        f_block := block_of ts |} index
    = Ok ([(tag_hmtx, write_hmtx h); (tag_glyf, G); (tag_head, write_head head long'); (tag_loca, L)]
          ++ map (fun t => (t_tag t, t_data t)) (filter (fun t => negb (rebuilt_tag (t_tag t))) ts)) /\
    (len G < 4294967296 ->
     exists offs, read_loca L (len gs) long' = Ok offs /\ tt_read_glyf G offs = Ok gs).
Proof. exact transformed_font_roundtrip. Qed.
Print Assumptions C11_transformed_font_roundtrip.

(* an index outside the collection is refused (fixed by ba32cb9; it used to panic) *)
Example C11_ex_collection_bad_index :
  table_provider Debug {| f_flavor := 0; f_dir := []; f_coll := Some [[]]; f_block := [] |} 1 = Err BadIndex.
Proof. vm_compute. reflexivity. Qed.

(* ================================================================== (g) malformed input *)
(* The four operations repaired in src/woff2.rs (commits 33c9cfe, 86608df, 093eba0, aa2eefe), each
   stated for ALL inputs, in every build: what used to be "debug build panics, release build
   wraps" is now a total function that returns the value or the ParseError. *)

(* D1 (33c9cfe) point accumulation, i16::wrapping_add: the delta is known modulo 2^16 and so is the
   sum, which is the next coordinate for ANY two int16 coordinates (the round trip above no longer
   asks for int16 deltas) *)
Theorem C11_point_accumulation_exact : forall prev next,
  i16_ok prev -> i16_ok next -> to_signed 16 (prev + to_signed 16 (next - prev)) = next.
Proof. exact i16_accumulate. Qed.
Print Assumptions C11_point_accumulation_exact.

(* D2 (86608df) and D4 (aa2eefe) compute_end_pts_of_contours, checked_add / checked_sub: for any
   list of contour sizes, each in any of its 255UInt16 forms, the result is endPtsOfContours (the
   running sums minus one), the point count and the rest of the stream when the first contour
   has a point and the sizes add up to at most 65535; ParseError::BadValue otherwise *)
Theorem C11_end_pts_exact : forall counts encs rest,
  counts <> [] -> Forall2 encodes_255 encs counts ->
  compute_end_pts (concat encs ++ rest) (len counts) =
    if (1 <=? hd 0 counts) && (sum counts <=? 65535)
    then Ok (running 0 counts, sum counts, rest) else Err BadValue.
Proof. exact compute_end_pts_exact. Qed.
Print Assumptions C11_end_pts_exact.

Theorem C11_end_pts_rejects_overflow : forall counts encs rest,
  Forall2 encodes_255 encs counts -> 65535 < sum counts ->
  compute_end_pts (concat encs ++ rest) (len counts) = Err BadValue.
Proof. exact end_pts_rejects_overflow. Qed.
Print Assumptions C11_end_pts_rejects_overflow.

Theorem C11_end_pts_rejects_empty_first_contour : forall counts encs rest,
  Forall2 encodes_255 encs (0 :: counts) ->
  compute_end_pts (concat encs ++ rest) (len (0 :: counts)) = Err BadValue.
Proof. exact end_pts_rejects_empty_first_contour. Qed.
Print Assumptions C11_end_pts_rejects_empty_first_contour.

(* D3 (093eba0) TransformedGlyphTable::read, checked_sub: on any bytes the reader returns a table
   or BadEof; a bboxStreamSize (u32 at offset 28) smaller than the bitmap that numGlyphs (u16 at
   offset 4) calls for is refused with BadEof *)
Theorem C11_tglyf_reader_total : forall s, only_eof (read_tglyf s).
Proof. exact read_tglyf_only_eof. Qed.
Print Assumptions C11_tglyf_reader_total.

Theorem C11_tglyf_bbox_stream_checked : forall s num_glyphs bbox_stream_size r1 r2,
  bytes_ok s = true ->
  rd_u16 (drop 4 s) = Ok (num_glyphs, r1) -> rd_u32 (drop 28 s) = Ok (bbox_stream_size, r2) ->
  bbox_stream_size < 4 * ((num_glyphs + 31) / 32) ->
  read_tglyf s = Err Eof.
Proof. exact tglyf_bbox_stream_checked. Qed.
Print Assumptions C11_tglyf_bbox_stream_checked.

(* D4 (aa2eefe), the assertion of BoundingBox::from_points: a simple glyph that decode_simple_glyph
   returns (from any bytes) has between 1 and 65535 points with int16 coordinates, one end point
   per contour and every end point the index of one of its points ... *)
Theorem C11_decoded_simple_glyph_wf : forall m st nc eps ins pts st',
  st_ok st -> 0 < nc -> decode_simple_glyph m st nc = Ok (eps, ins, pts, st') ->
  pts <> [] /\ len pts <= 65535 /\ len eps = nc /\
  Forall (fun e => 0 <= e < len pts) eps /\ Forall point_ok pts.
Proof. exact decoded_simple_glyph_wf. Qed.
Print Assumptions C11_decoded_simple_glyph_wf.

(* ... and the transformed glyf decoder as a whole is total: on ANY byte string, in debug and
   release arithmetic, Woff2GlyfTable::read_dep returns a glyph list or a ParseError.  (The model
   says Panic where the Rust would panic: overflow checks of the translated triplet arithmetic,
   table indexing, the from_points assertion, the fuel of the component loop.  None is reached.) *)
Theorem C11_glyf_decoder_total : forall m s, bytes_ok s = true -> no_panic (read_woff2_glyf m s).
Proof. exact read_woff2_glyf_total. Qed.
Print Assumptions C11_glyf_decoder_total.

(* the inputs recorded with the four defects (known/C11.json, corpus/C11.txt), debug and release *)
(* a delta of 40000 between two int16 coordinates *)
Example C11_fixed_wide_delta : forall m,
  exists g, read_woff2_glyf m ([0; 0; 0; 0; 0; 1; 0; 0; 0; 0; 0; 2; 0; 0; 0; 1; 0; 0; 0; 2; 0; 0; 0; 9; 0; 0; 0; 0; 0; 0; 0; 4; 0; 0; 0; 0; 0; 1; 2; 124; 127; 78; 32; 0; 0; 156; 64; 0; 0; 0; 0; 0; 0; 0]) = Ok [GSimple g] /\
            map p_x (sg_points g) = [-20000; 20000].
Proof. intros []; eexists; split; vm_compute; reflexivity. Qed.

(* two contours of 40000 points each *)
Example C11_fixed_npoints_overflow : forall m,
  read_woff2_glyf m ([0; 0; 0; 0; 0; 1; 0; 0; 0; 0; 0; 2; 0; 0; 0; 6; 0; 0; 0; 0; 0; 0; 0; 0; 0; 0; 0; 0; 0; 0; 0; 4; 0; 0; 0; 0; 0; 2; 253; 156; 64; 253; 156; 64; 0; 0; 0; 0]) = Err BadValue.
Proof. intros []; vm_compute; reflexivity. Qed.

(* one contour of zero points *)
Example C11_fixed_zero_points : forall m,
  read_woff2_glyf m ([0; 0; 0; 0; 0; 1; 0; 0; 0; 0; 0; 2; 0; 0; 0; 1; 0; 0; 0; 0; 0; 0; 0; 1; 0; 0; 0; 0; 0; 0; 0; 4; 0; 0; 0; 0; 0; 1; 0; 0; 0; 0; 0; 0]) = Err BadValue.
Proof. intros []; vm_compute; reflexivity. Qed.

(* bboxStreamSize 0 for one glyph (the bitmap alone has 4 bytes) *)
Example C11_fixed_bbox_underflow : forall m,
  read_woff2_glyf m ([0; 0; 0; 0; 0; 1; 0; 0; 0; 0; 0; 2; 0; 0; 0; 0; 0; 0; 0; 0; 0; 0; 0; 0; 0; 0; 0; 0; 0; 0; 0; 0; 0; 0; 0; 0; 0; 0; 0; 0; 0; 0]) = Err Eof.
Proof. intros []; vm_compute; reflexivity. Qed.
