(* Props/C14.v — the theorems that decide C14 (binary reader: no out-of-bounds, exact decoding).
   Statements only; every proof is `exact <lemma>` and is followed by Print Assumptions. *)
From AV Require Import Base.Prelude Gen.ReaderPrims Model.Reader Proofs.ReaderProofs.
Open Scope Z_scope.

(* 1. The primitives extracted from the current source satisfy the shape the proofs rely on:
      every dereferenced index is below the dominating check, the advance equals the size. *)
Theorem C14_prims_dominated : forallb prim_ok all_prims = true.
Proof. exact prims_ok. Qed.
Print Assumptions C14_prims_dominated.

Theorem C14_unsafe_census :
  unsafe_files_outside_model = 0 /\ unsafe_blocks_of_unknown_shape = 0.
Proof. exact unsafe_census_ok. Qed.
Print Assumptions C14_unsafe_census.

(* 2. No sequence of reader operations, over any buffer, in debug or release arithmetic, ever
      reaches an unchecked primitive outside its slice (the model's OOB outcome). *)
Theorem C14_no_oob : forall m ops st,
  rinv st -> Forall op_wf ops -> Forall (fun r => fst r <> OOB) (rrun m st ops).
Proof. exact rrun_no_oob. Qed.
Print Assumptions C14_no_oob.

Theorem C14_init_inv : forall d, len d < USIZE -> rinv (rinit d).
Proof. exact rinit_inv. Qed.
Print Assumptions C14_init_inv.

Theorem C14_step_inv : forall m st o,
  rinv st -> op_wf o -> rinv (fst (rstep m st o)) /\ snd (rstep m st o) <> OOB.
Proof. exact rstep_inv. Qed.
Print Assumptions C14_step_inv.

(* 3. Typed reads: big-endian value at the cursor, cursor + size, same scope; otherwise Eof exactly
      when fewer than size bytes remain (rstep leaves the state untouched on every non-Ok). *)
Theorem C14_read_exact : forall t c,
  bytes_ok (data (sc c)) = true -> cinv c ->
  (off c + ty_size t <= dlen (sc c) /\
   read_ty t c = Ok (decode_ty t (take (ty_size t) (drop (off c) (data (sc c)))),
                     {| sc := sc c; off := off c + ty_size t |}))
  \/ (dlen (sc c) < off c + ty_size t /\ read_ty t c = Err Eof).
Proof. exact read_ty_exact. Qed.
Print Assumptions C14_read_exact.

Theorem C14_read_prim_exact : forall p c,
  bytes_ok (data (sc c)) = true -> cinv c ->
  (off c + spec_size p <= dlen (sc c) /\
   read_prim p c = Ok (decode_prim p (take (spec_size p) (drop (off c) (data (sc c)))),
                       {| sc := sc c; off := off c + spec_size p |}))
  \/ (dlen (sc c) < off c + spec_size p /\ read_prim p c = Err Eof).
Proof. exact read_prim_exact. Qed.
Print Assumptions C14_read_prim_exact.

(* 4. Sub-scopes expose exactly their declared window. *)
Theorem C14_subscope_window : forall m s o l,
  0 <= o -> 0 <= l -> o + l <= dlen s -> 0 <= base s -> base s + o < USIZE ->
  offset_length m s o l = Ok {| base := base s + o; data := take l (drop o (data s)) |}.
Proof. exact offset_length_complete. Qed.
Print Assumptions C14_subscope_window.

Theorem C14_subscope_rejects : forall m s o l,
  0 <= o -> 0 < l -> dlen s < o + l -> exists e, offset_length m s o l = Err e.
Proof. exact offset_length_rejects. Qed.
Print Assumptions C14_subscope_rejects.

(* 5. Arrays and strided arrays: construction, indexed access, iteration, binary search. *)
Theorem C14_array_construction : forall m t c n st a c',
  cinv c -> 0 <= n -> 0 <= st -> 0 < ty_size t -> read_array_stride m t c n st = Ok (a, c') ->
  cinv c' /\ ainv a /\ sinv (a_sc a) /\ sc c' = sc c /\ a_len a = n /\ a_stride a = st /\ a_ty a = t
  /\ ty_size t <= st /\ n * st < USIZE /\ off c' = off c + n * st
  /\ data (a_sc a) = take (n * st) (drop (off c) (data (sc c))).
Proof. exact read_array_stride_inv. Qed.
Print Assumptions C14_array_construction.

Theorem C14_read_array_is_unit_stride : forall m t c n,
  read_array m t c n = read_array_stride m t c n (ty_size t).
Proof. exact read_array_is_stride. Qed.
Print Assumptions C14_read_array_is_unit_stride.

Theorem C14_array_get : forall m a i,
  window_ok a -> 0 <= i < a_len a -> arr_get m a i = Ok (Some (item a i)).
Proof. exact arr_get_exact. Qed.
Print Assumptions C14_array_get.

Theorem C14_array_get_outside : forall m a i, a_len a <= i -> arr_get m a i = Ok None.
Proof. exact arr_get_outside. Qed.
Print Assumptions C14_array_get_outside.

Theorem C14_array_iter : forall m a,
  window_ok a -> arr_to_vec m a = Ok (map (item a) (range 0 (Z.to_nat (a_len a)))).
Proof. exact arr_to_vec_exact. Qed.
Print Assumptions C14_array_iter.

Theorem C14_binary_search : forall m a f,
  window_ok a -> sorted_wrt f a -> exists r, arr_binary_search m a f = Ok r /\ bs_post f a r.
Proof. exact arr_binary_search_spec. Qed.
Print Assumptions C14_binary_search.

(* 6. Totality: on every reachable state every operation returns a value or an error; it never
      panics (no failing unwrap, no arithmetic overflow in either build mode, fuel sufficient). *)
Theorem C14_step_total : forall m st o, rinv st -> op_wf o -> defined (snd (rstep m st o)).
Proof. exact rstep_total. Qed.
Print Assumptions C14_step_total.

Theorem C14_run_total : forall m ops st,
  rinv st -> Forall op_wf ops -> Forall (fun r => defined (fst r)) (rrun m st ops).
Proof. exact rrun_total. Qed.
Print Assumptions C14_run_total.

(* non-vacuity: a concrete buffer and program meet the hypotheses and exercise the conclusions *)
Example C14_example_run :
  rrun Debug (rinit [1; 2; 3; 4; 5; 6; 7; 8; 9])
       [ORead PU16; OReadArrayStride [PU8] 2 3; OArrGet 1; OArrToVec; ORead PU16; OArrSearch 6]
  = [(Ok [258], 7); (Ok [2], 1); (Ok [1; 6], 1); (Ok [3; 6], 1); (Err Eof, 1); (Ok [1; 1], 1)].
Proof. vm_compute. reflexivity. Qed.
