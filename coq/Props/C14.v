(* Props/C14.v — the theorems that decide C14 (binary reader: no out-of-bounds, exact decoding).
   Statements only; every proof is `exact <lemma>` and is followed by Print Assumptions. *)
From AV Require Import Base.Prelude Gen.ReaderPrims Model.Reader Model.ReaderExt Model.ReaderObs
  Proofs.ReaderProofs Proofs.ReaderObsProofs Model.DepSizeExpr Gen.DepSizes Model.DepSize Proofs.DepSizeProofs.
Open Scope Z_scope.

(* 1. The primitives extracted from the current source satisfy the shape the proofs rely on:
      every dereferenced index is below the dominating check, the advance equals the size. *)
Theorem C14_prims_dominated : forallb prim_ok all_prims = true.
Proof. exact prims_ok. Qed.
Print Assumptions C14_prims_dominated.

Theorem C14_unsafe_census :
  unsafe_files_outside_model = 0 /\ unsafe_blocks_of_unknown_shape = 0.
Proof. exact unsafe_census_ok. Qed.
Print Assumptions C14_unsafe_census.

(* 2. No sequence of reader operations, over any buffer, in debug or release arithmetic, ever
      reaches an unchecked primitive outside its slice (the model's OOB outcome). *)
Theorem C14_no_oob : forall m ops st,
  rinv st -> Forall op_wf ops -> Forall (fun r => fst r <> OOB) (rrun m st ops).
Proof. exact rrun_no_oob. Qed.
Print Assumptions C14_no_oob.

Theorem C14_init_inv : forall d, len d < USIZE -> rinv (rinit d).
Proof. exact rinit_inv. Qed.
Print Assumptions C14_init_inv.

Theorem C14_step_inv : forall m st o,
  rinv st -> op_wf o -> rinv (fst (rstep m st o)) /\ snd (rstep m st o) <> OOB.
Proof. exact rstep_inv. Qed.
Print Assumptions C14_step_inv.

(* 3. Typed reads: big-endian value at the cursor, cursor + size, same scope; otherwise Eof exactly
      when fewer than size bytes remain (rstep leaves the state untouched on every non-Ok). *)
Theorem C14_read_exact : forall t c,
  bytes_ok (data (sc c)) = true -> cinv c ->
  (off c + ty_size t <= dlen (sc c) /\
   read_ty t c = Ok (decode_ty t (take (ty_size t) (drop (off c) (data (sc c)))),
                     {| sc := sc c; off := off c + ty_size t |}))
  \/ (dlen (sc c) < off c + ty_size t /\ read_ty t c = Err Eof).
Proof. exact read_ty_exact. Qed.
Print Assumptions C14_read_exact.

Theorem C14_read_prim_exact : forall p c,
  bytes_ok (data (sc c)) = true -> cinv c ->
  (off c + spec_size p <= dlen (sc c) /\
   read_prim p c = Ok (decode_prim p (take (spec_size p) (drop (off c) (data (sc c)))),
                       {| sc := sc c; off := off c + spec_size p |}))
  \/ (dlen (sc c) < off c + spec_size p /\ read_prim p c = Err Eof).
Proof. exact read_prim_exact. Qed.
Print Assumptions C14_read_prim_exact.

(* 4. Sub-scopes expose exactly their declared window. *)
Theorem C14_subscope_window : forall m s o l,
  0 <= o -> 0 <= l -> o + l <= dlen s -> 0 <= base s -> base s + o < USIZE ->
  offset_length m s o l = Ok {| base := base s + o; data := take l (drop o (data s)) |}.
Proof. exact offset_length_complete. Qed.
Print Assumptions C14_subscope_window.

Theorem C14_subscope_rejects : forall m s o l,
  0 <= o -> 0 < l -> dlen s < o + l -> exists e, offset_length m s o l = Err e.
Proof. exact offset_length_rejects. Qed.
Print Assumptions C14_subscope_rejects.

(* 5. Arrays and strided arrays: construction, indexed access, iteration, binary search. *)
Theorem C14_array_construction : forall m t c n st a c',
  cinv c -> 0 <= n -> 0 <= st -> 0 < ty_size t -> read_array_stride m t c n st = Ok (a, c') ->
  cinv c' /\ ainv a /\ sinv (a_sc a) /\ sc c' = sc c /\ a_len a = n /\ a_stride a = st /\ a_ty a = t
  /\ ty_size t <= st /\ n * st < USIZE /\ off c' = off c + n * st
  /\ data (a_sc a) = take (n * st) (drop (off c) (data (sc c))).
Proof. exact read_array_stride_inv. Qed.
Print Assumptions C14_array_construction.

Theorem C14_read_array_is_unit_stride : forall m t c n,
  read_array m t c n = read_array_stride m t c n (ty_size t).
Proof. exact read_array_is_stride. Qed.
Print Assumptions C14_read_array_is_unit_stride.

Theorem C14_array_get : forall m a i,
  window_ok a -> 0 <= i < a_len a -> arr_get m a i = Ok (Some (item a i)).
Proof. exact arr_get_exact. Qed.
Print Assumptions C14_array_get.

Theorem C14_array_get_outside : forall m a i, a_len a <= i -> arr_get m a i = Ok None.
Proof. exact arr_get_outside. Qed.
Print Assumptions C14_array_get_outside.

Theorem C14_array_iter : forall m a,
  window_ok a -> arr_to_vec m a = Ok (map (item a) (range 0 (Z.to_nat (a_len a)))).
Proof. exact arr_to_vec_exact. Qed.
Print Assumptions C14_array_iter.

Theorem C14_binary_search : forall m a f,
  window_ok a -> sorted_wrt f a -> exists r, arr_binary_search m a f = Ok r /\ bs_post f a r.
Proof. exact arr_binary_search_spec. Qed.
Print Assumptions C14_binary_search.

(* 6. Totality: on every reachable state every operation returns a value or an error; it never
      panics (no failing unwrap, no arithmetic overflow in either build mode, fuel sufficient). *)
Theorem C14_step_total : forall m st o, rinv st -> op_wf o -> defined (snd (rstep m st o)).
Proof. exact rstep_total. Qed.
Print Assumptions C14_step_total.

Theorem C14_run_total : forall m ops st,
  rinv st -> Forall op_wf ops -> Forall (fun r => defined (fst r)) (rrun m st ops).
Proof. exact rrun_total. Qed.
Print Assumptions C14_run_total.

(* non-vacuity: a concrete buffer and program meet the hypotheses and exercise the conclusions *)
Example C14_example_run :
  rrun Debug (rinit [1; 2; 3; 4; 5; 6; 7; 8; 9])
       [ORead PU16; OReadArrayStride [PU8] 2 3; OArrGet 1; OArrToVec; ORead PU16; OArrSearch 6]
  = [(Ok [258], 7); (Ok [2], 1); (Ok [1; 6], 1); (Ok [3; 6], 1); (Err Eof, 1); (Ok [1; 1], 1)].
Proof. vm_compute. reflexivity. Qed.

(* 7. Positions.  ReadScope::base — "the offset of this scope from the start of the scope it was derived
      from", and the key of ReadScope::read_cache — follows every offset: in range, exactly at the end and
      past the end (a dangling, empty scope), wrapping modulo 2^64 like the usize it is. *)
Theorem C14_scope_position : forall m s o,
  scope_offset m s o = Ok {| base := (base s + o) mod USIZE; data := slice_from (data s) o |}.
Proof. exact scope_offset_position. Qed.
Print Assumptions C14_scope_position.

Theorem C14_subscope_position : forall m s o l s',
  offset_length m s o l = Ok s' ->
  base s' = (base s + o) mod USIZE /\ data s' = take l (slice_from (data s) o).
Proof. exact offset_length_position. Qed.
Print Assumptions C14_subscope_position.

Theorem C14_offset_agrees_with_offset_length : forall m s o l s' s'',
  offset_length m s o l = Ok s' -> scope_offset m s o = Ok s'' -> base s'' = base s'.
Proof. exact offset_agrees_with_offset_length. Qed.
Print Assumptions C14_offset_agrees_with_offset_length.

Theorem C14_cursor_position : forall m c,
  ctxt_scope m c = Ok {| base := (base (sc c) + off c) mod USIZE; data := slice_from (data (sc c)) (off c) |}.
Proof. exact ctxt_scope_position. Qed.
Print Assumptions C14_cursor_position.

(* every scope derived from a window of the root buffer is again a window of the root buffer at its
   own position (or empty, when the offset went past the end) *)
Theorem C14_offset_window : forall root m s o s',
  len root < USIZE -> at_root root s -> 0 <= o -> scope_offset m s o = Ok s' -> at_root root s'.
Proof. exact at_root_offset. Qed.
Print Assumptions C14_offset_window.

Theorem C14_subscope_root_window : forall root m s o l s',
  len root < USIZE -> at_root root s -> 0 <= o -> 0 <= l -> offset_length m s o l = Ok s' -> at_root root s'.
Proof. exact at_root_offset_length. Qed.
Print Assumptions C14_subscope_root_window.

(* 8. The read cache.  A cached read returns the big-endian value of the type located at the position of
      the scope in the root buffer (entirely inside the buffer) and keeps the cache sound; when it fails
      it is an end-of-data error, nothing was stored, and a direct read fails the same way.  On every
      scope that holds a value of the type the cache is transparent. *)
Theorem C14_cache_read : forall root t s ch,
  bytes_ok root = true -> sinv s -> at_root root s -> cache_ok root ch -> 0 < ty_size t ->
  match read_cache t s ch with
  | (Ok v, ch') => value_at root t (base s) v /\ cache_ok root ch'
  | (Err e, ch') => ch' = ch /\ e = Eof /\ scope_read t s = Err Eof /\ cache_find t (base s) ch = None
  | _ => False
  end.
Proof. exact read_cache_sound. Qed.
Print Assumptions C14_cache_read.

Theorem C14_cache_transparent : forall root t s ch,
  bytes_ok root = true -> sinv s -> at_root root s -> cache_ok root ch -> 0 < ty_size t ->
  ty_size t <= dlen s -> fst (read_cache t s ch) = scope_read t s.
Proof. exact read_cache_transparent. Qed.
Print Assumptions C14_cache_transparent.

Theorem C14_cache_miss : forall t s ch,
  cache_find t (base s) ch = None ->
  fst (read_cache t s ch) = scope_read t s /\
  match scope_read t s with
  | Ok v => cache_find t (base s) (snd (read_cache t s ch)) = Some v
  | _ => snd (read_cache t s ch) = ch
  end.
Proof. exact read_cache_miss. Qed.
Print Assumptions C14_cache_miss.

Theorem C14_scope_read_exact : forall root t s,
  bytes_ok root = true -> sinv s -> at_root root s -> 0 < ty_size t ->
  (ty_size t <= dlen s /\ value_at root t (base s) (decode_ty t (take (ty_size t) (data s))) /\
   scope_read t s = Ok (decode_ty t (take (ty_size t) (data s))))
  \/ (dlen s < ty_size t /\ scope_read t s = Err Eof).
Proof. exact scope_read_exact. Qed.
Print Assumptions C14_scope_read_exact.

(* 9. Arrays of dependent records (ReadFixedSizeDep), records of size 0 included: the window is exactly
      len * size bytes at the cursor, read_item i decodes the i-th cell and refuses i >= len, and the
      iterator behind iter_res / read_to_vec / Debug yields exactly the declared number of items, in
      order — min(cap, len) of them when the consumer stops after cap. *)
Theorem C14_dep_array_construction : forall m t c n a c',
  cinv c -> 0 <= n -> read_array_dep m t c n = Ok (a, c') ->
  cinv c' /\ dinv a /\ sinv (a_sc a) /\ sc c' = sc c /\ a_len a = n /\ a_ty a = t
  /\ n * ty_size t < USIZE /\ off c' = off c + n * ty_size t
  /\ data (a_sc a) = take (n * ty_size t) (drop (off c) (data (sc c)))
  /\ offset_length m (sc c) (off c) (n * ty_size t) = Ok (a_sc a).
Proof. exact read_array_dep_inv. Qed.
Print Assumptions C14_dep_array_construction.

Theorem C14_dep_read_item : forall m a i,
  dinv a -> sinv (a_sc a) -> bytes_ok (data (a_sc a)) = true -> 0 <= i < a_len a ->
  dep_read_item m a i = Ok (item a i).
Proof. exact dep_read_item_exact. Qed.
Print Assumptions C14_dep_read_item.

Theorem C14_dep_read_item_outside : forall m a i, a_len a <= i -> dep_read_item m a i = Err BadIndex.
Proof. exact dep_read_item_outside. Qed.
Print Assumptions C14_dep_read_item_outside.

Theorem C14_dep_iter : forall m a,
  dinv a -> sinv (a_sc a) -> bytes_ok (data (a_sc a)) = true ->
  forall cap i, 0 <= i <= a_len a ->
  dep_iter_take cap m a i =
    map (fun j => Ok (item a j)) (range i (Nat.min cap (Z.to_nat (a_len a - i)))).
Proof. exact dep_iter_take_exact. Qed.
Print Assumptions C14_dep_iter.

Theorem C14_dep_iter_count : forall m a cap,
  dinv a -> sinv (a_sc a) -> bytes_ok (data (a_sc a)) = true ->
  length (dep_iter_take cap m a 0) = Nat.min cap (Z.to_nat (a_len a)).
Proof. exact dep_iter_take_length. Qed.
Print Assumptions C14_dep_iter_count.

Theorem C14_dep_collect : forall m a cap,
  dinv a -> sinv (a_sc a) -> bytes_ok (data (a_sc a)) = true ->
  collect_res (dep_iter_take cap m a 0) =
    Ok (map (item a) (range 0 (Nat.min cap (Z.to_nat (a_len a))))).
Proof. exact dep_collect_exact. Qed.
Print Assumptions C14_dep_collect.

(* 10. ReadArrayCow: iterating the owned form gives back the vector, iterating the borrowed form is
       iterating the array (C14_array_iter). *)
Theorem C14_cow_owned_iter : forall m v, cow_to_vec m (CowOwned v) = Ok v.
Proof. exact cow_to_vec_owned. Qed.
Print Assumptions C14_cow_owned_iter.

Theorem C14_cow_borrowed_iter : forall m a, window_ok a -> cow_to_vec m (CowBorrowed a) = arr_to_vec m a.
Proof. exact cow_to_vec_borrowed. Qed.
Print Assumptions C14_cow_borrowed_iter.

(* 11. The extended machine (the 21 core operations + scope reads, cached reads, ReadScopeOwned,
       dependent arrays, cow views, Debug, CheckIndex): for every byte buffer, every program and both
       arithmetic modes the invariant holds in every reachable state and every operation returns a
       value or an error — no Panic, no OOB.  A cached read returns the value at the scope's position. *)
Theorem C14_xinit_inv : forall d, len d < USIZE -> bytes_ok d = true -> xinv d (xinit d).
Proof. exact xinit_inv. Qed.
Print Assumptions C14_xinit_inv.

Theorem C14_xstep_inv : forall root m st o,
  xinv root st -> xop_wf o -> xinv root (fst (xstep m st o)) /\ defined (snd (xstep m st o)).
Proof. exact xstep_inv. Qed.
Print Assumptions C14_xstep_inv.

Theorem C14_xrun_total : forall root m ops st,
  xinv root st -> Forall xop_wf ops -> Forall (fun r => defined (fst r)) (xrun m st ops).
Proof. exact xrun_total. Qed.
Print Assumptions C14_xrun_total.

Theorem C14_cached_value : forall root m st t v,
  xinv root st -> 0 < ty_size t -> snd (xstep m st (XReadCache t)) = Ok v ->
  value_at root t (base (scp (core st))) v.
Proof. exact xstep_cache_value. Qed.
Print Assumptions C14_cached_value.

(* non-vacuity: a cached read, a dangling offset (the position moves on, the cached read now fails), an
   array of three records of size 0 (three items, not more), a cow view *)
Example C14_example_xrun :
  xrun Debug (xinit [18; 52; 86; 120])
       [XCore (OScopeOffset 2); XReadCache [PU16]; XCore (OScopeOffset 10); XReadCache [PU16];
        XReadArrayDep [] 3; XDepIter; XDepReadItem 3; XReadArrayDep [PU8; PU8] 2; XDepIter;
        XCore (OReadArray [PU8] 0); XCow true CIter]
  = [(Ok [2], [4; 0; 2; 2]); (Ok [22136], [4; 0; 2; 2]); (Ok [0], [4; 0; 12; 0]); (Err Eof, [4; 0; 12; 0]);
     (Ok [3], [4; 0; 12; 0]); (Ok [3], [4; 0; 12; 0]); (Err BadIndex, [4; 0; 12; 0]);
     (Ok [2], [0; 4; 12; 0]); (Ok [2; 18; 52; 86; 120], [0; 4; 12; 0]);
     (Ok [0], [0; 4; 12; 0]); (Ok [0], [0; 4; 12; 0])].
Proof. vm_compute. reflexivity. Qed.

Example C14_example_xinv : xinv [18; 52; 86; 120] (xinit [18; 52; 86; 120]).
Proof. apply xinit_inv; vm_compute; reflexivity. Qed.

(* Strides of the crate's own dependent records (fourth seeding round).  `size(args)` of every
   `impl ReadFixedSizeDep` (17, regenerated into Gen/DepSizes.v with the type each `+` / `*` is evaluated in)
   evaluates, with overflow checks and without, for EVERY argument of the argument's type (u16 counts up to
   65535, value formats 0..255, usize counts as long as the record size itself is a usize), to the encoded size
   of the record: no intermediate result leaves its type. *)
Theorem C14_lib_dep_size_exact : forall (m : mode) (r : librec) (a : list Z),
    lib_args_ok r a = true ->
    seval m a (lib_size_expr r) = Ok (lib_spec_size r a).
Proof. exact lib_size_exact. Qed.
Print Assumptions C14_lib_dep_size_exact.

(* ... hence read_array_dep::<R>(n, args) takes exactly n x encoded-size bytes (or fails with Eof, never
   panics), and the stride of the array is large enough for read_item's per-item scope. *)
Theorem C14_lib_dep_array_window : forall (m : mode) (r : librec) (a : list Z) (n avail : Z),
    lib_args_ok r a = true -> 0 <= n < USIZE -> 0 <= avail < USIZE ->
    lib_read_array_dep m r a n avail =
      Ok (lib_spec_size r a,
          if (n * lib_spec_size r a <=? avail) then Ok (n * lib_spec_size r a) else Err Eof)
    /\ lib_item_fits r a (lib_spec_size r a) = true.
Proof. exact lib_read_array_dep_window. Qed.
Print Assumptions C14_lib_dep_array_window.

(* non-vacuity: the extremes of the argument types are inside the hypothesis *)
Example C14_example_lib_args :
  lib_args_ok L_VariationRegion [65535] = true /\ lib_args_ok L_PairValueRecord [255; 255] = true /\
  lib_args_ok L_Class1Record [65535; 255; 255] = true /\ lib_args_ok L_BaseRecord [65535] = true /\
  lib_spec_size L_VariationRegion [21846] = 131076 /\ length lib_all = 17%nat /\ lib_blanket_impls = 1.
Proof. vm_compute. repeat split; reflexivity. Qed.

(* the evaluator does see arithmetic in a narrow type (the shape of seeded change H) *)
Example C14_example_narrow_mul :
  seval Debug [21846] (SMul TUsize (SFrom TUsize (SMul TU16 (SArg 0) (SLit 3))) (SLit 2)) = Panic /\
  seval Release [21846] (SMul TUsize (SFrom TUsize (SMul TU16 (SArg 0) (SLit 3))) (SLit 2)) = Ok 4.
Proof. exact narrow_mul_overflows. Qed.
