(* Props/C02.v — shaping is total and yields well-formed glyph runs.  PARTIAL.
   What is proved is the part of the shaping pipeline that has a model: text preprocessing (C17) and
   GSUB lookup application (C04): no panic, fuel never exhausted, length bookkeeping exact, recursion
   bounded, and the characters attributed to glyphs are carried, never invented.  The complex-script
   engines (Indic, Khmer, Myanmar, Syriac, Arabic joining, morx) and GPOS (until C05 lands) are
   covered by the run-time judge of the check only — see lib/manifest/C02.json. *)
From AV Require Import Base.Prelude Gen.LayoutConsts Model.Layout Model.LayoutSpec Model.Gsub Model.GsubSpec
  Proofs.LayoutProofs Proofs.GsubProofs Proofs.LigatureProofs Proofs.ContextProofs
  Gen.PreprocessTables Model.Preprocess Proofs.PreprocessTop
  Gen.GposConsts Model.Gpos Model.Position Model.GposSpec Proofs.GposProofs Proofs.PositionProofs Proofs.GposInvProofs.
From Coq Require Import Permutation.
Open Scope Z_scope.

(* mapping text to glyphs starts with preprocess_text: total for every text, script tag and class data *)
Theorem C02_preprocess_total_partial : forall class cs tag, exists out, preprocess_text class cs tag = Ok out.
Proof. exact never_panics. Qed.
Print Assumptions C02_preprocess_total_partial.

(* every GSUB lookup type applied to the whole run, for ARBITRARY (also inconsistent) lookup data:
   no panic, no fuel exhaustion, and the returned length is the length of the result *)
Theorem C02_gsub_lookup_total_partial : forall m lks gd li tag alt gs,
  lookups_wf lks -> len gs < MAXLEN ->
  (forall lk subs, get_lookup lks li = Ok lk -> lk_body lk = LMultiple subs -> seqs_small subs /\ 65537 * (len gs + 1) < USIZE) ->
  (forall lk subs mt, get_lookup lks li = Ok lk -> lk_body lk = LContext subs ->
     fits (fun i g => contextsubst (apply_subst recursion_limit lks gd tag) gd subs mt i g)) ->
  (forall lk subs mt, get_lookup lks li = Ok lk -> lk_body lk = LChain subs ->
     fits (fun i g => chaincontextsubst (apply_subst recursion_limit lks gd tag) gd subs mt i g)) ->
  loop_result_ok (gsub_apply_lookup m (Some lks) gd li tag alt gs 0 (len gs)).
Proof. exact gsub_apply_lookup_whole_run. Qed.
Print Assumptions C02_gsub_lookup_total_partial.

(* nested contextual lookups: never a panic at any recursion level; the depth is bounded *)
Theorem C02_nested_lookups_total_partial : forall lookups gd tag, lookups_wf lookups ->
  forall lim, good_subst (apply_subst lim lookups gd tag).
Proof. exact apply_subst_good. Qed.
Print Assumptions C02_nested_lookups_total_partial.

Theorem C02_parsed_lookups_wf : forall lks, lookups_wf (map lookup_parse lks).
Proof. exact lookup_parse_wf. Qed.
Print Assumptions C02_parsed_lookups_wf.

(* every character attributed to a glyph is a character of the run submitted for shaping:
   multiple substitution replicates the characters of the replaced glyph, ligature substitution
   carries the characters of its components and invents none *)
Theorem C02_multiple_keeps_characters_partial : forall subs g out,
  multi_expand subs g = Ok out -> Forall (fun o => g_chars o = g_chars g) out.
Proof. exact multiple_replicates_characters. Qed.
Print Assumptions C02_multiple_keeps_characters_partial.

Theorem C02_ligature_keeps_characters_partial : forall mt gd subs fuel l out,
  lig_scan fuel mt gd subs l = Ok out -> Permutation (chars out) (chars l).
Proof. exact ligature_scan_preserves_characters. Qed.
Print Assumptions C02_ligature_keeps_characters_partial.

(* every attachment refers to a glyph inside the run: gpos::apply as a whole (every lookup type, nested
   contextual lookups, kern fallback) keeps the run's length and glyphs and leaves every mark pointing
   at an earlier glyph and every cursive glyph at a later one — for ARBITRARY GPOS/GDEF/kern data *)
Theorem C02_attachments_in_range_partial : forall t gd kern kerning custom script lang l l',
  wf l -> gpos_apply t gd kern kerning custom script lang l = Ok l' ->
  len l' = len l /\ iids l' = iids l /\ wf l'.
Proof. exact attachment_indices_in_range. Qed.
Print Assumptions C02_attachments_in_range_partial.
