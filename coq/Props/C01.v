(* Props/C01.v — untrusted font data is rejected with an error, never a crash.
   The totality theorems of every parser/consumer that has a model: for ALL byte strings / table
   contents / arguments the modelled operation returns a value or an error — never Panic (a Rust
   panic site: indexing, slicing, unwrap, assert, arithmetic overflow in either build mode), never
   OOB, never fuel exhaustion.  Operations without a model are covered by the crash search only
   (see lib/manifest/C01.json); this file grows as models are added. *)
From AV Require Import Base.Prelude Gen.ReaderPrims Model.Reader Model.ReaderExt Proofs.ReaderProofs
  Gen.ContainerLayouts Model.Container Proofs.ContainerTotal Model.Normalize Proofs.NormalizeProofs.
(* models of other properties, referred to by qualified name (their identifiers overlap) *)
From AV Require Model.Cmap Proofs.CmapParseProofs Model.GlyfSubset Proofs.GlyfSubsetProofs
  Model.GlyfOutline Proofs.GlyfCompositeProofs Model.Type2 Proofs.Type2Proofs
  Model.Preprocess Proofs.PreprocessTop
  Model.Woff2 Proofs.Woff2Total Model.Tables Model.CffDict Proofs.CffDictProofs
  Model.FeatureVariations Model.FeatureVariationsSpec Proofs.FeatureVariationsProofs.
Open Scope Z_scope.

(* binary reader: every program of reader operations over every buffer, debug and release *)
Theorem C01_reader_total : forall m ops st,
  rinv st -> Forall op_wf ops -> Forall (fun r => defined (fst r)) (rrun m st ops).
Proof. exact rrun_total. Qed.
Print Assumptions C01_reader_total.

Theorem C01_reader_no_oob : forall m ops st,
  rinv st -> Forall op_wf ops -> Forall (fun r => fst r <> OOB) (rrun m st ops).
Proof. exact rrun_no_oob. Qed.
Print Assumptions C01_reader_no_oob.

(* containers: FontData::read + table_provider(index) + table_data(tag) on every byte string *)
Theorem C01_container_total : forall s idx, file_ok s -> defined (font_provider s idx).
Proof. exact font_provider_total. Qed.
Print Assumptions C01_container_total.

Theorem C01_table_data_total : forall inflate s p tag, defined (provider_table inflate s p tag).
Proof. exact provider_table_total. Qed.
Print Assumptions C01_table_data_total.

(* fvar/avar normalisation on every axis record, avar map and tuple (after fix 05a7993) *)
Theorem C01_normalize_total : forall axes coords avar,
  (exists v, fvar_normalize axes coords avar = Ok v) \/ (exists e, fvar_normalize axes coords avar = Err e).
Proof. exact fvar_normalize_total. Qed.
Print Assumptions C01_normalize_total.

(* cmap: parsing any bytes, looking up any code, enumerating, and the Font-level lookup through any cmap
   table never panic and never read out of bounds (model of C06) *)
Theorem C01_cmap_total : forall d st c cmap first ch,
  CmapParseProofs.safe (Cmap.parse d) /\ CmapParseProofs.safe (Cmap.map_glyph st c) /\
  CmapParseProofs.safe (snd (Cmap.mappings st)) /\ CmapParseProofs.safe (Cmap.font_lookup cmap first ch).
Proof.
  exact (fun d st c cmap first ch =>
    conj (CmapParseProofs.parse_safe d) (conj (CmapParseProofs.map_glyph_safe st c)
      (conj (CmapParseProofs.mappings_safe st) (CmapParseProofs.font_lookup_safe cmap first ch)))).
Qed.
Print Assumptions C01_cmap_total.

(* glyf subsetting and hmtx rebuilding on any table and id list, debug and release (model of C07) *)
Theorem C01_glyf_subset_total : forall tbl ids,
  GlyfSubset.glyf_subset tbl ids <> Panic /\ GlyfSubset.glyf_subset tbl ids <> OOB.
Proof. exact (fun tbl ids => let H := GlyfSubsetProofs.glyf_subset_total tbl ids in conj (proj1 H) (proj1 (proj2 H))). Qed.
Print Assumptions C01_glyf_subset_total.

Theorem C01_create_hmtx_total : forall m hm lsbs nhm olds,
  GlyfSubset.create_hmtx m hm lsbs nhm olds <> Panic /\ GlyfSubset.create_hmtx m hm lsbs nhm olds <> OOB.
Proof. exact GlyfSubsetProofs.create_hmtx_total. Qed.
Print Assumptions C01_create_hmtx_total.

(* TrueType outlines: drawing a parsed simple glyph never fails; composite traversal is depth-bounded (C16) *)
Theorem C01_simple_outline_total : forall sg, exists cmds, GlyfOutline.visit_simple sg = Ok cmds.
Proof. exact GlyfCompositeProofs.visit_simple_total. Qed.
Print Assumptions C01_simple_outline_total.

(* Type 2 charstrings: for every font and charstring, well-formed or not, interpretation ends by the
   nesting limit and never by exhausting the model's recursion budget (subroutines and seac alike) (C18) *)
Theorem C01_charstring_nesting_bounded : forall e, Type2.interp_glyph e <> Type2.CFuel /\ Type2.run_glyph e <> Type2.CFuel.
Proof. exact Type2Proofs.nesting_limit_enforced. Qed.
Print Assumptions C01_charstring_nesting_bounded.

(* text preprocessing is total for every text, script tag and combining-class data (C17) *)
Theorem C01_preprocess_total : forall class cs tag, exists out, Preprocess.preprocess_text class cs tag = Ok out.
Proof. exact PreprocessTop.never_panics. Qed.
Print Assumptions C01_preprocess_total.

(* WOFF2 transformed glyf: for EVERY byte string, in debug and release arithmetic, the decoder returns glyphs
   or a ParseError: no overflow check fires, no index is out of range, BoundingBox::from_points is never
   reached without points, the component loop ends (C11, after the repairs 33c9cfe 86608df 093eba0 aa2eefe) *)
Theorem C01_woff2_glyf_total : forall m s, bytes_ok s = true -> Woff2Total.no_panic (Woff2.read_woff2_glyf m s).
Proof. exact Woff2Total.read_woff2_glyf_total. Qed.
Print Assumptions C01_woff2_glyf_total.

(* CFF / CFF2 DICTs: Dict::read_dep on any byte string and any operand limit returns a DICT or an error (C15) *)
Theorem C01_cff_dict_total : forall maxo b, bytes_ok b = true -> len b < USIZE ->
  CffDictProofs.definite (CffDict.dict_read (Tables.table_ctxt b) maxo).
Proof. exact CffDictProofs.dict_read_definite. Qed.
Print Assumptions C01_cff_dict_total.

(* feature variations: for any layout table bytes shorter than 2^32, once the FeatureVariations table was read
   and a record chosen for a tuple, substituting the feature list never fails (C04) *)
Theorem C01_feature_substitution_total : forall m d fvt tu fv t,
  FeatureVariationsSpec.table_ok d -> FeatureVariations.layout_read_fv m d = Ok fvt ->
  FeatureVariations.feature_variations m fvt tu = Ok fv ->
  exists t', FeatureVariationsSpec.subst_layout m fv t = Ok t'.
Proof. exact FeatureVariationsProofs.substituted_layout_exists. Qed.
Print Assumptions C01_feature_substitution_total.

(* non-vacuity: garbage in, error out *)
Example C01_example_garbage :
  font_provider (scope_new [0; 1; 0; 0; 255; 255; 1]) 3 = Err Eof /\
  font_provider (scope_new [116; 116; 99; 102; 0; 9]) 0 = Err Eof /\
  font_provider (scope_new [1; 2; 3; 4; 5]) 0 = Err BadVersion.
Proof. vm_compute. repeat split; reflexivity. Qed.
