(* Props/C01.v — untrusted font data is rejected with an error, never a crash.
   The totality theorems of every parser/consumer that has a model: for ALL byte strings / table
   contents / arguments the modelled operation returns a value or an error — never Panic (a Rust
   panic site: indexing, slicing, unwrap, assert, arithmetic overflow in either build mode), never
   OOB, never fuel exhaustion.  Operations without a model are covered by the crash search only
   (see lib/manifest/C01.json); this file grows as models are added. *)
From AV Require Import Base.Prelude Gen.ReaderPrims Model.Reader Model.ReaderExt Proofs.ReaderProofs
  Gen.ContainerLayouts Model.Container Proofs.ContainerTotal Model.Normalize Proofs.NormalizeProofs.
Open Scope Z_scope.

(* binary reader: every program of reader operations over every buffer, debug and release *)
Theorem C01_reader_total : forall m ops st,
  rinv st -> Forall op_wf ops -> Forall (fun r => defined (fst r)) (rrun m st ops).
Proof. exact rrun_total. Qed.
Print Assumptions C01_reader_total.

Theorem C01_reader_no_oob : forall m ops st,
  rinv st -> Forall op_wf ops -> Forall (fun r => fst r <> OOB) (rrun m st ops).
Proof. exact rrun_no_oob. Qed.
Print Assumptions C01_reader_no_oob.

(* containers: FontData::read + table_provider(index) + table_data(tag) on every byte string *)
Theorem C01_container_total : forall s idx, file_ok s -> defined (font_provider s idx).
Proof. exact font_provider_total. Qed.
Print Assumptions C01_container_total.

Theorem C01_table_data_total : forall inflate s p tag, defined (provider_table inflate s p tag).
Proof. exact provider_table_total. Qed.
Print Assumptions C01_table_data_total.

(* fvar/avar normalisation on every axis record, avar map and tuple (after fix 05a7993) *)
Theorem C01_normalize_total : forall axes coords avar,
  (exists v, fvar_normalize axes coords avar = Ok v) \/ (exists e, fvar_normalize axes coords avar = Err e).
Proof. exact fvar_normalize_total. Qed.
Print Assumptions C01_normalize_total.

(* non-vacuity: garbage in, error out *)
Example C01_example_garbage :
  font_provider (scope_new [0; 1; 0; 0; 255; 255; 1]) 3 = Err Eof /\
  font_provider (scope_new [116; 116; 99; 102; 0; 9]) 0 = Err Eof /\
  font_provider (scope_new [1; 2; 3; 4; 5]) 0 = Err BadVersion.
Proof. vm_compute. repeat split; reflexivity. Qed.
