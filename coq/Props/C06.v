(* Props/C06.v — the theorems that decide C06 (character-to-glyph mapping conforms to the cmap
   encodings).  Statements only; every proof is `exact <lemma>` and is followed by Print Assumptions.
   Model: Model/Cmap.v (after src/tables/cmap.rs, src/font.rs), Model/MacRoman.v over the tables
   regenerated from src/macroman.rs.  Specification: Model/CmapSpec.v (OpenType text).
   Partial: format 2 (single lookups of the codes the format defines; nothing about mappings_fn).
   Not covered by theorems (correspondence only): Big5 (encoding_rs data). *)
From AV Require Import Base.Prelude Gen.MacRomanTables Gen.CmapPrefs
  Model.MacRoman Model.MacRomanRef Model.Cmap Model.CmapSpec
  Proofs.CmapProofs Proofs.CmapParseProofs Proofs.CmapFormat2Proofs Proofs.MacRomanProofs.
Open Scope Z_scope.

(* ---- 1. single lookups conform to the specification: formats 0, 4, 6, 10, 12 ---------------- *)

(* whatever glyph map_glyph returns is the glyph the OpenType rules of the format assign.
   [well_formed] is True for formats 0/6/10, "start codes do not decrease" for format 4 and
   "groups do not overlap" for format 12 (format 12 does not even need it here). *)
Theorem C06_map_glyph_sound : forall st c g,
  supported st -> well_formed st -> 0 <= c ->
  map_glyph st c = Ok (Some g) -> assigns st c g.
Proof. exact map_glyph_sound. Qed.
Print Assumptions C06_map_glyph_sound.

(* every glyph the rules assign (and that is a 16-bit glyph id) is what map_glyph returns *)
Theorem C06_map_glyph_complete : forall st c g,
  well_formed st -> 0 <= g <= 65535 ->
  assigns st c g -> map_glyph st c = Ok (Some g).
Proof. exact map_glyph_complete. Qed.
Print Assumptions C06_map_glyph_complete.

(* unmapped characters map to glyph 0 *)
Theorem C06_unassigned_is_zero : forall st c,
  supported st -> well_formed st -> 0 <= c ->
  unassigned st c -> glyph_of (map_glyph st c) = 0.
Proof. exact unassigned_is_zero. Qed.
Print Assumptions C06_unassigned_is_zero.

(* format 4 in isolation, with its exact hypotheses: soundness needs sorted start codes,
   completeness needs nothing *)
Theorem C06_format4_sound : forall l ends starts deltas ros gids c g,
  nondecreasing starts -> 0 <= c ->
  map_glyph (F4 l ends starts deltas ros gids) c = Ok (Some g) ->
  assigns (F4 l ends starts deltas ros gids) c g.
Proof. exact f4_sound. Qed.
Print Assumptions C06_format4_sound.

Theorem C06_format4_complete : forall l ends starts deltas ros gids c g,
  assigns (F4 l ends starts deltas ros gids) c g ->
  map_glyph (F4 l ends starts deltas ros gids) c = Ok (Some g).
Proof. exact f4_complete. Qed.
Print Assumptions C06_format4_complete.

(* a format 12 glyph id above 65535 is reported as an error (glyph 0), never truncated *)
Theorem C06_format12_too_large : forall l groups c grp,
  groups_disjoint groups -> In grp groups -> g_start grp <= c <= g_end grp ->
  65535 < g_gid grp + (c - g_start grp) ->
  map_glyph (F12 l groups) c = Err BadValue.
Proof. exact f12_too_large. Qed.
Print Assumptions C06_format12_too_large.

Theorem C06_glyph_is_u16 : forall st c g,
  supported st -> in_range st -> 0 <= c -> map_glyph st c = Ok (Some g) -> 0 <= g <= 65535.
Proof. exact map_glyph_u16. Qed.
Print Assumptions C06_glyph_is_u16.

(* the OpenType ordering conditions imply the hypotheses used above *)
Theorem C06_ordered_is_well_formed : forall st, strictly_well_formed st -> well_formed st.
Proof. exact strictly_well_formed_wf. Qed.
Print Assumptions C06_ordered_is_well_formed.

(* owned::CmapSubtable::map_glyph is the same function *)
Theorem C06_owned_map_glyph : forall st c,
  supported st -> 0 <= c -> owned_map_glyph st c = map_glyph st c.
Proof. exact owned_map_glyph_eq. Qed.
Print Assumptions C06_owned_map_glyph.

(* format 2, PARTIAL: single lookups only, and only for the codes the format defines (a one-byte code
   whose subHeaderKey is 0, a two-byte code whose lead byte has subHeaderKey 8k, k <> 0).  Other codes
   (a lead byte alone, a second byte after a non-lead byte, keys that are not multiples of 8) and the
   format 2 enumeration are covered by correspondence only. *)
Theorem C06_format2_complete_partial : forall l keys headers scope c g,
  len keys = 256 ->
  (forall k sh, get headers k = Some sh -> 0 <= sh_ro sh) ->
  f2_assigns keys headers scope c g ->
  map_glyph (F2 l keys headers scope) c = Ok (Some g).
Proof. exact f2_complete. Qed.
Print Assumptions C06_format2_complete_partial.

Theorem C06_format2_sound_partial : forall l keys headers scope c lo k sh g,
  len keys = 256 -> 0 <= c <= 65535 -> 0 <= sh_ro sh ->
  f2_selects keys c lo k -> get headers k = Some sh ->
  map_glyph (F2 l keys headers scope) c = Ok (Some g) ->
  f2_assigns keys headers scope c g.
Proof. exact f2_sound. Qed.
Print Assumptions C06_format2_sound_partial.

(* ---- 2. enumeration = single lookups ------------------------------------------------------- *)

(* for EVERY sub-table with in-range fields (no ordering hypothesis): the first pair that
   mappings_fn reports for a code is exactly what the single lookup returns, and codes it does not
   report are not mapped.  (`mappings()` keeps the first pair per glyph with or_insert.) *)
Theorem C06_mappings_first : forall st c,
  supported st -> in_range st -> 0 <= c ->
  snd (mappings st) = Ok tt ->
  first_assoc c (fst (mappings st)) = lookup st c.
Proof. exact mappings_first. Qed.
Print Assumptions C06_mappings_first.

Theorem C06_mappings_complete : forall st c g,
  supported st -> in_range st -> 0 <= c ->
  snd (mappings st) = Ok tt ->
  lookup st c = Some g -> In (c, g) (fst (mappings st)).
Proof. exact mappings_complete. Qed.
Print Assumptions C06_mappings_complete.

(* for sub-tables ordered as OpenType requires, no code is reported twice ... *)
Theorem C06_mappings_nodup : forall st,
  supported st -> strictly_well_formed st -> snd (mappings st) = Ok tt ->
  NoDup (map fst (fst (mappings st))).
Proof. exact mappings_nodup. Qed.
Print Assumptions C06_mappings_nodup.

(* ... and the enumeration lists exactly the (code, glyph) pairs that single lookups return *)
Theorem C06_mappings_exact : forall st c g,
  supported st -> in_range st -> strictly_well_formed st -> 0 <= c ->
  snd (mappings st) = Ok tt ->
  (In (c, g) (fst (mappings st)) <-> lookup st c = Some g).
Proof. exact mappings_exact. Qed.
Print Assumptions C06_mappings_exact.

(* every sub-table that CmapSubtable::read accepts has in-range fields, so the enumeration
   theorems apply to everything that parses *)
Theorem C06_parse_in_range : forall d st, bytes_ok d = true -> parse d = Ok st -> in_range st.
Proof. exact parse_in_range. Qed.
Print Assumptions C06_parse_in_range.

Theorem C06_parsed_mappings_first : forall d st c,
  bytes_ok d = true -> parse d = Ok st -> supported st -> 0 <= c ->
  snd (mappings st) = Ok tt ->
  first_assoc c (fst (mappings st)) = lookup st c.
Proof. exact parsed_mappings_first. Qed.
Print Assumptions C06_parsed_mappings_first.

(* a parsed format 4 sub-table has four segment arrays of one length below 2^15 (so the u32
   arithmetic of offset_to_index cannot overflow) *)
Theorem C06_parse4_shape : forall d l ends starts deltas ros gids,
  bytes_ok d = true -> parse4 d = Ok (F4 l ends starts deltas ros gids) ->
  len ends = len starts /\ len deltas = len starts /\ len ros = len starts /\ len starts <= 32767.
Proof. exact parse4_shape. Qed.
Print Assumptions C06_parse4_shape.

(* ---- 3. Mac OS Roman conversions (tables regenerated from src/macroman.rs) ------------------ *)

Theorem C06_macroman_bytes_roundtrip : forall b c,
  0 <= b < 256 -> macroman_to_char b = Some c -> char_to_macroman c = Some b /\ is_char c = true.
Proof. exact macroman_bytes_roundtrip. Qed.
Print Assumptions C06_macroman_bytes_roundtrip.

Theorem C06_macroman_chars_roundtrip : forall c b,
  0 <= c -> char_to_macroman c = Some b -> macroman_to_char b = Some c /\ 0 <= b < 256.
Proof. exact macroman_chars_roundtrip. Qed.
Print Assumptions C06_macroman_chars_roundtrip.

Theorem C06_is_macroman : forall c,
  0 <= c -> (is_macroman c = true <-> exists b, 0 <= b < 256 /\ macroman_to_char b = Some c).
Proof. exact is_macroman_iff. Qed.
Print Assumptions C06_is_macroman.

(* against Apple's published table (Model/MacRomanRef.v): identical wherever the implementation
   decodes a byte, except 0xDB = U+00A4 (the pre-Mac OS 8.5 assignment) *)
Theorem C06_macroman_matches_apple_table : forall b c,
  0 <= b < 256 -> macroman_to_char b = Some c -> c = macroman_ref b \/ (b = 219 /\ c = 164).
Proof. exact macroman_matches_apple_table. Qed.
Print Assumptions C06_macroman_matches_apple_table.

(* KNOWN FINDING C06-macroman-coverage: the table is PDF's MacRomanEncoding; exactly these 15 bytes
   of Mac OS Roman have no character (the round-trip theorems above hold on the other 241) *)
Theorem C06_macroman_undecoded : forall b,
  0 <= b < 256 ->
  (macroman_to_char b = None <->
   In b [173; 176; 178; 179; 182; 183; 184; 185; 186; 189; 195; 197; 198; 215; 240]).
Proof. exact macroman_undecoded. Qed.
Print Assumptions C06_macroman_undecoded.

(* ---- 4. sub-table preference and encoding dispatch ----------------------------------------- *)

(* the cascade regenerated from font.rs is the documented preference list *)
Theorem C06_preferences_are_spec : cmap_preferences = spec_preferences.
Proof. exact preferences_are_spec. Qed.
Print Assumptions C06_preferences_are_spec.

(* the selected record is the first record (table order) matching the first preference (list
   order) that matches any record at all *)
Theorem C06_preference_order : forall recs enc r,
  find_good_cmap_subtable recs = Some (enc, r) -> selected spec_preferences recs enc r.
Proof. exact preference_order. Qed.
Print Assumptions C06_preference_order.

Theorem C06_preference_none : forall recs,
  find_good_cmap_subtable recs = None ->
  forall q e x, In (q, e) spec_preferences -> In x recs -> ~ matches q x.
Proof. exact preference_none. Qed.
Print Assumptions C06_preference_none.

Theorem C06_font_lookup_selected : forall cmap first ch recs enc r,
  parse_cmap cmap = Ok recs -> find_good_cmap_subtable recs = Some (enc, r) ->
  font_lookup cmap first ch = map_unicode_to_glyph cmap enc (er_offset r) first ch.
Proof. exact font_lookup_selected. Qed.
Print Assumptions C06_font_lookup_selected.

(* Font::map_glyph always returns a glyph (never panics): the selected sub-table's glyph, with
   errors, unmapped codes and an unreadable sub-table all giving glyph 0 *)
Theorem C06_font_map_glyph : forall cmap offset code,
  font_map_glyph cmap offset code =
  Ok (match parse (slice_from cmap offset) with
      | Ok st => glyph_of (map_glyph st code)
      | _ => 0
      end).
Proof. exact font_map_glyph_total. Qed.
Print Assumptions C06_font_map_glyph.

(* no panic anywhere in the modelled cmap path (the model has no panicking operation left after
   the fixes; what ties it to the Rust is the correspondence) *)
Theorem C06_no_panic : forall d st c cmap first ch,
  safe (parse d) /\ safe (map_glyph st c) /\ safe (snd (mappings st)) /\ safe (font_lookup cmap first ch).
Proof.
  exact (fun d st c cmap first ch =>
           conj (parse_safe d) (conj (map_glyph_safe st c) (conj (mappings_safe st) (font_lookup_safe cmap first ch)))).
Qed.
Print Assumptions C06_no_panic.

(* F1: an encoding-record offset beyond the cmap table gives glyph 0, not a panic *)
Theorem C06_offset_beyond_table : forall cmap offset code,
  len cmap < offset -> font_map_glyph cmap offset code = Ok 0.
Proof. exact font_map_glyph_offset_beyond. Qed.
Print Assumptions C06_offset_beyond_table.

Theorem C06_dispatch_unicode : forall cmap offset first ch,
  map_unicode_to_glyph cmap EUnicode offset first ch = font_map_glyph cmap offset ch.
Proof. exact dispatch_unicode. Qed.
Print Assumptions C06_dispatch_unicode.

(* legacy symbol remapping: U+F000..U+F0FF fold onto 0x00..0xFF, 0x20 corresponds to
   OS/2.usFirstCharIndex (0x20 when there is no OS/2 table); a code below 0 is glyph 0 *)
Theorem C06_dispatch_symbol : forall cmap offset first ch,
  map_unicode_to_glyph cmap ESymbol offset first ch =
  let b := if (61440 <=? ch) && (ch <=? 61695) then ch - 61440 else ch in
  let f := match first with Some f => f | None => 32 end in
  if 32 <=? b + f then font_map_glyph cmap offset (b + f - 32) else Ok 0.
Proof. exact dispatch_symbol. Qed.
Print Assumptions C06_dispatch_symbol.

Theorem C06_symbol_twin : forall first b,
  0 <= b <= 255 -> legacy_symbol_char_code first (61440 + b) = legacy_symbol_char_code first b.
Proof. exact symbol_twin. Qed.
Print Assumptions C06_symbol_twin.

Theorem C06_dispatch_apple_roman : forall cmap offset first ch,
  map_unicode_to_glyph cmap EAppleRoman offset first ch =
  match char_to_macroman ch with
  | Some b => font_map_glyph cmap offset b
  | None => map_unicode_to_glyph cmap ESymbol offset first ch
  end.
Proof. exact dispatch_apple_roman. Qed.
Print Assumptions C06_dispatch_apple_roman.

(* ---- non-vacuity: the hypotheses are satisfiable and the conclusions are not trivial --------- *)

(* a two-segment format 4 table: [0x41..0x43] through glyphIdArray [7;0;9] with idDelta 3, and the
   final 0xFFFF segment with idDelta 1 *)

Example ex4_ordered : strictly_well_formed ex4.
Proof. cbn. lia. Qed.
Example ex4_A : map_glyph ex4 65 = Ok (Some 10).
Proof. vm_compute. reflexivity. Qed.
(* F9: a zero glyphIdArray entry is the missing glyph even though idDelta = 3 *)
Example ex4_B_missing : map_glyph ex4 66 = Ok (Some 0).
Proof. vm_compute. reflexivity. Qed.
Example ex4_last : map_glyph ex4 65535 = Ok (Some 0).
Proof. vm_compute. reflexivity. Qed.
Example ex4_unmapped : map_glyph ex4 68 = Ok None.
Proof. vm_compute. reflexivity. Qed.
Example ex4_mappings : mappings ex4 = ([(65, 10); (66, 0); (67, 12); (65535, 0)], Ok tt).
Proof. vm_compute. reflexivity. Qed.
(* the specification side, derived without the implementation *)
Example ex4_spec_A : assigns ex4 65 10.
Proof. exact ex4_spec_A_proof. Qed.

(* unsorted start codes: the hypothesis of C06_format4_sound is needed (the model follows the
   implementation's linear scan, the specification stops at the first endCode >= c) *)
Example ex4_unsorted_lookup : map_glyph ex4_unsorted 7 = Ok (Some 7).
Proof. vm_compute. reflexivity. Qed.
Example ex4_unsorted_spec : unassigned ex4_unsorted 7.
Proof. exact ex4_unsorted_spec_proof. Qed.

(* format 2: lead byte 0x81, second byte 0x41 -> glyphIdArray word 300 + idDelta 5; 0x42 -> word 0 = missing *)
Example ex2_lookup : map_glyph ex2 33089 = Ok (Some 305) /\ map_glyph ex2 33090 = Ok (Some 0) /\
                     map_glyph ex2 33091 = Ok (Some 0) /\ map_glyph ex2 65 = Ok (Some 34).
Proof. vm_compute. repeat split; reflexivity. Qed.
Example ex2_spec : f2_assigns ex2_keys ex2_headers ex2_scope 33089 305.
Proof. exact ex2_assigns_two_byte. Qed.

Definition ex12 : subtable := F12 0 [ {| g_start := 65536; g_end := 65540; g_gid := 65533 |} ].
Example ex12_ok : map_glyph ex12 65538 = Ok (Some 65535).
Proof. vm_compute. reflexivity. Qed.
Example ex12_too_large : map_glyph ex12 65539 = Err BadValue.
Proof. vm_compute. reflexivity. Qed.
Example ex12_mappings_stop : mappings ex12 = ([(65536, 65533); (65537, 65534); (65538, 65535)], Err BadValue).
Proof. vm_compute. reflexivity. Qed.

(* F10: the two bytes that were not inverted *)
Example macroman_127 : macroman_to_char 127 = Some 127 /\ char_to_macroman 127 = Some 127.
Proof. vm_compute. split; reflexivity. Qed.
Example macroman_246 : macroman_to_char 246 = Some 710 /\ char_to_macroman 710 = Some 246 /\ char_to_macroman 94 = Some 94.
Proof. vm_compute. repeat split; reflexivity. Qed.

(* witness of the known finding: byte 185 is U+03C0 in Apple's table and has no character here *)
Example macroman_pi_gap : macroman_ref 185 = 960 /\ macroman_to_char 185 = None /\ char_to_macroman 960 = None.
Proof. vm_compute. repeat split; reflexivity. Qed.

(* selection: a (1,0) record before a (3,1) record: the Windows Unicode BMP sub-table wins *)
Example selection_example :
  find_good_cmap_subtable [ {| er_platform := 1; er_encoding := 0; er_offset := 20 |};
                            {| er_platform := 3; er_encoding := 1; er_offset := 282 |} ]
  = Some (EUnicode, {| er_platform := 3; er_encoding := 1; er_offset := 282 |}).
Proof. vm_compute. reflexivity. Qed.
