(* C15: run the extracted table / CFF models on one case line and judge the implementation's
   output against the property (see harness/src/bin/c15.rs for the line formats). *)
open Model
open Zconv
open Verdict

(* ---------- line helpers *)
let nums (s : string) : z list =
  if s = "" || s = "-" || s = "." then [] else List.map z_of_string (split_on ',' s)
let join (l : z list) : string = if l = [] then "-" else zlist_to_string l
let zi = z_of_int
let rec repeat_z (b : z) (n : int) (acc : z list) = if n <= 0 then acc else repeat_z b (n - 1) (b :: acc)
let parse_str (s : string) : z list =
  if s = "-" then []
  else if s.[0] = 'h' then bytes_of_hex (String.sub s 1 (String.length s - 1))
  else if s.[0] = 'r' then begin
    match split_on 'x' (String.sub s 1 (String.length s - 1)) with
    | [l; b] -> repeat_z (zi (int_of_string b)) (int_of_string l) []
    | _ -> failwith "STR"
  end else failwith ("STR " ^ s)
let str_list (s : string) : z list list = if s = "." then [] else List.map parse_str (split_on '+' s)
let hex_list (l : z list list) : string = if l = [] then "." else String.concat "+" (List.map hex_of_bytes l)
let opt_show (o : z list option) : string = match o with Some v -> join v | None -> "-"
let optnums (s : string) : z list option = if s = "-" then None else Some (nums s)
let plus (l : string list) : string = if l = [] then "." else String.concat "+" l

let err_s e = "err:" ^ err_to_string e
let out_s (f : 'a -> string) (o : 'a outcome) : string =
  match o with Ok a -> "ok:" ^ f a | Err e -> err_s e | Panic -> "panic" | OOB -> "oob"
(* a writer's outcome: the bytes in hex *)
let w_s (o : z list outcome) : string =
  match o with Ok b -> hex_of_bytes b | Err e -> err_s e | Panic -> "panic" | OOB -> "oob"

let layouts = [
  "head", (head_read, head_write); "hhea", (hhea_read, hhea_write);
  "maxp_v1", (maxp_v1_read, maxp_v1_write); "posthdr", (post_header_read, post_header_write);
  "lhm", (long_hor_metric_read, long_hor_metric_write); "namerec", (name_record_read, name_record_write);
  "langtag", (langtag_record_read, langtag_record_write); "tablerec", (table_record_read, table_record_write);
  "bbox", (bounding_box_read, bounding_box_write) ]

(* ---------- shows *)
let maxp_show ((ng, sub) : z * z list option) = z_to_string ng ^ "/" ^ opt_show sub
let os2_show (o : os2) =
  String.concat "/" [join o.o_base; opt_show o.o_v0; opt_show o.o_v1; opt_show o.o_v2; opt_show o.o_v5]
let hmtx_show ((hm, ls) : z list list * z list) =
  plus (List.map (fun r -> String.concat ":" (List.map z_to_string r)) hm) ^ "/" ^ join ls
let name_show (n : name_table) =
  let rec_s r = String.concat ":" (List.map z_to_string r) in
  hex_of_bytes n.nt_storage ^ "/" ^ plus (List.map rec_s n.nt_records) ^ "/" ^
  (match n.nt_langtags with None -> "-" | Some l -> plus (List.map rec_s l))
let owned_show ((recs, lts) : (z list * z list) list * z list list) =
  plus (List.map (fun (ids, s) -> String.concat ":" (List.map z_to_string ids) ^ ":" ^ hex_of_bytes s) recs)
  ^ "/" ^ hex_list lts
let glyph_show (g : simple_glyph) =
  String.concat "/" [join g.sg_bbox; join g.sg_endpts; hex_of_bytes g.sg_instr;
    plus (List.map (fun (f, (x, y)) -> String.concat ":" [z_to_string f; z_to_string x; z_to_string y]) g.sg_coords)]
let glyph_read_show (m : mode) (b : z list) : string =
  match glyph_read m (table_ctxt b) with
  | Ok (Some g, _) -> "ok:" ^ glyph_show g
  | Ok (None, _) -> "composite"
  | Err e -> err_s e | Panic -> "panic" | OOB -> "oob"
let op_show (b : z list) : string =
  match op_read (table_ctxt b) with
  | Err e -> err_s e | Panic -> "panic" | OOB -> "oob"
  | Ok (r, c) ->
    let n = z_to_string c.off in
    (match r with
     | OpInt v -> "int:" ^ z_to_string v ^ ":" ^ n
     | OpOperator _ -> "op:" ^ n
     | OpOperator2 _ -> "op:" ^ n
     | OpReal d -> "real:" ^ hex_of_bytes d ^ ":" ^ n)


(* ---------- CFF DICTs: the model side *)
let kind_of (s : string) : dict_kind =
  match s with
  | "top" -> KTop | "font" -> KFont | "priv" -> KPrivate
  | "top2" -> KTop2 | "font2" -> KFont2 | "priv2" -> KPrivate2
  | _ -> failwith ("dict kind " ^ s)
let operand_s (o : operand) : string =
  match o with
  | OInt v -> "i" ^ z_to_string v
  | OOff v -> "o" ^ z_to_string v
  | OReal b -> "r" ^ hex_of_bytes b
let entries_s (d : (z * operand list) list) : string =
  if d = [] then "." else
    String.concat "+" (List.map (fun (op, ops) -> z_to_string op ^ ":" ^ String.concat "," (List.map operand_s ops)) d)
let parse_operand (s : string) : operand =
  let body = String.sub s 1 (String.length s - 1) in
  match s.[0] with
  | 'i' -> OInt (z_of_string body)
  | 'o' -> OOff (z_of_string body)
  | 'r' -> OReal (bytes_of_hex body)
  | _ -> failwith ("operand " ^ s)
let parse_entries (s : string) : (z * operand list) list =
  if s = "." then [] else
    List.map (fun e ->
        match String.index_opt e ':' with
        | Some i ->
          let ops = String.sub e (i + 1) (String.length e - i - 1) in
          (z_of_string (String.sub e 0 i), if ops = "" then [] else List.map parse_operand (split_on ',' ops))
        | None -> failwith ("entry " ^ e)) (split_on '+' s)
let dict_prefix = zi 3
let dict_rd_s (k : dict_kind) (b : z list) : (z * operand list) list outcome * string =
  let r = dict_read (table_ctxt b) (kind_max_operands k) in
  (r, out_s entries_s r)
let dict_pwp_model (ks : string) (b : z list) : string =
  let k = kind_of ks in
  let (r1, s1) = dict_rd_s k b in
  match r1 with
  | Ok d ->
    (match dict_write_dep dict_prefix (kind_defaults k) d [] with
     | Ok (w, n) ->
       let (r2, s2) = dict_rd_s k w in
       let tail = match r2 with
         | Ok d2 -> (match dict_write_dep dict_prefix (kind_defaults k) d2 [] with
             | Ok (w2, _) -> ";w2=" ^ hex_of_bytes w2
             | _ -> ";w2=panic")
         | _ -> "" in
       "r=" ^ s1 ^ ";w=" ^ hex_of_bytes w ^ ";n=" ^ z_to_string n ^ ";r2=" ^ s2 ^ tail
     | _ -> "r=" ^ s1 ^ ";w=panic")
  | _ -> "r=" ^ s1

(* ---------- CFF DICTs: an independent reference, written after Adobe Technical Note #5176
   (sections 4, 9, 15 and tables 3, 9, 10, 23) and the OpenType CFF2 chapter; nothing below uses
   the extracted model.  Operands: integer, offset (an integer that the owning operator declares
   to be an offset; allsorts keeps those apart and writes them in the fixed 5-byte form),
   real (the raw nibble bytes, hex). *)
type sop = SI of int | SO of int | SR of string
let spec_operators =
  [0; 1; 2; 3; 4; 5; 6; 7; 8; 9; 10; 11; 13; 14; 15; 16; 17; 18; 19; 20; 21; 22; 23; 24]
  @ List.map (fun b -> 3072 + b)
    [0; 1; 2; 3; 4; 5; 6; 7; 8; 9; 10; 11; 12; 13; 14; 17; 18; 19; 20; 21; 22; 23; 30; 31; 32; 33; 34; 35; 36; 37; 38]
(* operators whose single operand is an offset; Encoding 0 and 1 name predefined encodings; Private is (size, offset) *)
let spec_offset1 = [15; 17; 19; 3072 + 36; 3072 + 37; 24]
let spec_encoding = 16
let spec_private = 18
let spec_ito (op : int) (ops : sop list) : sop list =
  match ops with
  | [SI v] when op = spec_encoding && v > 1 -> [SO v]
  | [SI v] when List.mem op spec_offset1 -> [SO v]
  | [SI l; SI o] when op = spec_private -> [SO l; SO o]
  | _ -> ops
let deoff (o : sop) : sop = match o with SO v -> SI v | x -> x
let r001 = SR "0a001f" and zero = SI 0
let font_matrix = [r001; zero; zero; r001; zero; zero]
let spec_defaults (kind : string) : (int * sop list) list =
  match kind with
  | "top" ->
    [3072 + 1, [zero]; 3072 + 2, [zero]; 3072 + 3, [SI (-100)]; 3072 + 4, [SI 50]; 3072 + 5, [zero];
     3072 + 6, [SI 2]; 3072 + 7, font_matrix; 5, [zero; zero; zero; zero]; 3072 + 8, [zero];
     15, [SO 0]; 16, [SO 0]; 3072 + 31, [zero]; 3072 + 32, [zero]; 3072 + 33, [zero]; 3072 + 34, [SI 8720]]
  | "priv" ->
    [3072 + 9, [SR "0a039625ff"]; 3072 + 10, [SI 7]; 3072 + 11, [SI 1]; 3072 + 14, [zero]; 3072 + 17, [zero];
     3072 + 18, [SR "0a06ff"]; 3072 + 19, [zero]; 3072 + 8, [zero]; 20, [zero]; 21, [zero]]
  | "top2" -> [3072 + 7, font_matrix]
  | "priv2" ->
    [3072 + 9, [SR "0a039625ff"]; 3072 + 10, [SI 7]; 3072 + 11, [SI 1]; 3072 + 17, [zero];
     3072 + 18, [SR "0a06ff"]; 22, [zero]]
  | _ -> []
let spec_max (kind : string) : int = if kind.[String.length kind - 1] = '2' then 513 else 48
let spec_elide (kind : string) (d : (int * sop list) list) : (int * sop list) list =
  let defs = spec_defaults kind in
  List.filter (fun (op, ops) -> match List.assoc_opt op defs with Some dflt -> dflt <> ops | None -> true) d

let sop_of_string (s : string) : sop =
  let body = String.sub s 1 (String.length s - 1) in
  match s.[0] with
  | 'i' -> SI (int_of_string body) | 'o' -> SO (int_of_string body) | 'r' -> SR body
  | _ -> failwith ("operand " ^ s)
let sentries_of_string (s : string) : (int * sop list) list =
  if s = "." then [] else
    List.map (fun e ->
        match String.index_opt e ':' with
        | Some i ->
          let ops = String.sub e (i + 1) (String.length e - i - 1) in
          (int_of_string (String.sub e 0 i), if ops = "" then [] else List.map sop_of_string (split_on ',' ops))
        | None -> failwith ("entry " ^ e)) (split_on '+' s)
let hexs (l : int list) : string = if l = [] then "-" else String.concat "" (List.map (Printf.sprintf "%02x") l)
let unhexs (s : string) : int list =
  if s = "-" then [] else List.init (String.length s / 2) (fun i -> int_of_string ("0x" ^ String.sub s (2 * i) 2))

(* Table 3: operand encoding (the shortest form that holds the value); offsets in the 5-byte form *)
let be32 (v : int) : int list = let u = v land 0xffffffff in [u lsr 24; (u lsr 16) land 255; (u lsr 8) land 255; u land 255]
let spec_enc_operand (o : sop) : int list =
  match o with
  | SI v when v >= -107 && v <= 107 -> [v + 139]
  | SI v when v >= 108 && v <= 1131 -> let w = v - 108 in [w / 256 + 247; w mod 256]
  | SI v when v >= -1131 && v <= -108 -> let w = - v - 108 in [w / 256 + 251; w mod 256]
  | SI v when v >= -32768 && v <= 32767 -> let u = v land 0xffff in [28; u lsr 8; u land 255]
  | SI v | SO v -> 29 :: be32 v
  | SR h -> 30 :: unhexs h
let spec_enc_operator (op : int) : int list = if op >= 3072 then [12; op - 3072] else [op]
let spec_encode (d : (int * sop list) list) : int list =
  List.concat_map (fun (op, ops) -> List.concat_map spec_enc_operand ops @ spec_enc_operator op) d

(* decoding; None = not a well-formed DICT (reserved byte, undefined operator, truncated operand, more
   than `max` operands before an operator).  Operands after the last operator are dropped. *)
let spec_decode (max : int) (b : int list) : (int * sop list) list option =
  let sext bits v = if v >= 1 lsl (bits - 1) then v - (1 lsl bits) else v in
  let rec real acc l = match l with
    | [] -> None
    | x :: r -> if x lsr 4 = 15 || x land 15 = 15 then Some (List.rev (x :: acc), r) else real (x :: acc) r in
  let rec go (l : int list) (rops : sop list) (acc : (int * sop list) list) =
    let operand o r = if List.length rops + 1 > max then None else go r (o :: rops) acc in
    let operator op r =
      if List.mem op spec_operators then go r [] ((op, spec_ito op (List.rev rops)) :: acc) else None in
    match l with
    | [] -> Some (List.rev acc)
    | 12 :: b1 :: r -> operator (3072 + b1) r
    | 12 :: [] -> None
    | b0 :: r when b0 <= 24 -> operator b0 r
    | 28 :: a :: b :: r -> operand (SI (sext 16 (a * 256 + b))) r
    | 29 :: a :: b :: c :: d :: r -> operand (SI (sext 32 ((((a * 256 + b) * 256) + c) * 256 + d))) r
    | 30 :: r -> (match real [] r with Some (bs, r') -> operand (SR (hexs bs)) r' | None -> None)
    | b0 :: r when b0 >= 32 && b0 <= 246 -> operand (SI (b0 - 139)) r
    | b0 :: b1 :: r when b0 >= 247 && b0 <= 250 -> operand (SI ((b0 - 247) * 256 + b1 + 108)) r
    | b0 :: b1 :: r when b0 >= 251 && b0 <= 254 -> operand (SI (- (b0 - 251) * 256 - b1 - 108)) r
    | _ -> None in
  go b [] []

let i32_fits (v : int) = v >= -2147483648 && v <= 2147483647
(* a real the reader can return: at least one byte, the first 0xF nibble is in the last byte *)
let real_wf (h : string) : bool =
  let b = unhexs h in
  let has x = x lsr 4 = 15 || x land 15 = 15 in
  match List.rev b with
  | [] -> false
  | last :: front -> has last && not (List.exists has front)
let sop_wf (o : sop) = match o with SI v | SO v -> i32_fits v | SR h -> real_wf h

(* generic parse-write-parse line *)

let kvp (s : string) : (string * string) list =
  List.filter_map (fun kv ->
      match String.index_opt kv '=' with
      | Some i -> Some (String.sub kv 0 i, String.sub kv (i + 1) (String.length kv - i - 1))
      | None -> None) (split_on ';' s)
let ishex (s : string) =
  s = "-" || (String.length s mod 2 = 0 && String.length s > 0 &&
              (let ok = ref true in String.iter (fun c -> if not ((c >= '0' && c <= '9') || (c >= 'a' && c <= 'f')) then ok := false) s; !ok))

(* ================================================================================================
   C15, second part: composite glyphs and the cmap writers.
   Model side: text <-> extracted values, the pipelines of harness/src/c15_glyfcmap.rs on the model.
   Reference side (used by the judge only, nothing of the extracted model): decoders / encoders over
   raw byte strings written after the OpenType `glyf` (composite glyph description) and `cmap`
   chapters. *)
let trail_z = [zi 0xa5; zi 0x5a; zi 0x3c]
let sub_after (s : string) (i : int) = String.sub s i (String.length s - i)
(* cases whose written size exceeds this are judged without the model: the extracted list functions
   are not tail recursive *)
let model_limit = 140_000

(* ---------- number lists: v | v*k, runs of 3 and more are written v*k *)
let nl_parse (s : string) : int list =
  if s = "-" || s = "" then [] else
    List.concat (List.map (fun it ->
        match String.index_opt it '*' with
        | Some i ->
          let v = int_of_string (String.sub it 0 i) and k = int_of_string (sub_after it (i + 1)) in
          List.init k (fun _ -> v)
        | None -> [int_of_string it]) (split_on ',' s))
let rle (items : string list) : string =
  if items = [] then "-" else begin
    let buf = Buffer.create 256 and first = ref true in
    let emit s = (if not !first then Buffer.add_char buf ','); first := false; Buffer.add_string buf s in
    let rec go l = match l with
      | [] -> ()
      | x :: _ ->
        let rec count k l = match l with y :: r when y = x -> count (k + 1) r | _ -> (k, l) in
        let (k, rest) = count 0 l in
        if k >= 3 then emit (x ^ "*" ^ string_of_int k) else for _ = 1 to k do emit x done;
        go rest in
    go items; Buffer.contents buf
  end
let nl_show (l : int list) : string = rle (List.map string_of_int l)
let zs (l : int list) : z list = List.map zi l
let ints (l : z list) : int list = List.map z_to_int l

(* ---------- raw byte strings *)
let raw_of_hex (h : string) : string =
  if h = "-" then "" else String.init (String.length h / 2) (fun i -> Char.chr (int_of_string ("0x" ^ String.sub h (2 * i) 2)))
let hex_of_raw (s : string) : string =
  if s = "" then "-" else begin
    let b = Buffer.create (2 * String.length s) in
    String.iter (fun c -> Buffer.add_string b (Printf.sprintf "%02x" (Char.code c))) s; Buffer.contents b
  end
exception Short
let need (s : string) (i : int) (n : int) = if i < 0 || n < 0 || i + n > String.length s then raise Short
let gu8 s i = Char.code s.[i]
let gu16 s i = (gu8 s i lsl 8) lor gu8 s (i + 1)
let gu32 s i = (gu16 s i lsl 16) lor gu16 s (i + 2)
let sx bits v = if v >= 1 lsl (bits - 1) then v - (1 lsl bits) else v
let gi16 s i = sx 16 (gu16 s i)
let gi8 s i = sx 8 (gu8 s i)
let pu8 b v = Buffer.add_char b (Char.chr (v land 255))
let pu16 b v = pu8 b (v lsr 8); pu8 b v
let pu32 b v = pu16 b (v lsr 16); pu16 b v
let hexlen2 (h : string) = if h = "-" then 0 else String.length h / 2

(* ================================================================ composite glyphs *)
type rarg = RB of int | Rb of int | RW of int | Rw of int
type rscale = RNone | RS of int | RX of int * int | RM of int * int * int * int
type rcomp = { rf : int; rg : int; ra1 : rarg; ra2 : rarg; rs : rscale }
type rcg = { rbbox : int list; rcomps : rcomp list; rinstr : string }

let rarg_of_string (s : string) : rarg =
  let v = int_of_string (sub_after s 1) in
  match s.[0] with 'B' -> RB v | 'b' -> Rb v | 'W' -> RW v | 'w' -> Rw v | _ -> failwith ("arg " ^ s)
let rarg_show = function RB v -> "B" ^ string_of_int v | Rb v -> "b" ^ string_of_int v
                       | RW v -> "W" ^ string_of_int v | Rw v -> "w" ^ string_of_int v
let rscale_of_string (s : string) : rscale =
  if s = "-" then RNone else
    match s.[0], List.map int_of_string (split_on '_' (sub_after s 1)) with
    | 's', [a] -> RS a | 'x', [a; b] -> RX (a, b) | 'm', [a; b; c; d] -> RM (a, b, c, d)
    | _ -> failwith ("scale " ^ s)
let rscale_show = function
  | RNone -> "-" | RS a -> Printf.sprintf "s%d" a | RX (a, b) -> Printf.sprintf "x%d_%d" a b
  | RM (a, b, c, d) -> Printf.sprintf "m%d_%d_%d_%d" a b c d
let rcomp_of_string (s : string) : rcomp =
  match split_on ':' s with
  | [f; g; a1; a2; sc] ->
    { rf = int_of_string f land 0x1fef; rg = int_of_string g; ra1 = rarg_of_string a1; ra2 = rarg_of_string a2;
      rs = rscale_of_string sc }
  | _ -> failwith ("comp " ^ s)
let rcomp_show (c : rcomp) : string =
  String.concat ":" [string_of_int c.rf; string_of_int c.rg; rarg_show c.ra1; rarg_show c.ra2; rscale_show c.rs]
let rcomps_of_string (s : string) : rcomp list = if s = "." then [] else List.map rcomp_of_string (split_on '+' s)
let rcg_show (g : rcg) : string =
  "C/" ^ String.concat "," (List.map string_of_int g.rbbox) ^ "/" ^
  (if g.rcomps = [] then "." else String.concat "+" (List.map rcomp_show g.rcomps)) ^ "/" ^ hex_of_raw g.rinstr
let raw_of_str (s : string) : string =
  (* STR = - | h<hex> | r<len>x<byte> *)
  if s = "-" then "" else if s.[0] = 'h' then raw_of_hex (sub_after s 1)
  else match split_on 'x' (sub_after s 1) with
    | [l; b] -> String.make (int_of_string l) (Char.chr (int_of_string b))
    | _ -> failwith ("STR " ^ s)

(* ---- model values *)
let carg_of (a : rarg) : argkind * z =
  match a with RB v -> (AU8, zi v) | Rb v -> (AI8, zi v) | RW v -> (AU16, zi v) | Rw v -> (AI16, zi v)
let rarg_of ((k, v) : argkind * z) : rarg =
  let v = z_to_int v in match k with AU8 -> RB v | AI8 -> Rb v | AU16 -> RW v | AI16 -> Rw v
let ccomp_of (c : rcomp) : ccomp =
  { cc_flags = zi c.rf; cc_gid = zi c.rg; cc_arg1 = carg_of c.ra1; cc_arg2 = carg_of c.ra2;
    cc_scale = (match c.rs with RNone -> None | RS a -> Some (CScale (zi a)) | RX (a, b) -> Some (CXY (zi a, zi b))
                              | RM (a, b, c, d) -> Some (CMatrix (zi a, zi b, zi c, zi d))) }
let rcomp_of (c : ccomp) : rcomp =
  { rf = z_to_int c.cc_flags; rg = z_to_int c.cc_gid; ra1 = rarg_of c.cc_arg1; ra2 = rarg_of c.cc_arg2;
    rs = (match c.cc_scale with None -> RNone | Some (CScale a) -> RS (z_to_int a)
                              | Some (CXY (a, b)) -> RX (z_to_int a, z_to_int b)
                              | Some (CMatrix (a, b, c, d)) -> RM (z_to_int a, z_to_int b, z_to_int c, z_to_int d)) }
let cg_show_m (g : cglyph) : string =
  rcg_show { rbbox = ints g.cg_bbox; rcomps = List.map rcomp_of g.cg_comps;
             rinstr = String.init (List.length g.cg_instr) (let a = Array.of_list g.cg_instr in fun i -> Char.chr (z_to_int a.(i))) }
(* Glyph::read on the model: the shown result and the number of bytes left *)
let cg_read_m (m : mode) (b : z list) : string * int =
  match glyph_read_full m (table_ctxt b) with
  | Ok (GComposite g, c') -> ("ok:" ^ cg_show_m g, List.length b - z_to_int c'.off)
  | Ok (GSimple _, _) -> ("simple", 0)
  | Ok (GEmpty, _) -> ("empty", 0)
  | Err e -> (err_s e, 0) | Panic -> ("panic", 0) | OOB -> ("oob", 0)
let cg_model (m : mode) (bbox : string) (comps : string) (instr : string) : string =
  let g = { cg_bbox = zs (nl_parse bbox); cg_comps = List.map ccomp_of (rcomps_of_string comps); cg_instr = parse_str instr } in
  match glyph_write_full (GComposite g) with
  | Ok b ->
    let (r, rem) = cg_read_m m (b @ trail_z) in
    "w=" ^ hex_of_bytes b ^ ";r=" ^ r ^ (if starts_with "ok:" r then ";rem=" ^ string_of_int rem else "")
  | w -> "w=" ^ w_s w
let cgrd_model (m : mode) (d : z list) : string =
  match glyph_read_full m (table_ctxt d) with
  | Ok (GComposite g, c') ->
    let r = cg_show_m g and n = z_to_string c'.off in
    (match glyph_write_full (GComposite g) with
     | Ok b ->
       let (r2, rem2) = cg_read_m m (b @ trail_z) in
       "r=ok:" ^ r ^ ";n=" ^ n ^ ";w=" ^ hex_of_bytes b ^ ";r2=" ^ r2 ^ (if starts_with "ok:" r2 then ";rem2=" ^ string_of_int rem2 else "")
     | w -> "r=ok:" ^ r ^ ";n=" ^ n ^ ";w=" ^ w_s w)
  | Ok _ -> "r=notcomposite"
  | Err e -> "r=" ^ err_s e | Panic -> "panic" | OOB -> "oob"

(* ---- reference: OpenType glyf, composite glyph description.  Reserved flag bits (4, 13-15) are
   not kept by a reader; of several scale flags the first in the order scale, x-and-y, two-by-two
   counts; instructions follow the last component when ANY component carries WE_HAVE_INSTRUCTIONS *)
let ref_cg_decode (s : string) : (rcg * int) option =
  try
    need s 0 10;
    if gi16 s 0 >= 0 then None else begin
      let bbox = [gi16 s 2; gi16 s 4; gi16 s 6; gi16 s 8] in
      let pos = ref 10 and comps = ref [] and more = ref true and any = ref false in
      while !more do
        need s !pos 4;
        let f = gu16 s !pos land 0x1fef in
        let g = gu16 s (!pos + 2) in
        pos := !pos + 4;
        let words = f land 1 <> 0 and xy = f land 2 <> 0 in
        let rd () =
          if words then begin
            need s !pos 2; let v = if xy then Rw (gi16 s !pos) else RW (gu16 s !pos) in pos := !pos + 2; v
          end else begin
            need s !pos 1; let v = if xy then Rb (gi8 s !pos) else RB (gu8 s !pos) in pos := !pos + 1; v
          end in
        let a1 = rd () in
        let a2 = rd () in
        let f2 () = need s !pos 2; let v = gi16 s !pos in pos := !pos + 2; v in
        let sc =
          if f land 0x8 <> 0 then RS (f2 ())
          else if f land 0x40 <> 0 then (let x = f2 () in let y = f2 () in RX (x, y))
          else if f land 0x80 <> 0 then (let a = f2 () in let b = f2 () in let c = f2 () in let d = f2 () in RM (a, b, c, d))
          else RNone in
        comps := { rf = f; rg = g; ra1 = a1; ra2 = a2; rs = sc } :: !comps;
        if f land 0x100 <> 0 then any := true;
        more := f land 0x20 <> 0
      done;
      let instr =
        if !any then begin
          need s !pos 2; let n = gu16 s !pos in pos := !pos + 2;
          need s !pos n; let r = String.sub s !pos n in pos := !pos + n; r
        end else "" in
      Some ({ rbbox = bbox; rcomps = List.rev !comps; rinstr = instr }, !pos)
    end
  with Short -> None
let cg_any_instr (g : rcg) = List.exists (fun c -> c.rf land 0x100 <> 0) g.rcomps
let ref_cg_encode (g : rcg) : string =
  let b = Buffer.create 64 in
  pu16 b 0xffff; List.iter (pu16 b) g.rbbox;
  List.iter (fun c ->
      pu16 b c.rf; pu16 b c.rg;
      List.iter (fun a -> match a with RB v | Rb v -> pu8 b v | RW v | Rw v -> pu16 b v) [c.ra1; c.ra2];
      (match c.rs with RNone -> () | RS a -> pu16 b a | RX (x, y) -> pu16 b x; pu16 b y
                     | RM (p, q, r, t) -> pu16 b p; pu16 b q; pu16 b r; pu16 b t)) g.rcomps;
  if cg_any_instr g then begin pu16 b (String.length g.rinstr); Buffer.add_string b g.rinstr end;
  Buffer.contents b
let in_i16 v = v >= -32768 && v <= 32767
(* a value the format can hold and a reader can return: the round-trip domain *)
let cg_consistent (g : rcg) : bool =
  let n = List.length g.rcomps in
  n > 0 && List.for_all in_i16 g.rbbox && List.length g.rbbox = 4 &&
  List.for_all (fun x -> x) (List.mapi (fun i c ->
      let words = c.rf land 1 <> 0 and xy = c.rf land 2 <> 0 in
      let arg_ok a = match a with
        | RB v -> (not words) && (not xy) && v >= 0 && v <= 255
        | Rb v -> (not words) && xy && v >= -128 && v <= 127
        | RW v -> words && (not xy) && v >= 0 && v <= 65535
        | Rw v -> words && xy && in_i16 v in
      let form = if c.rf land 0x8 <> 0 then 1 else if c.rf land 0x40 <> 0 then 2 else if c.rf land 0x80 <> 0 then 3 else 0 in
      let sc_ok = match c.rs with
        | RNone -> form = 0 | RS a -> form = 1 && in_i16 a | RX (a, b) -> form = 2 && in_i16 a && in_i16 b
        | RM (a, b, c, d) -> form = 3 && in_i16 a && in_i16 b && in_i16 c && in_i16 d in
      c.rf land (lnot 0x1fef) = 0 && c.rg >= 0 && c.rg <= 65535 && arg_ok c.ra1 && arg_ok c.ra2 && sc_ok &&
      ((c.rf land 0x20 <> 0) = (i < n - 1))) g.rcomps)
(* the size of what a writer emits for the value as it is typed (argument variants, scale form) *)
let cg_size (g : rcg) : int =
  10 + List.fold_left (fun a c ->
      let asz = function RB _ | Rb _ -> 1 | RW _ | Rw _ -> 2 in
      a + 4 + asz c.ra1 + asz c.ra2 + (match c.rs with RNone -> 0 | RS _ -> 2 | RX _ -> 4 | RM _ -> 8)) 0 g.rcomps
  + (if cg_any_instr g then 2 + String.length g.rinstr else 0)
let cg_norm (g : rcg) : rcg = if cg_any_instr g then g else { g with rinstr = "" }

(* cg|MODE|BBOX|COMPS|INSTR *)
let judge_cg (p : string array) (impl : string) : (string * string) option =
  let g = { rbbox = nl_parse p.(2); rcomps = rcomps_of_string p.(3); rinstr = raw_of_str p.(4) } in
  let ip = kvp impl in
  let get k = try Some (List.assoc k ip) with Not_found -> None in
  let any = cg_any_instr g and ilen = String.length g.rinstr in
  match get "w" with
  | None -> None
  | Some w when not (ishex w) ->
    if any && ilen > 65535 then (if w = "err:BadValue" then None else Some ("refusal", "instruction length beyond 16 bits refused with " ^ w))
    else Some ("refusal", "a composite glyph within the format limits was not written: " ^ w)
  | Some w ->
    let wr = raw_of_hex w in
    if any && ilen > 65535 then
      Some ("truncation", Printf.sprintf "%d instruction bytes do not fit instructionLength but the glyph was written" ilen)
    else if String.length wr <> cg_size g then begin
      let base = cg_size g - (if any then 2 + ilen else 0) in
      if String.length wr = base || String.length wr = base + 2 + ilen then
        Some ("instructions", Printf.sprintf "%d bytes written, %d expected: instructionLength and instructions are written iff some component carries WE_HAVE_INSTRUCTIONS (here: %b)"
                (String.length wr) (cg_size g) any)
      else
        Some ("truncation", Printf.sprintf "%d bytes written, the fields of the value take %d: an argument or a scale was not written in the width of its type"
                (String.length wr) (cg_size g))
    end
    else if not (cg_consistent g) then None
    else if wr <> ref_cg_encode g then Some ("roundtrip", "written bytes are not the encoding of the glyph: expected " ^ hex_of_raw (ref_cg_encode g))
    else if get "r" <> Some ("ok:" ^ rcg_show (cg_norm g)) then
      Some ("roundtrip", "read(write(g)) <> g: " ^ (match get "r" with Some r -> r | None -> "?"))
    else if get "rem" <> Some "3" then Some ("consumed", "the reader did not stop at the end of the written glyph")
    else None

(* the composite branch of glyphrd|MODE|HEX *)
let judge_cgrd (hexin : string) (impl : string) : (string * string) option =
  let ip = kvp impl in
  let get k = try Some (List.assoc k ip) with Not_found -> None in
  let reference = ref_cg_decode (raw_of_hex hexin) in
  match get "r" with
  | Some r when starts_with "ok:C/" r ->
    (match reference with
     | None -> Some ("decode", "a composite glyph was read where the reference decoder finds none")
     | Some (g, n) ->
       if r <> "ok:" ^ rcg_show g then Some ("decode", "Glyph::read differs from the reference decoding " ^ rcg_show g)
       else if get "n" <> Some (string_of_int n) then Some ("consumed", Printf.sprintf "the glyph occupies %d bytes, the reader consumed %s" n (match get "n" with Some x -> x | None -> "?"))
       else match get "w" with
         | None -> None
         | Some w when not (ishex w) -> Some ("refusal", "a parsed composite glyph was not written: " ^ w)
         | Some w ->
           if raw_of_hex w <> ref_cg_encode g then Some ("roundtrip", "written bytes are not the encoding of the parsed glyph " ^ hex_of_raw (ref_cg_encode g))
           else if get "r2" <> Some r then Some ("stability", "parse(write(parse(b))) <> parse(b): " ^ (match get "r2" with Some x -> x | None -> "?"))
           else if get "rem2" <> Some "3" then Some ("consumed", "the re-read did not stop at the end of the written glyph")
           else None)
  | Some r when starts_with "err:" r ->
    (match reference with
     | Some _ -> Some ("refusal", "a well-formed composite glyph was refused by the reader: " ^ r)
     | None -> None)
  | _ -> None

(* ================================================================ cmap sub-tables *)
type rst =
  | R0 of int * int list
  | R2 of int * int list * int
  | R4 of int * int list * int list * int list * int list * int list
  | R6 of int * int * int list
  | R10 of int * int * int list
  | R12 of int * (int * int * int) list

let groups_parse (s : string) : (int * int * int) list =
  if s = "-" then [] else
    List.concat (List.map (fun it ->
        let (g, k) = match String.index_opt it '*' with
          | Some i -> (String.sub it 0 i, int_of_string (sub_after it (i + 1)))
          | None -> (it, 1) in
        match List.map int_of_string (split_on '_' g) with
        | [a; b; c] -> List.init k (fun _ -> (a, b, c))
        | _ -> failwith ("group " ^ it)) (split_on ',' s))
let groups_show (gs : (int * int * int) list) : string = rle (List.map (fun (a, b, c) -> Printf.sprintf "%d_%d_%d" a b c) gs)
let rst_of_string (s : string) : rst =
  match split_on ':' s with
  | ["0"; l; g] -> R0 (int_of_string l, nl_parse g)
  | ["2"; l; k; n] -> R2 (int_of_string l, nl_parse k, int_of_string n)
  | ["4"; l; e; st; d; r; g] -> R4 (int_of_string l, nl_parse e, nl_parse st, nl_parse d, nl_parse r, nl_parse g)
  | ["6"; l; f; g] -> R6 (int_of_string l, int_of_string f, nl_parse g)
  | ["10"; l; f; g] -> R10 (int_of_string l, int_of_string f, nl_parse g)
  | ["12"; l; g] -> R12 (int_of_string l, groups_parse g)
  | _ -> failwith ("ST " ^ (if String.length s > 40 then String.sub s 0 40 else s))
let rst_show (st : rst) : string =
  let i = string_of_int in
  match st with
  | R0 (l, g) -> String.concat ":" ["0"; i l; nl_show g]
  | R2 (l, k, n) -> String.concat ":" ["2"; i l; nl_show k; i n]
  | R4 (l, e, s, d, r, g) -> String.concat ":" ["4"; i l; nl_show e; nl_show s; nl_show d; nl_show r; nl_show g]
  | R6 (l, f, g) -> String.concat ":" ["6"; i l; i f; nl_show g]
  | R10 (l, f, g) -> String.concat ":" ["10"; i l; i f; nl_show g]
  | R12 (l, g) -> String.concat ":" ["12"; i l; groups_show g]
let rec pad_ints (n : int) (l : int list) : int list =
  if n = 0 then [] else match l with [] -> 0 :: pad_ints (n - 1) [] | x :: r -> x :: pad_ints (n - 1) r
(* CmapSubtable::to_owned: format 0 becomes a 256 byte array, format 2 has no owned form *)
let rst_to_owned (st : rst) : rst option =
  match st with R0 (l, g) -> Some (R0 (l, pad_ints 256 g)) | R2 _ -> None | _ -> Some st
let rst_wf (st : rst) : bool =
  match st with
  | R0 (_, g) -> List.length g = 256
  | R4 (_, e, s, d, r, _) -> let n = List.length s in List.length e = n && List.length d = n && List.length r = n
  | R2 _ -> false
  | _ -> true
let rst_size (st : rst) : int =
  let n = List.length in
  match st with
  | R0 (_, g) -> 6 + n g
  | R2 _ -> 0
  | R4 (_, e, s, d, r, g) -> 16 + 2 * (n e + n s + n d + n r + n g)
  | R6 (_, _, g) -> 10 + 2 * n g
  | R10 (_, _, g) -> 20 + 2 * n g
  | R12 (_, g) -> 16 + 12 * n g
(* every count and length of the encoding fits its field *)
let rst_fits (st : rst) : bool =
  match st with
  | R0 _ -> rst_size st <= 65535
  | R2 _ -> false
  | R4 (_, _, s, _, _, _) -> rst_size st <= 65535 && 2 * List.length s <= 65535
  | R6 (_, _, g) -> rst_size st <= 65535 && List.length g <= 65535
  | R10 (_, _, g) -> rst_size st <= 0xffffffff && List.length g <= 0xffffffff
  | R12 (_, g) -> rst_size st <= 0xffffffff && List.length g <= 0xffffffff

(* ---- model values *)
let st_of_rst (r : rst) : subtable =
  match r with
  | R0 (l, g) -> F0 (zi l, zs g)
  | R2 _ -> failwith "format 2 value"
  | R4 (l, e, s, d, r, g) -> F4 (zi l, zs e, zs s, zs d, zs r, zs g)
  | R6 (l, f, g) -> F6 (zi l, zi f, zs g)
  | R10 (l, f, g) -> F10 (zi l, zi f, zs g)
  | R12 (l, g) -> F12 (zi l, List.map (fun (a, b, c) -> { g_start = zi a; g_end = zi b; g_gid = zi c }) g)
let rst_of_st (st : subtable) : rst =
  match st with
  | F0 (l, g) -> R0 (z_to_int l, ints g)
  | F2 (l, k, h, _) -> R2 (z_to_int l, ints k, List.length h)
  | F4 (l, e, s, d, r, g) -> R4 (z_to_int l, ints e, ints s, ints d, ints r, ints g)
  | F6 (l, f, g) -> R6 (z_to_int l, z_to_int f, ints g)
  | F10 (l, f, g) -> R10 (z_to_int l, z_to_int f, ints g)
  | F12 (l, g) -> R12 (z_to_int l, List.map (fun x -> (z_to_int x.g_start, z_to_int x.g_end, z_to_int x.g_gid)) g)
let st_show_m (st : subtable) : string = rst_show (rst_of_st st)
let write_via (owned : bool) (st : subtable) : z list outcome option =
  if owned then (match to_owned st with Some o -> Some (sub_write o) | None -> None) else Some (sub_write st)
let cms_model (owned : bool) (stext : string) : string =
  let r = rst_of_string stext in
  if rst_size r > model_limit && rst_fits r then "n/a:big" else
  match write_via owned (st_of_rst r) with
  | Some (Ok b) -> "w=" ^ hex_of_bytes b ^ ";r=" ^ out_s st_show_m (parse (b @ trail_z))
  | Some w -> "w=" ^ w_s w
  | None -> "w=none"
let cmsrd_model (owned : bool) (d : z list) : string =
  match parse d with
  | Ok st ->
    let r = st_show_m st in
    (match write_via owned st with
     | None -> "r=ok:" ^ r ^ ";w=none"
     | Some (Ok b) ->
       (match parse (b @ trail_z) with
        | Ok st2 ->
          let w2 = match write_via owned st2 with
            | Some (Ok b2) when b2 = b -> "same"
            | Some w2 -> w_s w2
            | None -> "none" in
          "r=ok:" ^ r ^ ";w=" ^ hex_of_bytes b ^ ";r2=ok:" ^ st_show_m st2 ^ ";w2=" ^ w2
        | o -> "r=ok:" ^ r ^ ";w=" ^ hex_of_bytes b ^ ";r2=" ^ out_s st_show_m o)
     | Some w -> "r=ok:" ^ r ^ ";w=" ^ w_s w)
  | o -> "r=" ^ out_s st_show_m o

(* ---- reference: OpenType cmap chapter.  A reader takes: format 0 with length >= 262; format 4 with
   an even segCountX2, length >= 16 + 8 segCount and an even remainder (the glyphIdArray is what the
   length leaves); formats 6 / 10 / 12 by their counts (reserved = 0); format 2 by its keys *)
let ref_st_decode (s : string) (pos : int) : rst option =
  try
    need s pos 2;
    let u16s at n = List.init n (fun i -> gu16 s (at + 2 * i)) in
    match gu16 s pos with
    | 0 ->
      need s pos 6;
      if gu16 s (pos + 2) < 262 then None
      else (need s (pos + 6) 256; Some (R0 (gu16 s (pos + 4), List.init 256 (fun i -> gu8 s (pos + 6 + i)))))
    | 2 ->
      need s pos 518;
      let keys = u16s (pos + 6) 256 in
      let mx = List.fold_left (fun a k -> max a (k / 8)) 0 keys in
      need s (pos + 518) (8 * (mx + 1));
      Some (R2 (gu16 s (pos + 4), keys, mx + 1))
    | 4 ->
      need s pos 14;
      let length = gu16 s (pos + 2) and x2 = gu16 s (pos + 6) in
      if x2 land 1 <> 0 then None else begin
        let n = x2 / 2 in
        need s (pos + 14) (8 * n + 2);
        let ends = u16s (pos + 14) n in
        let starts = u16s (pos + 16 + 2 * n) n in
        let deltas = List.map (sx 16) (u16s (pos + 16 + 4 * n) n) in
        let ros = u16s (pos + 16 + 6 * n) n in
        let base = 16 + 8 * n in
        if length < base || (length - base) land 1 <> 0 then None else begin
          let k = (length - base) / 2 in
          need s (pos + base) (2 * k);
          Some (R4 (gu16 s (pos + 4), ends, starts, deltas, ros, u16s (pos + base) k))
        end
      end
    | 6 ->
      need s pos 10;
      let n = gu16 s (pos + 8) in
      need s (pos + 10) (2 * n);
      Some (R6 (gu16 s (pos + 4), gu16 s (pos + 6), u16s (pos + 10) n))
    | 10 ->
      need s pos 20;
      if gu16 s (pos + 2) <> 0 then None else begin
        let n = gu32 s (pos + 16) in
        need s (pos + 20) (2 * n);
        Some (R10 (gu32 s (pos + 8), gu32 s (pos + 12), u16s (pos + 20) n))
      end
    | 12 ->
      need s pos 16;
      if gu16 s (pos + 2) <> 0 then None else begin
        let n = gu32 s (pos + 12) in
        need s (pos + 16) (12 * n);
        Some (R12 (gu32 s (pos + 8), List.init n (fun i ->
            let a = pos + 16 + 12 * i in (gu32 s a, gu32 s (a + 4), gu32 s (a + 8)))))
      end
    | _ -> None
  with Short -> None
let rec pow2_le (n : int) (p : int) : int = if 2 * p <= n then pow2_le n (2 * p) else p
let rec ilog2 (n : int) : int = if n <= 1 then 0 else 1 + ilog2 (n / 2)
(* the encoding: every length / count field is the true size; searchRange = 2 * 2^floor(log2 segCount),
   entrySelector = log2(searchRange / 2), rangeShift = 2 * segCount - searchRange (all 0 without
   segments); reservedPad = 0 *)
let ref_st_encode (st : rst) : string =
  let b = Buffer.create 256 in
  let size = rst_size st in
  (match st with
   | R0 (l, g) -> pu16 b 0; pu16 b size; pu16 b l; List.iter (pu8 b) g
   | R2 _ -> ()
   | R4 (l, e, s, d, r, g) ->
     let n = List.length s in
     let sr = if n = 0 then 0 else 2 * pow2_le n 1 in
     pu16 b 4; pu16 b size; pu16 b l; pu16 b (2 * n); pu16 b sr; pu16 b (ilog2 (sr / 2)); pu16 b (2 * n - sr);
     List.iter (pu16 b) e; pu16 b 0; List.iter (pu16 b) s; List.iter (pu16 b) d; List.iter (pu16 b) r; List.iter (pu16 b) g
   | R6 (l, f, g) -> pu16 b 6; pu16 b size; pu16 b l; pu16 b f; pu16 b (List.length g); List.iter (pu16 b) g
   | R10 (l, f, g) -> pu16 b 10; pu16 b 0; pu32 b size; pu32 b l; pu32 b f; pu32 b (List.length g); List.iter (pu16 b) g
   | R12 (l, g) ->
     pu16 b 12; pu16 b 0; pu32 b size; pu32 b l; pu32 b (List.length g);
     List.iter (fun (x, y, z) -> pu32 b x; pu32 b y; pu32 b z) g);
  Buffer.contents b
(* "nothing truncated": the length and count fields of written bytes against the true sizes *)
let st_fields_check (st : rst) (w : string) : string option =
  let n = String.length w in
  let bad what field true_ = Some (Printf.sprintf "%s field is %d, the true value is %d" what field true_) in
  try
    match st with
    | R0 _ -> need w 0 4; if gu16 w 2 <> n then bad "length" (gu16 w 2) n else None
    | R4 (_, _, s, _, _, _) ->
      need w 0 8;
      if gu16 w 2 <> n then bad "length" (gu16 w 2) n
      else if gu16 w 6 <> 2 * List.length s then bad "segCountX2" (gu16 w 6) (2 * List.length s) else None
    | R6 (_, _, g) ->
      need w 0 10;
      if gu16 w 2 <> n then bad "length" (gu16 w 2) n
      else if gu16 w 8 <> List.length g then bad "entryCount" (gu16 w 8) (List.length g) else None
    | R10 (_, _, g) ->
      need w 0 20;
      if gu32 w 4 <> n then bad "length" (gu32 w 4) n
      else if gu32 w 16 <> List.length g then bad "numChars" (gu32 w 16) (List.length g) else None
    | R12 (_, g) ->
      need w 0 16;
      if gu32 w 4 <> n then bad "length" (gu32 w 4) n
      else if gu32 w 12 <> List.length g then bad "numGroups" (gu32 w 12) (List.length g) else None
    | R2 _ -> None
  with Short -> Some "the written sub-table is shorter than its header"

(* cms|MODE|b/o|ST *)
let judge_cms (p : string array) (impl : string) : (string * string) option =
  let ip = kvp impl in
  let get k = try Some (List.assoc k ip) with Not_found -> None in
  let st0 = rst_of_string p.(3) in
  match (if p.(2) = "o" then rst_to_owned st0 else Some st0) with
  | None -> None
  | Some st ->
    match get "w" with
    | None -> None
    | Some w when ishex w ->
      let wr = raw_of_hex w in
      (match st_fields_check st wr with
       | Some msg -> Some ("truncation", "written with a field that is not the true size: " ^ msg)
       | None ->
         if not (rst_fits st) then Some ("truncation", Printf.sprintf "a sub-table of %d bytes does not fit its length / count fields but was written" (rst_size st))
         else if not (rst_wf st) then None
         else if wr <> ref_st_encode st then Some ("roundtrip", "written bytes are not the encoding of the sub-table")
         else if get "r" <> Some ("ok:" ^ rst_show st) then Some ("roundtrip", "read(write(st)) <> st")
         else None)
    | Some w ->
      if rst_fits st then Some ("refusal", Printf.sprintf "a sub-table of %d bytes fits its fields but was refused: %s" (rst_size st) w)
      else if w <> "err:BadValue" then Some ("refusal", "too wide a sub-table refused with " ^ w ^ ", not BadValue")
      else None

(* cmsrd|MODE|b/o|HEX *)
let judge_cmsrd (owned : bool) (hexin : string) (impl : string) : (string * string) option =
  let ip = kvp impl in
  let get k = try Some (List.assoc k ip) with Not_found -> None in
  let reference = ref_st_decode (raw_of_hex hexin) 0 in
  match get "r" with
  | Some r when starts_with "ok:" r ->
    (match reference with
     | None -> Some ("decode", "a sub-table was read where the reference decoder finds none")
     | Some st ->
       if r <> "ok:" ^ rst_show st then Some ("decode", "CmapSubtable::read differs from the reference decoding")
       else begin
         let target = if owned then rst_to_owned st else Some st in
         match get "w", target with
         | None, _ -> None
         | Some "none", None -> None
         | Some "none", Some _ -> Some ("refusal", "to_owned returned None for a format other than 2")
         | Some w, None -> Some ("refusal", "format 2 has no owned form, yet: " ^ w)
         | Some w, Some t when not (ishex w) ->
           (match t with
            | R2 _ -> if w = "err:NotImplemented" then None else Some ("refusal", "format 2: " ^ w)
            | _ ->
              if rst_fits t then Some ("refusal", "a parsed sub-table that fits its fields was not written: " ^ w)
              else if w = "err:BadValue" then None else Some ("refusal", "too wide a sub-table refused with " ^ w))
         | Some w, Some t ->
           let wr = raw_of_hex w in
           (match st_fields_check t wr with
            | Some msg -> Some ("truncation", "written with a field that is not the true size: " ^ msg)
            | None ->
              if not (rst_fits t) then Some ("truncation", "a parsed sub-table that does not fit its fields was written")
              else if wr <> ref_st_encode t then Some ("roundtrip", "written bytes are not the encoding of the parsed sub-table")
              else if get "r2" <> Some ("ok:" ^ rst_show t) then Some ("stability", "parse(write(parse(b))) <> parse(b)")
              else if get "w2" <> Some "same" then Some ("stability", "write(parse(write(st))) <> write(st)")
              else None)
       end)
  | Some r when starts_with "err:" r ->
    (match reference with
     | Some _ -> Some ("refusal", "a sub-table the reference decoder reads was refused: " ^ r)
     | None -> None)
  | _ -> None

(* ================================================================ the cmap table *)
let recs_parse (s : string) : (int * int * string) list =
  if s = "." then [] else
    List.concat (List.map (fun r ->
        let (r, k) = match String.index_opt r '^' with
          | Some i -> (String.sub r 0 i, int_of_string (sub_after r (i + 1)))
          | None -> (r, 1) in
        match split_on '/' r with
        | [p; e; st] -> List.init k (fun _ -> (int_of_string p, int_of_string e, st))
        | _ -> failwith "REC") (split_on '+' s))
let recs_show (l : (int * int * int * rst) list) : string =
  if l = [] then "." else String.concat "+" (List.map (fun (p, e, o, st) -> Printf.sprintf "%d/%d/%d/%s" p e o (rst_show st)) l)

(* model: Cmap::read and every record's sub-table; the error carries the index of the record *)
let cmap_read_m (d : z list) : string * (enc_rec * subtable) list option =
  match cmap_read_all d with
  | Ok l ->
    ("ok:" ^ recs_show (List.map (fun (r, st) -> (z_to_int r.er_platform, z_to_int r.er_encoding, z_to_int r.er_offset, rst_of_st st)) l), Some l)
  | o ->
    (match parse_cmap d with
     | Ok recs ->
       let rec first i = function
         | [] -> i
         | r :: rest -> (match parse (slice_from d r.er_offset) with Ok _ -> first (i + 1) rest | _ -> i) in
       (out_s (fun _ -> "") o ^ "@" ^ string_of_int (first 0 recs), None)
     | _ -> (out_s (fun _ -> "") o, None))
let crec_size (recs : (int * int * rst) list) : int = List.fold_left (fun a (_, _, st) -> a + 8 + rst_size st) 4 recs
let cmapv_model (recs : (int * int * string) list) : string =
  let rr = List.map (fun (p, e, s) -> (p, e, rst_of_string s)) recs in
  if List.length rr <= 65535 && crec_size rr > model_limit then "n/a:big" else
  let crecs = List.map (fun (p, e, st) ->
      match to_owned (st_of_rst st) with
      | Some o -> { cr_platform = zi p; cr_encoding = zi e; cr_sub = o }
      | None -> failwith "format 2 record") rr in
  match cmap_write crecs with
  | Ok b -> "w=" ^ hex_of_bytes b ^ ";r=" ^ fst (cmap_read_m b)
  | w -> "w=" ^ w_s w
let cmaprd_model (d : z list) : string =
  let (r, l) = cmap_read_m d in
  match l with
  | None -> "r=" ^ r
  | Some l ->
    (match owned_records l with
     | None -> "r=" ^ r ^ ";w=none"
     | Some crecs ->
       (match cmap_write crecs with
        | Ok b -> "r=" ^ r ^ ";w=" ^ hex_of_bytes b ^ ";r2=" ^ fst (cmap_read_m b)
        | w -> "r=" ^ r ^ ";w=" ^ w_s w))

(* reference: header (version 0, numTables), 8-byte encoding records, sub-tables at their offsets *)
let ref_cmap_decode (s : string) : (int * int * int * rst) list option =
  try
    need s 0 4;
    if gu16 s 0 <> 0 then None else begin
      let n = gu16 s 2 in
      need s 4 (8 * n);
      let rec go i acc =
        if i = n then Some (List.rev acc) else begin
          let a = 4 + 8 * i in
          let off = gu32 s (a + 4) in
          match (if off > String.length s then None else ref_st_decode s off) with
          | Some st -> go (i + 1) ((gu16 s a, gu16 s (a + 2), off, st) :: acc)
          | None -> None
        end in
      go 0 []
    end
  with Short -> None
(* header only: Some n when the header and the n records are there *)
let ref_cmap_header (s : string) : int option =
  try need s 0 4; if gu16 s 0 <> 0 then None else (need s 4 (8 * gu16 s 2); Some (gu16 s 2)) with Short -> None
let ref_cmap_offsets (recs : (int * int * rst) list) : int list =
  let n = List.length recs in
  let (_, offs) = List.fold_left (fun (pos, acc) (_, _, st) -> (pos + rst_size st, pos :: acc)) (4 + 8 * n, []) recs in
  List.rev offs
let ref_cmap_fits (recs : (int * int * rst) list) : bool =
  List.length recs <= 65535 && List.for_all (fun (_, _, st) -> rst_fits st) recs &&
  List.for_all (fun o -> o <= 0xffffffff) (ref_cmap_offsets recs)
let ref_cmap_encode (recs : (int * int * rst) list) : string =
  let b = Buffer.create 1024 in
  pu16 b 0; pu16 b (List.length recs);
  List.iter2 (fun (p, e, _) o -> pu16 b p; pu16 b e; pu32 b o) recs (ref_cmap_offsets recs);
  List.iter (fun (_, _, st) -> Buffer.add_string b (ref_st_encode st)) recs;
  Buffer.contents b
(* the written table against the value: numTables and every offset field are the true ones *)
let cmap_fields_check (recs : (int * int * rst) list) (w : string) : string option =
  try
    need w 0 4;
    let n = List.length recs in
    if gu16 w 2 <> n then Some (Printf.sprintf "numTables field is %d, %d records were given" (gu16 w 2) n)
    else begin
      need w 4 (8 * n);
      let offs = ref_cmap_offsets recs in
      let rec go i = function
        | [] -> None
        | o :: r -> if gu32 w (4 + 8 * i + 4) <> o then Some (Printf.sprintf "offset field of record %d is %d, its sub-table starts at %d" i (gu32 w (4 + 8 * i + 4)) o) else go (i + 1) r in
      go 0 offs
    end
  with Short -> Some "the written table is shorter than its header"

(* cmapv|MODE|RECS *)
let judge_cmapv (p : string array) (impl : string) : (string * string) option =
  let ip = kvp impl in
  let get k = try Some (List.assoc k ip) with Not_found -> None in
  let recs = List.filter_map (fun (pl, e, s) -> match rst_to_owned (rst_of_string s) with Some st -> Some (pl, e, st) | None -> None) (recs_parse p.(2)) in
  let fits = ref_cmap_fits recs in
  let wf = List.for_all (fun (_, _, st) -> rst_wf st) recs in
  match get "w" with
  | None -> None
  | Some w when ishex w ->
    let wr = raw_of_hex w in
    if not fits then Some ("truncation", "a cmap table whose record count, an offset or a sub-table does not fit its field was written")
    else (match cmap_fields_check recs wr with
        | Some msg -> Some ("offset", msg)
        | None ->
          if not wf then None
          else if wr <> ref_cmap_encode recs then Some ("roundtrip", "written bytes are not the encoding of the table")
          else begin
            let expect = "ok:" ^ recs_show (List.map2 (fun (pl, e, st) o -> (pl, e, o, st)) recs (ref_cmap_offsets recs)) in
            if get "r" <> Some expect then Some ("roundtrip", "read(write(cmap)) <> cmap") else None
          end)
  | Some w ->
    if fits then Some ("refusal", "a cmap table that fits its fields was refused: " ^ w)
    else if w <> "err:BadValue" then Some ("refusal", "too wide a table refused with " ^ w) else None

(* cmaprd|MODE|HEX *)
let judge_cmaprd (hexin : string) (impl : string) : (string * string) option =
  let ip = kvp impl in
  let get k = try Some (List.assoc k ip) with Not_found -> None in
  let s = raw_of_hex hexin in
  let reference = ref_cmap_decode s in
  match get "r" with
  | Some r when starts_with "ok:" r ->
    (match reference with
     | None -> Some ("decode", "a cmap table was read where the reference decoder finds none")
     | Some l ->
       if r <> "ok:" ^ recs_show l then Some ("decode", "Cmap::read + sub-tables differ from the reference decoding")
       else begin
         let owned = List.map (fun (p, e, _, st) -> (p, e, rst_to_owned st)) l in
         let has2 = List.exists (fun (_, _, o) -> o = None) owned in
         match get "w" with
         | None -> None
         | Some "none" -> if has2 then None else Some ("refusal", "no owned form although no sub-table is format 2")
         | Some w when has2 -> Some ("refusal", "format 2 has no owned form, yet: " ^ (if String.length w > 30 then String.sub w 0 30 else w))
         | Some w ->
           let recs = List.map (fun (p, e, o) -> match o with Some st -> (p, e, st) | None -> assert false) owned in
           let fits = ref_cmap_fits recs in
           if not (ishex w) then
             (if fits then Some ("refusal", "a parsed cmap table that fits its fields was not written: " ^ w)
              else if w = "err:BadValue" then None else Some ("refusal", "refused with " ^ w))
           else begin
             let wr = raw_of_hex w in
             if not fits then Some ("truncation", "a parsed cmap table that does not fit its fields was written")
             else match cmap_fields_check recs wr with
               | Some msg -> Some ("offset", msg)
               | None ->
                 if wr <> ref_cmap_encode recs then Some ("roundtrip", "written bytes are not the encoding of the parsed table (every record with its own copy of the sub-table)")
                 else begin
                   let expect = "ok:" ^ recs_show (List.map2 (fun (pl, e, st) o -> (pl, e, o, st)) recs (ref_cmap_offsets recs)) in
                   if get "r2" <> Some expect then Some ("stability", "parse(write(parse(b))) is not parse(b) with the new offsets") else None
                 end
           end
       end)
  | Some r when starts_with "err:" r ->
    (* an error of a sub-table is reported as err:E@index; a header the reference reads must not be refused *)
    (match reference with
     | Some _ -> Some ("refusal", "a cmap table the reference decoder reads was refused: " ^ r)
     | None ->
       if not (String.contains r '@') && ref_cmap_header s <> None then Some ("refusal", "the cmap header was refused: " ^ r) else None)
  | _ -> None

(* ================================================================================================
   C15, third part: item variation stores (ItemVariationData, VariationRegionList, ItemVariationStore,
   the VariationStore of a CFF2 table).  Reference decoders over raw byte strings written after the
   OpenType chapter "OpenType Font Variations Common Table Formats" (Item variation store) and the
   CFF2 chapter (VariationStore Data = uint16 length + Item Variation Store); nothing of the
   extracted model is used. *)
type rivd = { vitems : int; vwdc : int; vidx : int list; vdeltas : string }
type rvrl = { vaxes : int; vregions : int; vcoords : string }
type rivs = { svrl : rvrl; ssubs : rivd list }
(* row length: (regionIndexCount + wordDeltaCount) bytes, doubled under LONG_WORDS: the first
   wordDeltaCount deltas take 2 (4) bytes, the others 1 (2) *)
let ref_ivd_row (wdc : int) (nreg : int) : int =
  let r = nreg + (wdc land 0x7fff) in if wdc land 0x8000 <> 0 then 2 * r else r
let ref_ivd_decode (s : string) (pos : int) : (rivd * int) option =
  try
    need s pos 6;
    let items = gu16 s pos and wdc = gu16 s (pos + 2) and nreg = gu16 s (pos + 4) in
    need s (pos + 6) (2 * nreg);
    let idx = List.init nreg (fun i -> gu16 s (pos + 6 + 2 * i)) in
    let dl = items * ref_ivd_row wdc nreg in
    need s (pos + 6 + 2 * nreg) dl;
    Some ({ vitems = items; vwdc = wdc; vidx = idx; vdeltas = String.sub s (pos + 6 + 2 * nreg) dl }, 6 + 2 * nreg + dl)
  with Short -> None
let ref_ivd_encode (b : Buffer.t) (v : rivd) : unit =
  pu16 b v.vitems; pu16 b v.vwdc; pu16 b (List.length v.vidx); List.iter (pu16 b) v.vidx; Buffer.add_string b v.vdeltas
(* regionCount: the high bit is reserved; `None` here means "not a region list", `Some (_, _, false)`
   a list whose reserved bit is set (a reader may refuse it) *)
let ref_vrl_decode (s : string) (pos : int) : (rvrl * int * bool) option =
  try
    need s pos 4;
    let axes = gu16 s pos and regions = gu16 s (pos + 2) in
    let n = regions * axes * 6 in
    need s (pos + 4) n;
    Some ({ vaxes = axes; vregions = regions; vcoords = String.sub s (pos + 4) n }, 4 + n, regions < 32768)
  with Short -> None
let ref_vrl_encode (b : Buffer.t) (v : rvrl) : unit =
  pu16 b v.vaxes; pu16 b v.vregions; Buffer.add_string b v.vcoords
let ref_ivs_decode (s : string) : (rivs * bool) option =
  try
    need s 0 8;
    if gu16 s 0 <> 1 then None else begin
      let vo = gu32 s 2 and n = gu16 s 6 in
      need s 8 (4 * n);
      let offs = List.init n (fun i -> gu32 s (8 + 4 * i)) in
      match ref_vrl_decode s vo with
      | None -> None
      | Some (vrl, _, clean) ->
        let subs = List.map (fun o -> match ref_ivd_decode s o with Some (v, _) -> v | None -> raise Short) offs in
        Some ({ svrl = vrl; ssubs = subs }, clean)
    end
  with Short -> None
let short_hex (h : string) = if String.length h > 60 then String.sub h 0 60 ^ ".." else h
let ivd_diff (a : rivd) (b : rivd) : string * string =
  if a.vwdc <> b.vwdc then
    ("flags", Printf.sprintf "the packed wordDeltaCount field was written as 0x%04x, the parsed value is 0x%04x (LONG_WORDS is bit 15, the count the low 15 bits)" b.vwdc a.vwdc)
  else if a.vitems <> b.vitems then ("roundtrip", Printf.sprintf "itemCount written as %d, parsed %d" b.vitems a.vitems)
  else if a.vidx <> b.vidx then ("roundtrip", "regionIndexCount / regionIndexes differ from the parsed ones")
  else ("roundtrip", "the delta sets differ from the parsed ones")

(* ivd|HEX *)
let judge_ivd (hexin : string) (impl : string) : (string * string) option =
  let ip = kvp impl in
  let get k = try Some (List.assoc k ip) with Not_found -> None in
  let s = raw_of_hex hexin in
  match get "r", ref_ivd_decode s 0 with
  | Some r, None when starts_with "ok:" r -> Some ("decode", "an ItemVariationData was read where the reference decoder finds none: " ^ r)
  | Some r, Some _ when starts_with "err:" r -> Some ("refusal", "a well-formed ItemVariationData was refused: " ^ r)
  | Some r, Some (v, n) when starts_with "ok:" r ->
    if r <> "ok:" ^ string_of_int n then Some ("consumed", Printf.sprintf "the reader consumed %s, the sub-table takes %d bytes" r n)
    else begin
      let spec_valid = (v.vwdc land 0x7fff) <= List.length v.vidx in
      match get "w" with
      | None -> None
      | Some w when not (ishex w) ->
        if (not spec_valid) && w = "err:BadValue" then None
        else Some ("refusal", "a parsed ItemVariationData whose fields all fit was not written: " ^ w)
      | Some w ->
        let wr = raw_of_hex w in
        (match ref_ivd_decode wr 0 with
         | None -> Some ("roundtrip", "the written bytes are not an ItemVariationData (row length of the written header does not match the data written): " ^ short_hex w)
         | Some (v2, n2) ->
           if v2 <> v then (let (c, m) = ivd_diff v v2 in Some (c, m))
           else if n2 <> String.length wr then Some ("roundtrip", "bytes written beyond the sub-table")
           else if get "r2" <> Some ("ok:" ^ string_of_int n) then Some ("stability", "re-reading the written bytes: " ^ (match get "r2" with Some x -> x | None -> "?"))
           else if get "w2" <> Some w then Some ("stability", "write(parse(write(parse b))) differs from write(parse b)")
           else None)
    end
  | _ -> None

(* vrl|HEX *)
let judge_vrl (hexin : string) (impl : string) : (string * string) option =
  let ip = kvp impl in
  let get k = try Some (List.assoc k ip) with Not_found -> None in
  let s = raw_of_hex hexin in
  match get "r", ref_vrl_decode s 0 with
  | Some r, None when starts_with "ok:" r -> Some ("decode", "a VariationRegionList was read where the reference decoder finds none: " ^ r)
  | Some r, Some (_, _, true) when starts_with "err:" r -> Some ("refusal", "a well-formed VariationRegionList was refused: " ^ r)
  | Some r, Some (v, n, _) when starts_with "ok:" r ->
    let shape = Printf.sprintf "ok:%d/%d/%d" n v.vregions v.vaxes in
    if r <> shape then Some ("decode", "read " ^ r ^ ", the reference decoding is " ^ shape)
    else (match get "w" with
        | None -> None
        | Some w when not (ishex w) -> Some ("refusal", "a parsed VariationRegionList was not written: " ^ w)
        | Some w ->
          let wr = raw_of_hex w in
          (match ref_vrl_decode wr 0 with
           | Some (v2, n2, _) when v2 = v && n2 = String.length wr ->
             if get "r2" <> Some shape then Some ("stability", "re-reading the written bytes: " ^ (match get "r2" with Some x -> x | None -> "?"))
             else if get "w2" <> Some w then Some ("stability", "second write differs") else None
           | Some (v2, _, _) when v2.vaxes <> v.vaxes || v2.vregions <> v.vregions ->
             Some ("truncation", Printf.sprintf "axisCount / regionCount written as %d / %d, parsed %d / %d" v2.vaxes v2.vregions v.vaxes v.vregions)
           | _ -> Some ("roundtrip", "the written bytes are not the encoding of the parsed region list: " ^ short_hex w)))
  | _ -> None

(* ivs|HEX *)
let judge_ivs (hexin : string) (impl : string) : (string * string) option =
  let ip = kvp impl in
  let get k = try Some (List.assoc k ip) with Not_found -> None in
  let s = raw_of_hex hexin in
  match get "r", ref_ivs_decode s with
  | Some r, None when starts_with "ok:" r -> Some ("decode", "an ItemVariationStore was read where the reference decoder finds none: " ^ r)
  | Some r, Some (_, true) when starts_with "err:" r -> Some ("refusal", "a well-formed ItemVariationStore was refused: " ^ r)
  | Some r, Some (v, _) when starts_with "ok:" r ->
    let shape = Printf.sprintf "ok:%d/%d" v.svrl.vregions (List.length v.ssubs) in
    if r <> shape then Some ("decode", "read " ^ r ^ ", the reference decoding is " ^ shape)
    else begin
      let check (what : string) (w : string) : (string * string) option =
        if not (ishex w) then Some ("refusal", "a parsed ItemVariationStore was not written (" ^ what ^ "): " ^ w)
        else begin
          let wr = raw_of_hex w in
          match ref_ivs_decode wr with
          | Some (v2, _) when v2 = v -> None
          | res ->
            (* say which field is off *)
            let hdr = (try need wr 0 8; Some (gu16 wr 0, gu32 wr 2, gu16 wr 6) with Short -> None) in
            let n = List.length v.ssubs in
            (match hdr, res with
             | Some (1, vo, cnt), _ when cnt = n && (match ref_vrl_decode wr vo with Some (x, _, _) -> x = v.svrl | None -> false) ->
               (match res with
                | Some (v2, _) ->
                  let rec first a b = match a, b with
                    | x :: ra, y :: rb -> if x = y then first ra rb else Some (ivd_diff x y)
                    | _ -> None in
                  (match first v.ssubs v2.ssubs with
                   | Some (c, m) -> Some (c, what ^ ": " ^ m)
                   | None -> Some ("roundtrip", what ^ ": the written store does not decode to the parsed one"))
                | None -> Some ("offset", what ^ ": an itemVariationDataOffset of the written store does not point at a sub-table"))
             | Some (1, _, cnt), _ when cnt <> n -> Some ("offset", Printf.sprintf "%s: itemVariationDataCount written as %d (read at byte 6, behind the Offset32 variationRegionListOffset), the store has %d sub-tables" what cnt n)
             | Some (1, vo, _), _ -> Some ("offset", Printf.sprintf "%s: variationRegionListOffset (Offset32 at byte 2, from the start of the store) is %d and does not point at the region list" what vo)
             | _ -> Some ("roundtrip", what ^ ": the written bytes are not an ItemVariationStore: " ^ short_hex w))
        end in
      match get "w" with
      | None -> None
      | Some w ->
        (match check "fresh buffer" w with
         | Some x -> Some x
         | None ->
           (match (match get "wp" with Some wp -> check "written behind 3 other bytes (offsets are from the start of the store)" wp | None -> None) with
            | Some x -> Some x
            | None ->
              if get "r2" <> Some shape then Some ("stability", "re-reading the written store: " ^ (match get "r2" with Some x -> x | None -> "?"))
              else if get "w2" <> Some w then Some ("stability", "write(parse(write(parse b))) differs from write(parse b)")
              else None))
    end
  | _ -> None

(* cff2f|PATH: r=ok:vs=HEX|none;ls=0|1;w=LEN;vs2=none|HEX@LENFIELD/ACTUAL|bad:WHY;t2=ok:vs=..|err:E;w2=same *)
let judge_cff2f (path : string) (impl : string) : (string * string) option =
  let ip = kvp impl in
  let get k = try Some (List.assoc k ip) with Not_found -> None in
  match get "r" with
  | Some r when starts_with "ok:vs=" r ->
    let vs = sub_after r 6 in
    if vs <> "none" && not (ishex vs) then Some ("refusal", path ^ ": the parsed variation store is not written on its own: " ^ vs)
    else (match get "w" with
        | Some w when starts_with "err:" w -> Some ("refusal", path ^ ": the parsed CFF2 table was not written: " ^ w)
        | Some _ ->
          let vs2 = (match get "vs2" with Some x -> x | None -> "?") in
          let store_ok =
            if vs = "none" then (if vs2 = "none" then None else Some ("roundtrip", path ^ ": a variation store appeared in the written table: " ^ short_hex vs2))
            else (match String.index_opt vs2 '@' with
                | None -> Some ("roundtrip", path ^ ": the VariationStore data of the written CFF2 table (uint16 length + Item Variation Store at the Top DICT's vstore offset) is not readable: " ^ vs2)
                | Some i ->
                  let h = String.sub vs2 0 i and lens = sub_after vs2 (i + 1) in
                  if starts_with "bad:" vs2 then Some ("roundtrip", path ^ ": the VariationStore data of the written CFF2 table (uint16 length + Item Variation Store at the Top DICT's vstore offset) is not readable: " ^ vs2)
                  else if h <> vs then Some ("roundtrip", path ^ ": the variation store found in the written CFF2 table differs from the parsed one: " ^ short_hex h ^ " vs " ^ short_hex vs)
                  else (match split_on '/' lens with
                      | [a; b] when a = b -> None
                      | _ -> Some ("truncation", path ^ ": the uint16 length in front of the written store / the bytes of the store: " ^ lens))) in
          (match store_ok with
           | Some x -> Some x
           | None ->
             (match get "t2" with
              | Some t2 when starts_with "err:" t2 ->
                if get "ls" = Some "1" then
                  Some ("cff2-local-subrs", path ^ ": the written CFF2 table is refused on re-reading (" ^ t2 ^ "): the font has local subroutines")
                else Some ("roundtrip", path ^ ": the written CFF2 table does not parse: " ^ t2)
              | Some t2 when t2 <> r -> Some ("roundtrip", path ^ ": the variation store read back from the written CFF2 table differs from the parsed one")
              | Some _ -> if get "w2" <> Some "same" then Some ("stability", path ^ ": second write " ^ (match get "w2" with Some x -> x | None -> "?")) else None
              | None -> None))
        | None -> None)
  | Some r when starts_with "err:" r -> Some ("refusal", path ^ ": fixture CFF2 table refused: " ^ r)
  | _ -> None

(* filec|PATH: items=N#KIND HEX -> RESULT ## ... *)
let filec_items (impl : string) : (string * string * string) list option =
  match String.index_opt impl '#' with
  | Some i when starts_with "items=" impl ->
    let body = sub_after impl (i + 1) in
    let items = if body = "" then [] else
        List.filter (fun x -> x <> "") (List.map String.trim (String.split_on_char '#' body)) in
    Some (List.filter_map (fun item ->
        match String.split_on_char ' ' item with
        | [k; h; "->"; out] -> Some (k, h, out)
        | _ -> Some ("?", "", item)) items)
  | _ -> None

let pwp (r1 : 'a outcome) (show : 'a -> string) (write : 'a -> z list outcome) (reread : z list -> string) : string =
  match r1 with
  | Err e -> "r=" ^ err_s e | Panic -> "r=panic" | OOB -> "r=oob"
  | Ok t ->
    let r = show t in
    (match write t with
     | Ok b -> "r=ok:" ^ r ^ ";w=" ^ hex_of_bytes b ^ ";r2=" ^ reread b
     | w -> "r=ok:" ^ r ^ ";w=" ^ w_s w)
let fst_o (o : ('a * 'b) outcome) : 'a outcome =
  match o with Ok (a, _) -> Ok a | Err e -> Err e | Panic -> Panic | OOB -> OOB

let mode_of s = if s = "d" then Debug else Release

(* ---------- cvt, charsets, FDSelect, custom encodings (Model/CffSets.v) *)
let srecs_show (l : z list list) : string =
  plus (List.map (fun r -> String.concat ":" (List.map z_to_string r)) l)
let srecs_parse (s : string) : z list list =
  if s = "." || s = "" then []
  else List.concat_map (fun item ->
      let (k, r) = match String.index_opt item '*' with
        | Some i -> (int_of_string (String.sub item 0 i), sub_after item (i + 1))
        | None -> (1, item) in
      let rcd = List.map z_of_string (split_on ':' r) in
      List.init k (fun _ -> rcd)) (split_on '+' s)
let srecs_count (s : string) : int =
  if s = "." || s = "" then 0
  else List.fold_left (fun a item -> a + (match String.index_opt item '*' with
      | Some i -> int_of_string (String.sub item 0 i) | None -> 1)) 0 (split_on '+' s)
let chs_show ((fmt, recs) : z * z list list) : string = z_to_string fmt ^ "/" ^ srecs_show recs
let chs_queries ((fmt, recs) : z * z list list) : string =
  let take3 = List.filteri (fun i _ -> i < 3) recs in
  let extra =
    if z_to_int fmt = 0 then List.map (fun r -> z_to_int (List.hd r)) take3
    else List.concat_map (fun r -> let f = z_to_int (List.nth r 0) and nl = z_to_int (List.nth r 1) in [f; f + nl]) take3 in
  let sids = List.filter (fun s -> s <= 65535) ([0; 1; 5; 100; 390; 391; 1000; 65535] @ extra) in
  let gids = [0; 1; 2; 3; 4; 255; 256; 257; 65535] in
  let show = function Some v -> z_to_string v | None -> "n" in
  String.concat "," (List.map (fun g -> show (charset_id_for_glyph (fmt, recs) (zi g))) gids) ^ "/" ^
  String.concat "," (List.map (fun s -> show (charset_sid_to_gid (fmt, recs) (zi s))) sids)
let fds_show (f : fdselect) : string =
  z_to_string f.fs_fmt ^ "/" ^ srecs_show f.fs_recs ^ "/" ^ z_to_string f.fs_sentinel
let set_model (kind : string) (n : z) (d : z list) : string =
  let c = table_ctxt d in
  match kind with
  | "cvt" -> pwp (fst_o (cvt_read c n)) join (fun t -> Ok (cvt_write t))
               (fun b -> out_s join (fst_o (cvt_read (table_ctxt b) (zi (List.length b)))))
  | "chs" ->
    let base = pwp (fst_o (charset_read c n)) chs_show (fun t -> Ok (charset_write t))
        (fun b -> out_s chs_show (fst_o (charset_read (table_ctxt b) n))) in
    (match charset_read c n with Ok (v, _) -> base ^ ";q=" ^ chs_queries v | _ -> base)
  | "fds" -> pwp (fst_o (fdselect_read c n)) fds_show fdselect_write
               (fun b -> out_s fds_show (fst_o (fdselect_read (table_ctxt b) n)))
  | "enc" -> pwp (fst_o (encoding_read c)) chs_show encoding_write
               (fun b -> out_s chs_show (fst_o (encoding_read (table_ctxt b))))
  | _ -> "n/a"
let setw_model (kind : string) (n : z) (v : string) : string =
  let wr (w : z list outcome) (rd : z list -> string) =
    match w with Ok b -> "w=" ^ hex_of_bytes b ^ ";r=" ^ rd b | o -> "w=" ^ w_s o in
  match kind with
  | "cvt" ->
    let vs = nums v in
    wr (Ok (cvt_write vs)) (fun b -> out_s join (fst_o (cvt_read (table_ctxt b) (zi (2 * List.length vs)))))
  | "chs" ->
    (match split_on '/' v with
     | [fmt; rs] ->
       wr (Ok (charset_write (z_of_string fmt, srecs_parse rs)))
         (fun b -> match charset_read (table_ctxt b) n with
            | Ok (v, _) -> "ok:" ^ chs_show v ^ ";q=" ^ chs_queries v
            | o -> out_s chs_show (fst_o o))
     | _ -> failwith "chs value")
  | "fds" ->
    (match split_on '/' v with
     | [fmt; rs; sen] ->
       if srecs_count rs > 30000 then "n/a"
       else
         wr (fdselect_write { fs_fmt = z_of_string fmt; fs_recs = srecs_parse rs; fs_sentinel = z_of_string sen })
           (fun b -> out_s fds_show (fst_o (fdselect_read (table_ctxt b) n)))
     | _ -> failwith "fds value")
  | _ -> "n/a"

(* the property on the implementation's output, independent of the model *)
let rec ref_covers (recs : z list list) (covered : int) (n : int) : bool =
  match recs with
  | [] -> n <= covered
  | r :: rest -> covered < n && ref_covers rest (covered + z_to_int (List.nth r 1) + 1) n
let judge_set (ip : (string * string) list) : (string * string) option =
  let get k = try Some (List.assoc k ip) with Not_found -> None in
  match get "r", get "w", get "r2" with
  | _ when (match get "q" with Some q -> String.contains q 'P' | None -> false) ->
    Some ("panic", "a charset query (id_for_glyph / sid_to_gid) panicked: " ^ (match get "q" with Some q -> q | None -> ""))
  | Some r, Some w, _ when starts_with "ok:" r && starts_with "err:" w ->
    Some ("refusal", "a parsed value was refused by its writer: " ^ w)
  | Some r, Some _, Some r2 when starts_with "ok:" r && r2 <> r ->
    Some ("stability", "parse, write, parse is not stable: " ^ r2)
  | Some r, Some _, None when starts_with "ok:" r -> Some ("stability", "no second parse")
  | _ -> None
let judge_setw (kind : string) (n : int) (v : string) (ip : (string * string) list) : (string * string) option =
  let get k = try Some (List.assoc k ip) with Not_found -> None in
  let expect_ok shown =
    match get "w", get "r" with
    | Some w, _ when starts_with "err:" w -> Some ("refusal", "a value within the format limits was refused: " ^ w)
    | _, Some r when r <> "ok:" ^ shown -> Some ("roundtrip", "read(write(v)) <> v: " ^ r)
    | _, None -> Some ("roundtrip", "nothing read back")
    | _ -> None in
  if (match get "q" with Some q -> String.contains q 'P' | None -> false) then
    Some ("panic", "a charset query (id_for_glyph / sid_to_gid) panicked: " ^ (match get "q" with Some q -> q | None -> ""))
  else
  match kind with
  | "cvt" -> expect_ok (if v = "-" then "-" else v)
  | "chs" ->
    (match split_on '/' v with
     | [fmt; rs] ->
       let recs = srecs_parse rs in
       let valid =
         n >= 1 && (if fmt = "0" then List.length recs = n - 1 else ref_covers recs 0 (n - 1)) in
       if valid then expect_ok (fmt ^ "/" ^ srecs_show recs) else None
     | _ -> None)
  | "fds" ->
    (match split_on '/' v with
     | [fmt; rs; sen] ->
       let cnt = srecs_count rs in
       if fmt = "0" then (if cnt = n then expect_ok (fmt ^ "/" ^ srecs_show (srecs_parse rs) ^ "/0") else None)
       else if cnt > 65535 then
         (match get "w" with
          | Some "err:BadValue" -> None
          | Some w -> Some ("truncation", "more than 65535 FDSelect ranges were not refused with BadValue: " ^ (if String.length w > 40 then String.sub w 0 40 else w))
          | None -> None)
       else expect_ok (fmt ^ "/" ^ srecs_show (srecs_parse rs) ^ "/" ^ sen)
     | _ -> None)
  | _ -> None


let run (input : string) : string =
  let p = Array.of_list (split_on '|' input) in
  match p.(0) with
  | "arr" -> "n/a"     (* the generic array writers are judged against a reference encoder below *)
  | "lay" ->
    let (rl, wl) = List.assoc p.(1) layouts in
    let b = layout_write (p.(2) = "1") wl (nums p.(3)) in
    "w=" ^ hex_of_bytes b ^ ";r=" ^ out_s join (layout_read rl b)
  | "rd" ->
    let d = bytes_of_hex p.(3) in
    let c = table_ctxt d in
    (match p.(1) with
     | "maxp" ->
       pwp (fst_o (maxp_read c)) maxp_show (fun t -> Ok (maxp_write t))
         (fun b -> out_s maxp_show (fst_o (maxp_read (table_ctxt b))))
     | "os2" ->
       pwp (fst_o (os2_read c (z_of_string p.(2)))) os2_show (fun t -> Ok (os2_write t))
         (fun b -> out_s os2_show (fst_o (os2_read (table_ctxt b) (zi (List.length b)))))
     | "hmtx" ->
       (match split_on ':' p.(2) with
        | [ng; nh] ->
          let ng = z_of_string ng and nh = z_of_string nh in
          pwp (fst_o (hmtx_read c ng nh)) hmtx_show (fun t -> Ok (hmtx_write t))
            (fun b -> out_s hmtx_show (fst_o (hmtx_read (table_ctxt b) ng nh)))
        | _ -> failwith "hmtx arg")
     | "name" ->
       pwp (fst_o (name_read c)) name_show (fun t -> name_write Z0 t)
         (fun b -> out_s name_show (fst_o (name_read (table_ctxt b))))
     | name ->
       let (rl, wl) = List.assoc name layouts in
       let fill = name = "head" && p.(2) = "1" in
       pwp (layout_read rl d) join (fun v -> Ok (layout_write fill wl v))
         (fun b -> out_s join (layout_read rl b)))
  | "maxpv" ->
    let b = maxp_write (z_of_string p.(1), optnums p.(2)) in
    "w=" ^ hex_of_bytes b ^ ";r=" ^ out_s maxp_show (fst_o (maxp_read (table_ctxt b)))
  | "os2v" ->
    let t = { o_base = nums p.(1); o_v0 = optnums p.(2); o_v1 = optnums p.(3); o_v2 = optnums p.(4); o_v5 = optnums p.(5) } in
    let b = os2_write t in
    "w=" ^ hex_of_bytes b ^ ";r=" ^ out_s os2_show (fst_o (os2_read (table_ctxt b) (zi (List.length b))))
  | "hmtxv" ->
    let hm = if p.(1) = "." then [] else List.map (fun m -> List.map z_of_string (split_on ':' m)) (split_on '+' p.(1)) in
    let ls = nums p.(2) in
    let b = hmtx_write (hm, ls) in
    let nh = List.length hm and nl = List.length ls in
    "w=" ^ hex_of_bytes b ^ ";r=" ^ out_s hmtx_show (fst_o (hmtx_read (table_ctxt b) (zi (nh + nl)) (zi nh)))
  | "loca" ->
    let fmt = z_of_string p.(1) and offs = nums p.(2) in
    (match loca_write fmt offs with
     | Ok b ->
       if offs = [] then "w=" ^ hex_of_bytes b
       else "w=" ^ hex_of_bytes b ^ ";r=" ^ out_s join (fst_o (loca_read (table_ctxt b) (zi (List.length offs - 1)) fmt))
     | w -> "w=" ^ w_s w)
  | "namev" ->
    let recs = if p.(1) = "." then [] else List.map (fun r ->
        match split_on ':' r with
        | [a; b; c; d; s] -> ([z_of_string a; z_of_string b; z_of_string c; z_of_string d], parse_str s)
        | _ -> failwith "namev rec") (split_on '+' p.(1)) in
    let lts = str_list p.(2) in
    (match name_owned_write Z0 recs lts with
     | Ok b ->
       let r = match name_read (table_ctxt b) with
         | Ok (n, _) -> out_s owned_show (name_to_owned n)
         | Err e -> err_s e | Panic -> "panic" | OOB -> "oob" in
       "w=" ^ hex_of_bytes b ^ ";r=" ^ r
     | w -> "w=" ^ w_s w)
  | "cffint" ->
    let v = z_of_string p.(1) in
    let b = operand_int_write v and o = operand_offset_write v in
    "w=" ^ hex_of_bytes b ^ ";r=" ^ op_show b ^ ";wo=" ^ hex_of_bytes o ^ ";ro=" ^ op_show o
  | "cffrd" -> "r=" ^ op_show (bytes_of_hex p.(1))
  | "offs" ->
    (match serialise_offset_array (nums p.(1)) with
     | Ok (sz, b) -> "w=" ^ z_to_string sz ^ ":" ^ hex_of_bytes b
     | Err e -> "w=" ^ err_s e | Panic -> "w=panic" | OOB -> "w=oob")
  | "index" ->
    let wide = p.(1) = "1" in
    (match index_write wide (str_list p.(2)) with
     | Ok b ->
       (match index_read wide (table_ctxt b) with
        | Ok (ix, _) ->
          "w=" ^ hex_of_bytes b ^ ";r=" ^ out_s hex_list (index_objects ix) ^ ";w2=" ^ w_s (index_write_borrowed wide ix)
        | Err e -> "w=" ^ hex_of_bytes b ^ ";r=" ^ err_s e
        | Panic -> "w=" ^ hex_of_bytes b ^ ";r=panic" | OOB -> "w=" ^ hex_of_bytes b ^ ";r=oob")
     | w -> "w=" ^ w_s w)
  | "ixrd" ->
    let wide = p.(1) = "1" in
    (match index_read wide (table_ctxt (bytes_of_hex p.(2))) with
     | Ok (ix, _) ->
       (match index_objects ix with
        | Ok objs -> "r=ok:" ^ hex_list objs ^ ";w2=" ^ w_s (index_write_borrowed wide ix)
        | Err e -> err_s e | Panic -> "panic" | OOB -> "oob")
     | Err e -> "r=" ^ err_s e | Panic -> "panic" | OOB -> "oob")
  | "bigix" ->
    let count = int_of_string p.(1) in
    let d = write_items false [WField ([], PU32)] [zi count] @ (if count > 0 then zi 1 :: repeat_z (zi 1) (count + 1) [] else []) in
    (match index_read true (table_ctxt d) with
     | Ok (ix, _) ->
       (match index_write_borrowed true ix with
        | Ok b -> "r=ok:" ^ z_to_string ix.ix_count ^ ";w2=" ^ (if b = d then "same" else "different")
        | w -> "r=ok:" ^ z_to_string ix.ix_count ^ ";w2=" ^ w_s w)
     | Err e -> "r=" ^ err_s e | Panic -> "panic" | OOB -> "oob")
  | "glyph" ->
    let m = mode_of p.(1) in
    let coords = if p.(5) = "." then [] else List.map (fun c ->
        match split_on ':' c with
        | [f; x; y] -> (z_of_string f, (z_of_string x, z_of_string y))
        | _ -> failwith "coord") (split_on '+' p.(5)) in
    let g = { sg_bbox = nums p.(2); sg_endpts = nums p.(3); sg_instr = parse_str p.(4); sg_coords = coords } in
    (match simple_glyph_write g with
     | Ok b -> "w=" ^ hex_of_bytes b ^ ";r=" ^ glyph_read_show m b
     | w -> "w=" ^ w_s w)
  | "glyphrd" ->
    let m = mode_of p.(1) in
    (match glyph_read m (table_ctxt (bytes_of_hex p.(2))) with
     | Ok (None, _) -> cgrd_model m (bytes_of_hex p.(2))
     | Ok (Some g, _) ->
       (match simple_glyph_write g with
        | Ok b -> "r=ok:" ^ glyph_show g ^ ";w=" ^ hex_of_bytes b ^ ";r2=" ^ glyph_read_show m b
        | w -> "r=ok:" ^ glyph_show g ^ ";w=" ^ w_s w)
     | Err e -> "r=" ^ err_s e | Panic -> "panic" | OOB -> "oob")
  | "u24" -> "w=" ^ w_s (write_u24 (z_of_string p.(1)))
  | "pascal" -> "w=" ^ w_s (pascal_write (parse_str p.(1)))
  | "file" -> "n/a"
  | "filed" -> "n/a"
  | "filec" -> "n/a"
  | "ivd" | "vrl" | "ivs" | "cff2f" -> "n/a"
  | "set" -> set_model p.(1) (z_of_string p.(2)) (bytes_of_hex p.(3))
  | "setw" -> setw_model p.(1) (z_of_string p.(2)) p.(3)
  | "cg" -> cg_model (mode_of p.(1)) p.(2) p.(3) p.(4)
  | "cms" -> cms_model (p.(2) = "o") p.(3)
  | "cmsrd" -> cmsrd_model (p.(2) = "o") (bytes_of_hex p.(3))
  | "cmapv" -> cmapv_model (recs_parse p.(2))
  | "cmaprd" -> cmaprd_model (bytes_of_hex p.(2))
  | "dict" -> dict_pwp_model p.(1) (bytes_of_hex p.(2))
  | "dictw" ->
    let k = kind_of p.(1) in
    (match dict_write_dep dict_prefix (kind_defaults k) (parse_entries p.(2)) (parse_entries p.(3)) with
     | Ok (w, n) -> "w=" ^ hex_of_bytes w ^ ";n=" ^ z_to_string n ^ ";r=" ^ snd (dict_rd_s k w)
     | _ -> "w=panic")
  | k -> failwith ("kind " ^ k)

(* ---------- the judge: the property, decided on the implementation's output *)
let parts (s : string) : (string * string) list =
  List.filter_map (fun kv ->
      match String.index_opt kv '=' with
      | Some i -> Some (String.sub kv 0 i, String.sub kv (i + 1) (String.length kv - i - 1))
      | None -> None) (split_on ';' s)
let get k l = try Some (List.assoc k l) with Not_found -> None
let is_bytes (s : string) = not (starts_with "err:" s) && s <> "panic" && s <> "oob"
let zle a b = not (z_ltb b a)
let z65535 = zi 65535

(* flags reduced to ON_CURVE in a glyph show string *)
let glyph_norm (s : string) : string =
  match split_on '/' s with
  | [a; b; c; d] when d <> "." ->
    let cs = List.map (fun c -> match split_on ':' c with
        | [f; x; y] -> string_of_int (int_of_string f land 1) ^ ":" ^ x ^ ":" ^ y
        | _ -> c) (split_on '+' d) in
    String.concat "/" [a; b; c; String.concat "+" cs]
  | _ -> s

let rec deltas_fit (prev : int) (l : int list) : bool =
  match l with
  | [] -> true
  | x :: r -> let d = x - prev in d >= -32768 && d <= 32767 && deltas_fit x r


(* ---------- CFF DICT judges: decided on the implementation's output with the reference above *)
let kv_parts (s : string) : (string * string) list =
  List.filter_map (fun kv ->
      match String.index_opt kv '=' with
      | Some i -> Some (String.sub kv 0 i, String.sub kv (i + 1) (String.length kv - i - 1))
      | None -> None) (split_on ';' s)
let is_hex (s : string) =
  s = "-" || (String.length s mod 2 = 0 && String.length s > 0 &&
              (let ok = ref true in String.iter (fun c -> if not ((c >= '0' && c <= '9') || (c >= 'a' && c <= 'f')) then ok := false) s; !ok))
let hexlen (s : string) = if s = "-" then 0 else String.length s / 2
let sentries_to_string (d : (int * sop list) list) : string =
  let o = function SI v -> "i" ^ string_of_int v | SO v -> "o" ^ string_of_int v | SR h -> "r" ^ h in
  if d = [] then "." else String.concat "+" (List.map (fun (op, ops) -> string_of_int op ^ ":" ^ String.concat "," (List.map o ops)) d)

(* bytes -> read -> write (no delta) -> read -> write: None = no violation *)
let judge_dict (kind : string) (hexin : string) (impl : string) : (string * string) option =
  let ip = kv_parts impl in
  let g k = try Some (List.assoc k ip) with Not_found -> None in
  let max = spec_max kind in
  let reference = spec_decode max (unhexs hexin) in
  match g "r" with
  | None -> None
  | Some r when not (starts_with "ok:" r) ->
    (match reference with
     | Some _ -> Some ("refusal", "a well-formed " ^ kind ^ " DICT was refused by the reader: " ^ r)
     | None -> None)
  | Some r ->
    let e1s = String.sub r 3 (String.length r - 3) in
    let e1 = sentries_of_string e1s in
    if reference <> Some e1 then
      Some ("decode", "read_dep differs from the reference decoding " ^
                      (match reference with Some d -> sentries_to_string d | None -> "(not a DICT)"))
    else begin
      let kept = spec_elide kind e1 in
      match g "w" with
      | None -> None
      | Some w when not (is_hex w) -> Some ("refusal", "a parsed DICT was not written: " ^ w)
      | Some w ->
        if g "n" <> Some (string_of_int (hexlen w)) then
          Some ("length", "write_dep returned " ^ (match g "n" with Some n -> n | None -> "?") ^ " for " ^ string_of_int (hexlen w) ^ " bytes written")
        else if unhexs w <> spec_encode kept then
          Some ("roundtrip", "written bytes are not the encoding of the parsed DICT minus its exactly-default entries (" ^ sentries_to_string kept ^ ")")
        else if g "r2" <> Some ("ok:" ^ sentries_to_string kept) then
          Some ("stability", "parse(write(parse(b))) is not parse(b) minus its exactly-default entries (" ^ sentries_to_string kept ^ ")")
        else if g "w2" <> Some w then Some ("stability", "write(parse(write(d))) <> write(d)")
        else None
    end

(* entries -> write (with delta) -> read *)
let judge_dictw (kind : string) (entries : string) (delta : string) (impl : string) : (string * string) option =
  let ip = kv_parts impl in
  let g k = try Some (List.assoc k ip) with Not_found -> None in
  let d = sentries_of_string entries and dl = sentries_of_string delta in
  let defs = spec_defaults kind in
  let written = List.filter_map (fun (op, ops) ->
      match List.assoc_opt op dl with
      | Some dops -> Some (op, dops)
      | None -> (match List.assoc_opt op defs with Some dflt when dflt = ops -> None | _ -> Some (op, ops))) d in
  let all_wf = List.for_all (fun (_, ops) -> List.for_all sop_wf ops) written in
  let within = List.for_all (fun (op, ops) -> List.mem op spec_operators && List.length ops <= spec_max kind) written in
  let readback = List.map (fun (op, ops) -> (op, spec_ito op (List.map deoff ops))) written in
  match g "w" with
  | None -> None
  | Some w when not (is_hex w) -> Some ("refusal", "DICT not written: " ^ w)
  | Some w ->
    if g "n" <> Some (string_of_int (hexlen w)) then
      Some ("length", "write_dep returned " ^ (match g "n" with Some n -> n | None -> "?") ^ " for " ^ string_of_int (hexlen w) ^ " bytes written")
    else if not all_wf then None
    else if unhexs w <> spec_encode written then
      Some ("roundtrip", "written bytes are not the encoding of the entries (delta applied, exactly-default entries omitted): expected " ^ hexs (spec_encode written))
    else if not within then None
    else if g "r" <> Some ("ok:" ^ sentries_to_string readback) then
      Some ("roundtrip", "read(write(d)) <> d minus exactly-default entries: expected " ^ sentries_to_string readback)
    else None

let judge (input : string) (impl : string) (model : string) : verdict =
  let p = Array.of_list (split_on '|' input) in
  let ip = parts impl in
  let same () = if impl = model then Agree else Mismatch "implementation and model differ" in
  let viol c w = Violation (c, w) in
  (* a panic the model does not predict is a violation of any part of the property *)
  let has_panic = impl = "panic" || List.exists (fun (_, v) -> v = "panic") ip in
  let model_panic = model = "panic" || List.exists (fun (_, v) -> v = "panic") (parts model) in
  if impl = "oob" then viol "oob" "out-of-bounds read"
  else if has_panic && not model_panic then viol "panic" ("panicked: " ^ impl)
  else match p.(0) with
    | "arr" ->
      (* reference: item i of a strided array is the big-endian value at i * stride; writing an array writes
         its items, packed, and nothing else (padding between strided items is not part of the array) *)
      let size = (match p.(1) with "u8" | "i8" -> 1 | "u16" | "i16" -> 2 | _ -> 4) in
      let signed = (p.(1) = "i8" || p.(1) = "i16") in
      let n = int_of_string p.(2) and stride0 = int_of_string p.(3) in
      let stride = if stride0 = 0 then size else stride0 in
      let hexs = p.(4) in
      let nbytes = (if hexs = "-" then 0 else String.length hexs / 2) in
      let byte i = int_of_string ("0x" ^ String.sub hexs (2 * i) 2) in
      let readable = stride0 = 0 || stride >= size in
      let fits = n * stride <= nbytes || (n = 0) in
      (match get "r" ip with
       | Some r when starts_with "err" r ->
         if readable && fits then viol "refusal" "a well-formed array was refused" else Agree
       | Some r ->
         if not (readable && fits) then viol "decode" "an array that does not fit its data (or whose stride is smaller than an item) was accepted"
         else begin
           let item i =
             let v = ref 0 in
             for k = 0 to size - 1 do v := !v * 256 + byte (i * stride + k) done;
             if signed && !v >= 1 lsl (8 * size - 1) then !v - (1 lsl (8 * size)) else !v in
           let items = List.init n item in
           let expect_r = if n = 0 then "-" else String.concat "," (List.map string_of_int items) in
           let enc v = let v = if v < 0 then v + (1 lsl (8 * size)) else v in
             String.concat "" (List.init size (fun k -> Printf.sprintf "%02x" ((v lsr (8 * (size - 1 - k))) land 255))) in
           let expect_w = if n = 0 then "-" else String.concat "" (List.map enc items) in
           if r <> expect_r then viol "decode" ("strided array read " ^ r ^ ", the items are " ^ expect_r)
           else if get "w" ip <> Some expect_w then viol "roundtrip" ("write_array wrote " ^ (match get "w" ip with Some w -> w | None -> "?") ^ " for the items " ^ expect_r)
           else if get "c" ip <> Some expect_w then viol "roundtrip" "ReadArrayCow::write did not write the items of the array"
           else if get "r2" ip <> Some expect_r then viol "roundtrip" "reading the written array back gives other items"
           else Agree
         end
       | None -> Mismatch ("unreadable arr report: " ^ impl))
    | "lay" ->
      let (rl, wl) = List.assoc p.(1) layouts in
      let fill = p.(2) = "1" and vs = nums p.(3) in
      let valid = vals_okb (strip_asserts rl) vs && asserts_hold rl [] (wire fill wl vs) in
      if valid && get "r" ip <> Some ("ok:" ^ join (readback fill wl vs)) then
        viol "roundtrip" (p.(1) ^ ": read(write(v)) <> v")
      else same ()
    | "rd" ->
      (match get "r" ip, get "w" ip, get "r2" ip with
       | Some r, Some w, Some r2 when starts_with "ok:" r && is_bytes w ->
         let expect =
           match p.(1) with
           | "head" when p.(2) <> "1" ->
             (* unfilled placeholder: check_sum_adjustment reads back as 0 *)
             (match split_on ',' r with
              | a :: b :: c :: _ :: rest -> Some (String.concat "," (a :: b :: c :: "0" :: rest))
              | _ -> None)
           | "os2" ->
             if String.length p.(3) / 2 <> int_of_string p.(2) then None
             else begin
               (* versions 2-3 are written as 4, >5 as 5 *)
               match split_on '/' (String.sub r 3 (String.length r - 3)) with
               | [base; v0; v1; v2; v5] ->
                 let ver = if v5 <> "-" then "5" else if v2 <> "-" then "4" else if v1 <> "-" then "1" else "0" in
                 (match split_on ',' base with
                  | _ :: rest -> Some ("ok:" ^ String.concat "/" [String.concat "," (ver :: rest); v0; v1; v2; v5])
                  | _ -> None)
               | _ -> None
             end
           | _ -> Some r in
         (match expect with
          | Some e when e <> r2 -> viol "stability" (p.(1) ^ ": parse(write(parse(b))) <> parse(b)")
          | _ -> same ())
       | _ -> same ())
    | "maxpv" ->
      if get "r" ip <> Some ("ok:" ^ p.(1) ^ "/" ^ p.(2)) then viol "roundtrip" "maxp: read(write(v)) <> v" else same ()
    | "os2v" ->
      let some i = p.(i) <> "-" in
      let wf = (not (some 5) || some 4) && (not (some 4) || some 3) && (not (some 4) || some 2) in
      if not wf then same ()
      else begin
        let ver = if some 5 then "5" else if some 4 then "4" else if some 3 then "1" else "0" in
        let base = match split_on ',' p.(1) with _ :: rest -> String.concat "," (ver :: rest) | _ -> "" in
        let expect = "ok:" ^ String.concat "/" [base; p.(2); p.(3); p.(4); p.(5)] in
        if get "r" ip <> Some expect then viol "roundtrip" "OS/2: read(write(v)) <> v up to the version normalisation" else same ()
      end
    | "hmtxv" ->
      if get "r" ip <> Some ("ok:" ^ p.(1) ^ "/" ^ (if p.(2) = "" then "-" else p.(2))) then viol "roundtrip" "hmtx: read(write(v)) <> v" else same ()
    | "loca" ->
      let offs = nums p.(2) in
      let short = p.(1) = "0" in
      let too_wide = short && List.exists (fun o -> z_to_int o land 1 = 1 || z_to_int o > 131070) offs in
      (match get "w" ip with
       | Some w when too_wide && is_bytes w -> viol "truncation" "short loca accepted an odd or too large offset"
       | Some w when (not too_wide) && not (is_bytes w) -> viol "refusal" "loca refused representable offsets"
       | Some w when is_bytes w && offs <> [] && get "r" ip <> Some ("ok:" ^ join offs) -> viol "roundtrip" "loca: read(write(v)) <> v"
       | _ -> same ())
    | "namev" ->
      let strs = (if p.(1) = "." then [] else List.map (fun r -> List.nth (split_on ':' r) 4) (split_on '+' p.(1)))
                 @ (if p.(2) = "." then [] else split_on '+' p.(2)) in
      let lens = List.map (fun s -> List.length (parse_str s)) strs in
      let nrec = if p.(1) = "." then 0 else List.length (split_on '+' p.(1)) in
      let nlt = if p.(2) = "." then 0 else List.length (split_on '+' p.(2)) in
      let start = 6 + 12 * nrec + (if nlt > 0 then 2 + 4 * nlt else 0) in
      let rec offs_ok off = function [] -> true | l :: r -> off <= 65535 && offs_ok (off + l) r in
      let fits = List.for_all (fun l -> l <= 65535) lens && offs_ok 0 lens && start <= 65535 && nrec <= 65535 in
      (match get "w" ip with
       | Some w when (not fits) && is_bytes w -> viol "truncation" "name: a length or offset beyond 16 bits was written"
       | Some w when fits && not (is_bytes w) -> viol "refusal" "name: representable table refused"
       | Some w when is_bytes w ->
         let expect = "ok:" ^ owned_show
             ((if p.(1) = "." then [] else List.map (fun r -> match split_on ':' r with
                  | [a; b; c; d; s] -> ([z_of_string a; z_of_string b; z_of_string c; z_of_string d], parse_str s)
                  | _ -> failwith "rec") (split_on '+' p.(1))), str_list p.(2)) in
         if get "r" ip <> Some expect then viol "roundtrip" "name: read(write(v)) <> v" else same ()
       | _ -> same ())
    | "cffint" ->
      (match get "w" ip, get "r" ip, get "ro" ip with
       | Some w, Some r, Some ro ->
         if r <> Printf.sprintf "int:%s:%d" p.(1) (String.length w / 2) then viol "roundtrip" "CFF integer operand: read(write(v)) <> v"
         else if ro <> Printf.sprintf "int:%s:5" p.(1) then viol "roundtrip" "CFF offset operand: read(write(v)) <> v"
         else same ()
       | _ -> same ())
    | "offs" ->
      let offs = List.map z_to_int (nums p.(1)) in
      let rec mono = function a :: (b :: _ as r) -> a <= b && mono r | _ -> true in
      if not (mono offs) || offs = [] then same ()
      else begin
        let last = List.nth offs (List.length offs - 1) in
        match get "w" ip with
        | Some w when last > 4294967295 && not (starts_with "err:" w) -> viol "truncation" "offset beyond 32 bits was written"
        | Some w when last <= 4294967295 && starts_with "err:" w -> viol "refusal" "representable offsets refused"
        | Some w when not (starts_with "err:" w) ->
          (match split_on ':' w with
           | [sz; h] ->
             let sz = int_of_string sz in
             let need = if last <= 255 then 1 else if last <= 65535 then 2 else if last <= 16777215 then 3 else 4 in
             let b = List.map z_to_int (bytes_of_hex h) in
             let rec dec l = match l with
               | [] -> []
               | _ ->
                 let rec take k l acc = if k = 0 then (acc, l) else (match l with x :: r -> take (k - 1) r (acc * 256 + x) | [] -> (acc, [])) in
                 let (v, rest) = take sz l 0 in v :: dec rest in
             if sz <> need then viol "offsize" "off_size is not the minimal one"
             else if dec b <> offs then viol "truncation" "offset array does not decode to the offsets"
             else same ()
           | _ -> same ())
        | _ -> same ()
      end
    | "index" ->
      (match get "w" ip with
       | Some w when is_bytes w ->
         let expect = "ok:" ^ hex_list (str_list p.(2)) in
         if get "r" ip <> Some expect then viol "roundtrip" "INDEX: read(write(v)) <> v"
         else if get "w2" ip <> Some w then viol "stability" "INDEX: writing the parsed INDEX does not reproduce the bytes"
         else same ()
       | Some _ ->
         (* refusal is only right when the count or the data does not fit *)
         let objs = str_list p.(2) in
         let total = List.fold_left (fun a o -> a + List.length o) 1 objs in
         let maxc = if p.(1) = "1" then 4294967295 else 65535 in
         if List.length objs <= maxc && total <= 4294967295 then viol "refusal" "representable INDEX refused" else same ()
       | None -> same ())
    | "ixrd" ->
      (match get "r" ip, get "w2" ip with
       | Some r, Some w2 when starts_with "ok:" r ->
         if not (is_bytes w2) then viol "refusal" "parsed INDEX refused by the writer"
         else if not (starts_with (if w2 = "-" then "" else w2) p.(2)) then viol "stability" "INDEX: write(parse(b)) is not the parsed prefix of b"
         else same ()
       | _ -> same ())
    | "bigix" ->
      (match get "r" ip, get "w2" ip with
       | Some r, Some w2 when starts_with "ok:" r && w2 <> "same" ->
         viol "index-count" ("CFF2 INDEX with " ^ p.(1) ^ " objects parsed but not written back: " ^ w2)
       | _ -> same ())
    | "glyph" ->
      let coords = if p.(5) = "." then [] else List.map (fun c -> match split_on ':' c with
          | [f; x; y] -> (int_of_string f, int_of_string x, int_of_string y) | _ -> failwith "c") (split_on '+' p.(5)) in
      let fit = deltas_fit 0 (List.map (fun (_, x, _) -> x) coords) && deltas_fit 0 (List.map (fun (_, _, y) -> y) coords) in
      let endpts = List.map z_to_int (nums p.(3)) in
      let npts = match List.rev endpts with [] -> 0 | l :: _ -> l + 1 in
      let consistent = npts = List.length coords in
      (match get "w" ip with
       | Some w when (not fit) && not (starts_with "err:" w) ->
         viol "glyph-delta" ("coordinate delta beyond i16 was not refused: w=" ^ (if String.length w > 12 then String.sub w 0 12 else w))
       | Some w when fit && not (is_bytes w) -> viol "refusal" "representable glyph refused"
       | Some w when fit && consistent ->
         let expect = "ok:" ^ glyph_norm (String.concat "/" [p.(2); (if p.(3) = "" then "-" else p.(3)); hex_of_bytes (parse_str p.(4)); p.(5)]) in
         if get "r" ip <> Some expect then viol "roundtrip" "glyph: read(write(v)) <> v" else same ()
       | _ -> same ())
    | "glyphrd" when starts_with "r=ok:C/" impl || starts_with "r=ok:C/" model
                     || (String.length p.(2) >= 2 && p.(2).[0] >= '8' && p.(2) <> "-") ->
      (* numberOfContours < 0: a composite glyph *)
      (match judge_cgrd p.(2) impl with Some (c, w) -> viol c w | None -> same ())
    | "cg" -> (match judge_cg p impl with Some (c, w) -> viol c w | None -> same ())
    | "cms" ->
      (match judge_cms p impl with
       | Some (c, w) -> viol c w
       | None -> if model = "n/a:big" then Agree else same ())
    | "cmsrd" -> (match judge_cmsrd (p.(2) = "o") p.(3) impl with Some (c, w) -> viol c w | None -> same ())
    | "cmapv" ->
      (match judge_cmapv p impl with
       | Some (c, w) -> viol c w
       | None -> if model = "n/a:big" then Agree else same ())
    | "cmaprd" -> (match judge_cmaprd p.(2) impl with Some (c, w) -> viol c w | None -> same ())
    | "set" -> (match judge_set ip with Some (c, w) -> viol c w | None -> same ())
    | "setw" -> (match judge_setw p.(1) (int_of_string p.(2)) p.(3) ip with Some (c, w) -> viol c w | None -> if model = "n/a" then Agree else same ())
    | "ivd" -> (match judge_ivd p.(1) impl with Some (c, w) -> viol c w | None -> if model = "n/a" then Agree else same ())
    | "vrl" -> (match judge_vrl p.(1) impl with Some (c, w) -> viol c w | None -> if model = "n/a" then Agree else same ())
    | "ivs" -> (match judge_ivs p.(1) impl with Some (c, w) -> viol c w | None -> if model = "n/a" then Agree else same ())
    | "cff2f" ->
      if impl = "pwp=nofile" || impl = "pwp=absent" then Agree
      else (match judge_cff2f p.(1) impl with Some (c, w) -> viol c w | None -> Agree)
    | "filec" ->
      (match filec_items impl with
       | None -> if impl = "items=nofile" then Agree else Mismatch ("fixture items: " ^ impl)
       | Some items ->
         List.fold_left (fun acc (k, h, out) ->
             match acc with
             | Violation _ -> acc
             | _ ->
               let small = String.length h <= 2 * model_limit in
               let (j, mdl) = match k with
                 | "cg" -> (judge_cgrd h out, if small then Some (cgrd_model Debug (bytes_of_hex h)) else None)
                 | "cmsb" -> (judge_cmsrd false h out, if small then Some (cmsrd_model false (bytes_of_hex h)) else None)
                 | "cmso" -> (judge_cmsrd true h out, if small then Some (cmsrd_model true (bytes_of_hex h)) else None)
                 | "cmap" -> (judge_cmaprd h out, if small then Some (cmaprd_model (bytes_of_hex h)) else None)
                 | "cmsbbig" | "cmsobig" ->
                   ((if out = "stable" then None else Some ("stability", "sub-table of " ^ h ^ " bytes: parse-write-parse " ^ out)), None)
                 | _ -> (Some ("format", "unparsable item " ^ out), None) in
               (match j with
                | Some (c, w) -> Violation (c, p.(1) ^ " " ^ k ^ " " ^ (if String.length h > 80 then String.sub h 0 80 ^ ".." else h) ^ ": " ^ w)
                | None ->
                  (match mdl with
                   | Some m when m <> out -> Mismatch ("fixture " ^ k ^ " " ^ (if String.length h > 80 then String.sub h 0 80 ^ ".." else h) ^ ": implementation and model differ")
                   | _ -> acc))) Agree items)
    | "glyphrd" ->
      (match get "r" ip, get "w" ip, get "r2" ip with
       | Some r, Some w, Some r2 when starts_with "ok:" r && is_bytes w ->
         if r2 <> glyph_norm r then viol "stability" "glyph: parse(write(parse(b))) <> parse(b)" else same ()
       | _ -> same ())
    | "u24" ->
      let v = int_of_string p.(1) in
      (match get "w" ip with
       | Some w when v > 16777215 && is_bytes w -> viol "truncation" "U24 wrote a value beyond 24 bits"
       | Some w when v <= 16777215 && w <> Printf.sprintf "%06x" v -> viol "roundtrip" "U24 bytes"
       | _ -> same ())
    | "pascal" ->
      let l = List.length (parse_str p.(1)) in
      (match get "w" ip with
       | Some w when l > 255 && is_bytes w -> viol "truncation" "Pascal string longer than 255 written"
       | Some w when l <= 255 && not (is_bytes w) -> viol "refusal" "Pascal string refused"
       | _ -> same ())
    | "dict" ->
      (match judge_dict p.(1) p.(2) impl with Some (c, w) -> viol c w | None -> same ())
    | "dictw" ->
      (match judge_dictw p.(1) p.(2) p.(3) impl with Some (c, w) -> viol c w | None -> same ())
    | "filed" ->
      (* every DICT of a fixture font: `dicts=N#KIND HEX -> result ## ...`, each judged like dict|KIND|HEX
         and compared with the model's prediction for those bytes *)
      (match String.index_opt impl '#' with
       | Some i when starts_with "dicts=" impl ->
         let body = String.sub impl (i + 1) (String.length impl - i - 1) in
         let items = if body = "" then [] else
             List.filter (fun x -> x <> "") (List.map String.trim (String.split_on_char '#' body)) in
         let res = List.fold_left (fun acc item ->
             match acc with
             | Violation _ -> acc
             | _ ->
               (match String.split_on_char ' ' item with
                | [k; h; "->"; out] ->
                  (match judge_dict k h out with
                   | Some (c, w) -> Violation (c, p.(1) ^ " " ^ k ^ " DICT " ^ h ^ ": " ^ w)
                   | None -> if dict_pwp_model k (bytes_of_hex h) = out then acc
                     else Mismatch ("fixture DICT " ^ k ^ " " ^ h ^ ": implementation and model differ"))
                | _ -> Mismatch ("unparsable item " ^ item))) Agree items in
         if items = [] then Mismatch "no DICT found in the fixture" else res
       | _ -> if impl = "dicts=nofile" then Agree else Mismatch ("fixture DICTs: " ^ impl))
    | "file" ->
      (match get "pwp" ip with
       | Some s when starts_with "stable" s || s = "absent" || s = "nofile" -> Agree
       | Some s -> viol "stability" ("fixture " ^ p.(1) ^ " " ^ p.(2) ^ ": " ^ s)
       | None -> Mismatch "no pwp result")
    | _ -> same ()

let tag (input : string) (out : string) : string =
  let p = split_on '|' input in
  let k = List.hd p in
  let st_fmt s = match String.index_opt s ':' with Some i -> "-f" ^ String.sub s 0 i | None -> "" in
  let sub = match k with
    | "lay" | "rd" | "file" | "dict" | "dictw" | "set" | "setw" -> "-" ^ List.nth p 1
    | "filed" | "cff2f" -> "-" ^ Filename.basename (List.nth p 1)
    | "ivd" ->
      (* histogram by flag / shape *)
      (match (try Some (raw_of_hex (List.nth p 1)) with _ -> None) with
       | Some s when String.length s >= 6 ->
         (if gu16 s 2 land 0x8000 <> 0 then "-long" else "-short") ^ (if gu16 s 0 = 0 then "-noitems" else "")
       | _ -> "-tiny")
    | "cms" -> "-" ^ List.nth p 2 ^ st_fmt (List.nth p 3)
    | "cmsrd" -> "-" ^ List.nth p 2
    | "glyphrd" when String.length (List.nth p 2) >= 2 && (List.nth p 2).[0] >= '8' && List.nth p 2 <> "-" -> "-composite"
    | _ -> "" in
  let cls =
    if out = "n/a" then ""
    else if List.exists (fun (_, v) -> starts_with "err:" v) (parts out) then "-err"
    else if List.exists (fun (_, v) -> v = "panic") (parts out) then "-panic" else "-ok" in
  k ^ sub ^ cls
