(* C15: run the extracted table / CFF models on one case line and judge the implementation's
   output against the property (see harness/src/bin/c15.rs for the line formats). *)
open Model
open Zconv
open Verdict

(* ---------- line helpers *)
let nums (s : string) : z list =
  if s = "" || s = "-" || s = "." then [] else List.map z_of_string (split_on ',' s)
let join (l : z list) : string = if l = [] then "-" else zlist_to_string l
let zi = z_of_int
let rec repeat_z (b : z) (n : int) (acc : z list) = if n <= 0 then acc else repeat_z b (n - 1) (b :: acc)
let parse_str (s : string) : z list =
  if s = "-" then []
  else if s.[0] = 'h' then bytes_of_hex (String.sub s 1 (String.length s - 1))
  else if s.[0] = 'r' then begin
    match split_on 'x' (String.sub s 1 (String.length s - 1)) with
    | [l; b] -> repeat_z (zi (int_of_string b)) (int_of_string l) []
    | _ -> failwith "STR"
  end else failwith ("STR " ^ s)
let str_list (s : string) : z list list = if s = "." then [] else List.map parse_str (split_on '+' s)
let hex_list (l : z list list) : string = if l = [] then "." else String.concat "+" (List.map hex_of_bytes l)
let opt_show (o : z list option) : string = match o with Some v -> join v | None -> "-"
let optnums (s : string) : z list option = if s = "-" then None else Some (nums s)
let plus (l : string list) : string = if l = [] then "." else String.concat "+" l

let err_s e = "err:" ^ err_to_string e
let out_s (f : 'a -> string) (o : 'a outcome) : string =
  match o with Ok a -> "ok:" ^ f a | Err e -> err_s e | Panic -> "panic" | OOB -> "oob"
(* a writer's outcome: the bytes in hex *)
let w_s (o : z list outcome) : string =
  match o with Ok b -> hex_of_bytes b | Err e -> err_s e | Panic -> "panic" | OOB -> "oob"

let layouts = [
  "head", (head_read, head_write); "hhea", (hhea_read, hhea_write);
  "maxp_v1", (maxp_v1_read, maxp_v1_write); "posthdr", (post_header_read, post_header_write);
  "lhm", (long_hor_metric_read, long_hor_metric_write); "namerec", (name_record_read, name_record_write);
  "langtag", (langtag_record_read, langtag_record_write); "tablerec", (table_record_read, table_record_write);
  "bbox", (bounding_box_read, bounding_box_write) ]

(* ---------- shows *)
let maxp_show ((ng, sub) : z * z list option) = z_to_string ng ^ "/" ^ opt_show sub
let os2_show (o : os2) =
  String.concat "/" [join o.o_base; opt_show o.o_v0; opt_show o.o_v1; opt_show o.o_v2; opt_show o.o_v5]
let hmtx_show ((hm, ls) : z list list * z list) =
  plus (List.map (fun r -> String.concat ":" (List.map z_to_string r)) hm) ^ "/" ^ join ls
let name_show (n : name_table) =
  let rec_s r = String.concat ":" (List.map z_to_string r) in
  hex_of_bytes n.nt_storage ^ "/" ^ plus (List.map rec_s n.nt_records) ^ "/" ^
  (match n.nt_langtags with None -> "-" | Some l -> plus (List.map rec_s l))
let owned_show ((recs, lts) : (z list * z list) list * z list list) =
  plus (List.map (fun (ids, s) -> String.concat ":" (List.map z_to_string ids) ^ ":" ^ hex_of_bytes s) recs)
  ^ "/" ^ hex_list lts
let glyph_show (g : simple_glyph) =
  String.concat "/" [join g.sg_bbox; join g.sg_endpts; hex_of_bytes g.sg_instr;
    plus (List.map (fun (f, (x, y)) -> String.concat ":" [z_to_string f; z_to_string x; z_to_string y]) g.sg_coords)]
let glyph_read_show (m : mode) (b : z list) : string =
  match glyph_read m (table_ctxt b) with
  | Ok (Some g, _) -> "ok:" ^ glyph_show g
  | Ok (None, _) -> "composite"
  | Err e -> err_s e | Panic -> "panic" | OOB -> "oob"
let op_show (b : z list) : string =
  match op_read (table_ctxt b) with
  | Err e -> err_s e | Panic -> "panic" | OOB -> "oob"
  | Ok (r, c) ->
    let n = z_to_string c.off in
    (match r with
     | OpInt v -> "int:" ^ z_to_string v ^ ":" ^ n
     | OpOperator _ -> "op:" ^ n
     | OpOperator2 _ -> "op:" ^ n
     | OpReal d -> "real:" ^ hex_of_bytes d ^ ":" ^ n)


(* ---------- CFF DICTs: the model side *)
let kind_of (s : string) : dict_kind =
  match s with
  | "top" -> KTop | "font" -> KFont | "priv" -> KPrivate
  | "top2" -> KTop2 | "font2" -> KFont2 | "priv2" -> KPrivate2
  | _ -> failwith ("dict kind " ^ s)
let operand_s (o : operand) : string =
  match o with
  | OInt v -> "i" ^ z_to_string v
  | OOff v -> "o" ^ z_to_string v
  | OReal b -> "r" ^ hex_of_bytes b
let entries_s (d : (z * operand list) list) : string =
  if d = [] then "." else
    String.concat "+" (List.map (fun (op, ops) -> z_to_string op ^ ":" ^ String.concat "," (List.map operand_s ops)) d)
let parse_operand (s : string) : operand =
  let body = String.sub s 1 (String.length s - 1) in
  match s.[0] with
  | 'i' -> OInt (z_of_string body)
  | 'o' -> OOff (z_of_string body)
  | 'r' -> OReal (bytes_of_hex body)
  | _ -> failwith ("operand " ^ s)
let parse_entries (s : string) : (z * operand list) list =
  if s = "." then [] else
    List.map (fun e ->
        match String.index_opt e ':' with
        | Some i ->
          let ops = String.sub e (i + 1) (String.length e - i - 1) in
          (z_of_string (String.sub e 0 i), if ops = "" then [] else List.map parse_operand (split_on ',' ops))
        | None -> failwith ("entry " ^ e)) (split_on '+' s)
let dict_prefix = zi 3
let dict_rd_s (k : dict_kind) (b : z list) : (z * operand list) list outcome * string =
  let r = dict_read (table_ctxt b) (kind_max_operands k) in
  (r, out_s entries_s r)
let dict_pwp_model (ks : string) (b : z list) : string =
  let k = kind_of ks in
  let (r1, s1) = dict_rd_s k b in
  match r1 with
  | Ok d ->
    (match dict_write_dep dict_prefix (kind_defaults k) d [] with
     | Ok (w, n) ->
       let (r2, s2) = dict_rd_s k w in
       let tail = match r2 with
         | Ok d2 -> (match dict_write_dep dict_prefix (kind_defaults k) d2 [] with
             | Ok (w2, _) -> ";w2=" ^ hex_of_bytes w2
             | _ -> ";w2=panic")
         | _ -> "" in
       "r=" ^ s1 ^ ";w=" ^ hex_of_bytes w ^ ";n=" ^ z_to_string n ^ ";r2=" ^ s2 ^ tail
     | _ -> "r=" ^ s1 ^ ";w=panic")
  | _ -> "r=" ^ s1

(* ---------- CFF DICTs: an independent reference, written after Adobe Technical Note #5176
   (sections 4, 9, 15 and tables 3, 9, 10, 23) and the OpenType CFF2 chapter; nothing below uses
   the extracted model.  Operands: integer, offset (an integer that the owning operator declares
   to be an offset; allsorts keeps those apart and writes them in the fixed 5-byte form),
   real (the raw nibble bytes, hex). *)
type sop = SI of int | SO of int | SR of string
let spec_operators =
  [0; 1; 2; 3; 4; 5; 6; 7; 8; 9; 10; 11; 13; 14; 15; 16; 17; 18; 19; 20; 21; 22; 23; 24]
  @ List.map (fun b -> 3072 + b)
    [0; 1; 2; 3; 4; 5; 6; 7; 8; 9; 10; 11; 12; 13; 14; 17; 18; 19; 20; 21; 22; 23; 30; 31; 32; 33; 34; 35; 36; 37; 38]
(* operators whose single operand is an offset; Encoding 0 and 1 name predefined encodings; Private is (size, offset) *)
let spec_offset1 = [15; 17; 19; 3072 + 36; 3072 + 37; 24]
let spec_encoding = 16
let spec_private = 18
let spec_ito (op : int) (ops : sop list) : sop list =
  match ops with
  | [SI v] when op = spec_encoding && v > 1 -> [SO v]
  | [SI v] when List.mem op spec_offset1 -> [SO v]
  | [SI l; SI o] when op = spec_private -> [SO l; SO o]
  | _ -> ops
let deoff (o : sop) : sop = match o with SO v -> SI v | x -> x
let r001 = SR "0a001f" and zero = SI 0
let font_matrix = [r001; zero; zero; r001; zero; zero]
let spec_defaults (kind : string) : (int * sop list) list =
  match kind with
  | "top" ->
    [3072 + 1, [zero]; 3072 + 2, [zero]; 3072 + 3, [SI (-100)]; 3072 + 4, [SI 50]; 3072 + 5, [zero];
     3072 + 6, [SI 2]; 3072 + 7, font_matrix; 5, [zero; zero; zero; zero]; 3072 + 8, [zero];
     15, [SO 0]; 16, [SO 0]; 3072 + 31, [zero]; 3072 + 32, [zero]; 3072 + 33, [zero]; 3072 + 34, [SI 8720]]
  | "priv" ->
    [3072 + 9, [SR "0a039625ff"]; 3072 + 10, [SI 7]; 3072 + 11, [SI 1]; 3072 + 14, [zero]; 3072 + 17, [zero];
     3072 + 18, [SR "0a06ff"]; 3072 + 19, [zero]; 3072 + 8, [zero]; 20, [zero]; 21, [zero]]
  | "top2" -> [3072 + 7, font_matrix]
  | "priv2" ->
    [3072 + 9, [SR "0a039625ff"]; 3072 + 10, [SI 7]; 3072 + 11, [SI 1]; 3072 + 17, [zero];
     3072 + 18, [SR "0a06ff"]; 22, [zero]]
  | _ -> []
let spec_max (kind : string) : int = if kind.[String.length kind - 1] = '2' then 513 else 48
let spec_elide (kind : string) (d : (int * sop list) list) : (int * sop list) list =
  let defs = spec_defaults kind in
  List.filter (fun (op, ops) -> match List.assoc_opt op defs with Some dflt -> dflt <> ops | None -> true) d

let sop_of_string (s : string) : sop =
  let body = String.sub s 1 (String.length s - 1) in
  match s.[0] with
  | 'i' -> SI (int_of_string body) | 'o' -> SO (int_of_string body) | 'r' -> SR body
  | _ -> failwith ("operand " ^ s)
let sentries_of_string (s : string) : (int * sop list) list =
  if s = "." then [] else
    List.map (fun e ->
        match String.index_opt e ':' with
        | Some i ->
          let ops = String.sub e (i + 1) (String.length e - i - 1) in
          (int_of_string (String.sub e 0 i), if ops = "" then [] else List.map sop_of_string (split_on ',' ops))
        | None -> failwith ("entry " ^ e)) (split_on '+' s)
let hexs (l : int list) : string = if l = [] then "-" else String.concat "" (List.map (Printf.sprintf "%02x") l)
let unhexs (s : string) : int list =
  if s = "-" then [] else List.init (String.length s / 2) (fun i -> int_of_string ("0x" ^ String.sub s (2 * i) 2))

(* Table 3: operand encoding (the shortest form that holds the value); offsets in the 5-byte form *)
let be32 (v : int) : int list = let u = v land 0xffffffff in [u lsr 24; (u lsr 16) land 255; (u lsr 8) land 255; u land 255]
let spec_enc_operand (o : sop) : int list =
  match o with
  | SI v when v >= -107 && v <= 107 -> [v + 139]
  | SI v when v >= 108 && v <= 1131 -> let w = v - 108 in [w / 256 + 247; w mod 256]
  | SI v when v >= -1131 && v <= -108 -> let w = - v - 108 in [w / 256 + 251; w mod 256]
  | SI v when v >= -32768 && v <= 32767 -> let u = v land 0xffff in [28; u lsr 8; u land 255]
  | SI v | SO v -> 29 :: be32 v
  | SR h -> 30 :: unhexs h
let spec_enc_operator (op : int) : int list = if op >= 3072 then [12; op - 3072] else [op]
let spec_encode (d : (int * sop list) list) : int list =
  List.concat_map (fun (op, ops) -> List.concat_map spec_enc_operand ops @ spec_enc_operator op) d

(* decoding; None = not a well-formed DICT (reserved byte, undefined operator, truncated operand, more
   than `max` operands before an operator).  Operands after the last operator are dropped. *)
let spec_decode (max : int) (b : int list) : (int * sop list) list option =
  let sext bits v = if v >= 1 lsl (bits - 1) then v - (1 lsl bits) else v in
  let rec real acc l = match l with
    | [] -> None
    | x :: r -> if x lsr 4 = 15 || x land 15 = 15 then Some (List.rev (x :: acc), r) else real (x :: acc) r in
  let rec go (l : int list) (rops : sop list) (acc : (int * sop list) list) =
    let operand o r = if List.length rops + 1 > max then None else go r (o :: rops) acc in
    let operator op r =
      if List.mem op spec_operators then go r [] ((op, spec_ito op (List.rev rops)) :: acc) else None in
    match l with
    | [] -> Some (List.rev acc)
    | 12 :: b1 :: r -> operator (3072 + b1) r
    | 12 :: [] -> None
    | b0 :: r when b0 <= 24 -> operator b0 r
    | 28 :: a :: b :: r -> operand (SI (sext 16 (a * 256 + b))) r
    | 29 :: a :: b :: c :: d :: r -> operand (SI (sext 32 ((((a * 256 + b) * 256) + c) * 256 + d))) r
    | 30 :: r -> (match real [] r with Some (bs, r') -> operand (SR (hexs bs)) r' | None -> None)
    | b0 :: r when b0 >= 32 && b0 <= 246 -> operand (SI (b0 - 139)) r
    | b0 :: b1 :: r when b0 >= 247 && b0 <= 250 -> operand (SI ((b0 - 247) * 256 + b1 + 108)) r
    | b0 :: b1 :: r when b0 >= 251 && b0 <= 254 -> operand (SI (- (b0 - 251) * 256 - b1 - 108)) r
    | _ -> None in
  go b [] []

let i32_fits (v : int) = v >= -2147483648 && v <= 2147483647
(* a real the reader can return: at least one byte, the first 0xF nibble is in the last byte *)
let real_wf (h : string) : bool =
  let b = unhexs h in
  let has x = x lsr 4 = 15 || x land 15 = 15 in
  match List.rev b with
  | [] -> false
  | last :: front -> has last && not (List.exists has front)
let sop_wf (o : sop) = match o with SI v | SO v -> i32_fits v | SR h -> real_wf h

(* generic parse-write-parse line *)
let pwp (r1 : 'a outcome) (show : 'a -> string) (write : 'a -> z list outcome) (reread : z list -> string) : string =
  match r1 with
  | Err e -> "r=" ^ err_s e | Panic -> "r=panic" | OOB -> "r=oob"
  | Ok t ->
    let r = show t in
    (match write t with
     | Ok b -> "r=ok:" ^ r ^ ";w=" ^ hex_of_bytes b ^ ";r2=" ^ reread b
     | w -> "r=ok:" ^ r ^ ";w=" ^ w_s w)
let fst_o (o : ('a * 'b) outcome) : 'a outcome =
  match o with Ok (a, _) -> Ok a | Err e -> Err e | Panic -> Panic | OOB -> OOB

let mode_of s = if s = "d" then Debug else Release

let run (input : string) : string =
  let p = Array.of_list (split_on '|' input) in
  match p.(0) with
  | "lay" ->
    let (rl, wl) = List.assoc p.(1) layouts in
    let b = layout_write (p.(2) = "1") wl (nums p.(3)) in
    "w=" ^ hex_of_bytes b ^ ";r=" ^ out_s join (layout_read rl b)
  | "rd" ->
    let d = bytes_of_hex p.(3) in
    let c = table_ctxt d in
    (match p.(1) with
     | "maxp" ->
       pwp (fst_o (maxp_read c)) maxp_show (fun t -> Ok (maxp_write t))
         (fun b -> out_s maxp_show (fst_o (maxp_read (table_ctxt b))))
     | "os2" ->
       pwp (fst_o (os2_read c (z_of_string p.(2)))) os2_show (fun t -> Ok (os2_write t))
         (fun b -> out_s os2_show (fst_o (os2_read (table_ctxt b) (zi (List.length b)))))
     | "hmtx" ->
       (match split_on ':' p.(2) with
        | [ng; nh] ->
          let ng = z_of_string ng and nh = z_of_string nh in
          pwp (fst_o (hmtx_read c ng nh)) hmtx_show (fun t -> Ok (hmtx_write t))
            (fun b -> out_s hmtx_show (fst_o (hmtx_read (table_ctxt b) ng nh)))
        | _ -> failwith "hmtx arg")
     | "name" ->
       pwp (fst_o (name_read c)) name_show (fun t -> name_write Z0 t)
         (fun b -> out_s name_show (fst_o (name_read (table_ctxt b))))
     | name ->
       let (rl, wl) = List.assoc name layouts in
       let fill = name = "head" && p.(2) = "1" in
       pwp (layout_read rl d) join (fun v -> Ok (layout_write fill wl v))
         (fun b -> out_s join (layout_read rl b)))
  | "maxpv" ->
    let b = maxp_write (z_of_string p.(1), optnums p.(2)) in
    "w=" ^ hex_of_bytes b ^ ";r=" ^ out_s maxp_show (fst_o (maxp_read (table_ctxt b)))
  | "os2v" ->
    let t = { o_base = nums p.(1); o_v0 = optnums p.(2); o_v1 = optnums p.(3); o_v2 = optnums p.(4); o_v5 = optnums p.(5) } in
    let b = os2_write t in
    "w=" ^ hex_of_bytes b ^ ";r=" ^ out_s os2_show (fst_o (os2_read (table_ctxt b) (zi (List.length b))))
  | "hmtxv" ->
    let hm = if p.(1) = "." then [] else List.map (fun m -> List.map z_of_string (split_on ':' m)) (split_on '+' p.(1)) in
    let ls = nums p.(2) in
    let b = hmtx_write (hm, ls) in
    let nh = List.length hm and nl = List.length ls in
    "w=" ^ hex_of_bytes b ^ ";r=" ^ out_s hmtx_show (fst_o (hmtx_read (table_ctxt b) (zi (nh + nl)) (zi nh)))
  | "loca" ->
    let fmt = z_of_string p.(1) and offs = nums p.(2) in
    (match loca_write fmt offs with
     | Ok b ->
       if offs = [] then "w=" ^ hex_of_bytes b
       else "w=" ^ hex_of_bytes b ^ ";r=" ^ out_s join (fst_o (loca_read (table_ctxt b) (zi (List.length offs - 1)) fmt))
     | w -> "w=" ^ w_s w)
  | "namev" ->
    let recs = if p.(1) = "." then [] else List.map (fun r ->
        match split_on ':' r with
        | [a; b; c; d; s] -> ([z_of_string a; z_of_string b; z_of_string c; z_of_string d], parse_str s)
        | _ -> failwith "namev rec") (split_on '+' p.(1)) in
    let lts = str_list p.(2) in
    (match name_owned_write Z0 recs lts with
     | Ok b ->
       let r = match name_read (table_ctxt b) with
         | Ok (n, _) -> out_s owned_show (name_to_owned n)
         | Err e -> err_s e | Panic -> "panic" | OOB -> "oob" in
       "w=" ^ hex_of_bytes b ^ ";r=" ^ r
     | w -> "w=" ^ w_s w)
  | "cffint" ->
    let v = z_of_string p.(1) in
    let b = operand_int_write v and o = operand_offset_write v in
    "w=" ^ hex_of_bytes b ^ ";r=" ^ op_show b ^ ";wo=" ^ hex_of_bytes o ^ ";ro=" ^ op_show o
  | "cffrd" -> "r=" ^ op_show (bytes_of_hex p.(1))
  | "offs" ->
    (match serialise_offset_array (nums p.(1)) with
     | Ok (sz, b) -> "w=" ^ z_to_string sz ^ ":" ^ hex_of_bytes b
     | Err e -> "w=" ^ err_s e | Panic -> "w=panic" | OOB -> "w=oob")
  | "index" ->
    let wide = p.(1) = "1" in
    (match index_write wide (str_list p.(2)) with
     | Ok b ->
       (match index_read wide (table_ctxt b) with
        | Ok (ix, _) ->
          "w=" ^ hex_of_bytes b ^ ";r=" ^ out_s hex_list (index_objects ix) ^ ";w2=" ^ w_s (index_write_borrowed wide ix)
        | Err e -> "w=" ^ hex_of_bytes b ^ ";r=" ^ err_s e
        | Panic -> "w=" ^ hex_of_bytes b ^ ";r=panic" | OOB -> "w=" ^ hex_of_bytes b ^ ";r=oob")
     | w -> "w=" ^ w_s w)
  | "ixrd" ->
    let wide = p.(1) = "1" in
    (match index_read wide (table_ctxt (bytes_of_hex p.(2))) with
     | Ok (ix, _) ->
       (match index_objects ix with
        | Ok objs -> "r=ok:" ^ hex_list objs ^ ";w2=" ^ w_s (index_write_borrowed wide ix)
        | Err e -> err_s e | Panic -> "panic" | OOB -> "oob")
     | Err e -> "r=" ^ err_s e | Panic -> "panic" | OOB -> "oob")
  | "bigix" ->
    let count = int_of_string p.(1) in
    let d = write_items false [WField ([], PU32)] [zi count] @ (if count > 0 then zi 1 :: repeat_z (zi 1) (count + 1) [] else []) in
    (match index_read true (table_ctxt d) with
     | Ok (ix, _) ->
       (match index_write_borrowed true ix with
        | Ok b -> "r=ok:" ^ z_to_string ix.ix_count ^ ";w2=" ^ (if b = d then "same" else "different")
        | w -> "r=ok:" ^ z_to_string ix.ix_count ^ ";w2=" ^ w_s w)
     | Err e -> "r=" ^ err_s e | Panic -> "panic" | OOB -> "oob")
  | "glyph" ->
    let m = mode_of p.(1) in
    let coords = if p.(5) = "." then [] else List.map (fun c ->
        match split_on ':' c with
        | [f; x; y] -> (z_of_string f, (z_of_string x, z_of_string y))
        | _ -> failwith "coord") (split_on '+' p.(5)) in
    let g = { sg_bbox = nums p.(2); sg_endpts = nums p.(3); sg_instr = parse_str p.(4); sg_coords = coords } in
    (match simple_glyph_write g with
     | Ok b -> "w=" ^ hex_of_bytes b ^ ";r=" ^ glyph_read_show m b
     | w -> "w=" ^ w_s w)
  | "glyphrd" ->
    let m = mode_of p.(1) in
    (match glyph_read m (table_ctxt (bytes_of_hex p.(2))) with
     | Ok (None, _) -> "r=composite"
     | Ok (Some g, _) ->
       (match simple_glyph_write g with
        | Ok b -> "r=ok:" ^ glyph_show g ^ ";w=" ^ hex_of_bytes b ^ ";r2=" ^ glyph_read_show m b
        | w -> "r=ok:" ^ glyph_show g ^ ";w=" ^ w_s w)
     | Err e -> "r=" ^ err_s e | Panic -> "panic" | OOB -> "oob")
  | "u24" -> "w=" ^ w_s (write_u24 (z_of_string p.(1)))
  | "pascal" -> "w=" ^ w_s (pascal_write (parse_str p.(1)))
  | "file" -> "n/a"
  | "filed" -> "n/a"
  | "dict" -> dict_pwp_model p.(1) (bytes_of_hex p.(2))
  | "dictw" ->
    let k = kind_of p.(1) in
    (match dict_write_dep dict_prefix (kind_defaults k) (parse_entries p.(2)) (parse_entries p.(3)) with
     | Ok (w, n) -> "w=" ^ hex_of_bytes w ^ ";n=" ^ z_to_string n ^ ";r=" ^ snd (dict_rd_s k w)
     | _ -> "w=panic")
  | k -> failwith ("kind " ^ k)

(* ---------- the judge: the property, decided on the implementation's output *)
let parts (s : string) : (string * string) list =
  List.filter_map (fun kv ->
      match String.index_opt kv '=' with
      | Some i -> Some (String.sub kv 0 i, String.sub kv (i + 1) (String.length kv - i - 1))
      | None -> None) (split_on ';' s)
let get k l = try Some (List.assoc k l) with Not_found -> None
let is_bytes (s : string) = not (starts_with "err:" s) && s <> "panic" && s <> "oob"
let zle a b = not (z_ltb b a)
let z65535 = zi 65535

(* flags reduced to ON_CURVE in a glyph show string *)
let glyph_norm (s : string) : string =
  match split_on '/' s with
  | [a; b; c; d] when d <> "." ->
    let cs = List.map (fun c -> match split_on ':' c with
        | [f; x; y] -> string_of_int (int_of_string f land 1) ^ ":" ^ x ^ ":" ^ y
        | _ -> c) (split_on '+' d) in
    String.concat "/" [a; b; c; String.concat "+" cs]
  | _ -> s

let rec deltas_fit (prev : int) (l : int list) : bool =
  match l with
  | [] -> true
  | x :: r -> let d = x - prev in d >= -32768 && d <= 32767 && deltas_fit x r


(* ---------- CFF DICT judges: decided on the implementation's output with the reference above *)
let kv_parts (s : string) : (string * string) list =
  List.filter_map (fun kv ->
      match String.index_opt kv '=' with
      | Some i -> Some (String.sub kv 0 i, String.sub kv (i + 1) (String.length kv - i - 1))
      | None -> None) (split_on ';' s)
let is_hex (s : string) =
  s = "-" || (String.length s mod 2 = 0 && String.length s > 0 &&
              (let ok = ref true in String.iter (fun c -> if not ((c >= '0' && c <= '9') || (c >= 'a' && c <= 'f')) then ok := false) s; !ok))
let hexlen (s : string) = if s = "-" then 0 else String.length s / 2
let sentries_to_string (d : (int * sop list) list) : string =
  let o = function SI v -> "i" ^ string_of_int v | SO v -> "o" ^ string_of_int v | SR h -> "r" ^ h in
  if d = [] then "." else String.concat "+" (List.map (fun (op, ops) -> string_of_int op ^ ":" ^ String.concat "," (List.map o ops)) d)

(* bytes -> read -> write (no delta) -> read -> write: None = no violation *)
let judge_dict (kind : string) (hexin : string) (impl : string) : (string * string) option =
  let ip = kv_parts impl in
  let g k = try Some (List.assoc k ip) with Not_found -> None in
  let max = spec_max kind in
  let reference = spec_decode max (unhexs hexin) in
  match g "r" with
  | None -> None
  | Some r when not (starts_with "ok:" r) ->
    (match reference with
     | Some _ -> Some ("refusal", "a well-formed " ^ kind ^ " DICT was refused by the reader: " ^ r)
     | None -> None)
  | Some r ->
    let e1s = String.sub r 3 (String.length r - 3) in
    let e1 = sentries_of_string e1s in
    if reference <> Some e1 then
      Some ("decode", "read_dep differs from the reference decoding " ^
                      (match reference with Some d -> sentries_to_string d | None -> "(not a DICT)"))
    else begin
      let kept = spec_elide kind e1 in
      match g "w" with
      | None -> None
      | Some w when not (is_hex w) -> Some ("refusal", "a parsed DICT was not written: " ^ w)
      | Some w ->
        if g "n" <> Some (string_of_int (hexlen w)) then
          Some ("length", "write_dep returned " ^ (match g "n" with Some n -> n | None -> "?") ^ " for " ^ string_of_int (hexlen w) ^ " bytes written")
        else if unhexs w <> spec_encode kept then
          Some ("roundtrip", "written bytes are not the encoding of the parsed DICT minus its exactly-default entries (" ^ sentries_to_string kept ^ ")")
        else if g "r2" <> Some ("ok:" ^ sentries_to_string kept) then
          Some ("stability", "parse(write(parse(b))) is not parse(b) minus its exactly-default entries (" ^ sentries_to_string kept ^ ")")
        else if g "w2" <> Some w then Some ("stability", "write(parse(write(d))) <> write(d)")
        else None
    end

(* entries -> write (with delta) -> read *)
let judge_dictw (kind : string) (entries : string) (delta : string) (impl : string) : (string * string) option =
  let ip = kv_parts impl in
  let g k = try Some (List.assoc k ip) with Not_found -> None in
  let d = sentries_of_string entries and dl = sentries_of_string delta in
  let defs = spec_defaults kind in
  let written = List.filter_map (fun (op, ops) ->
      match List.assoc_opt op dl with
      | Some dops -> Some (op, dops)
      | None -> (match List.assoc_opt op defs with Some dflt when dflt = ops -> None | _ -> Some (op, ops))) d in
  let all_wf = List.for_all (fun (_, ops) -> List.for_all sop_wf ops) written in
  let within = List.for_all (fun (op, ops) -> List.mem op spec_operators && List.length ops <= spec_max kind) written in
  let readback = List.map (fun (op, ops) -> (op, spec_ito op (List.map deoff ops))) written in
  match g "w" with
  | None -> None
  | Some w when not (is_hex w) -> Some ("refusal", "DICT not written: " ^ w)
  | Some w ->
    if g "n" <> Some (string_of_int (hexlen w)) then
      Some ("length", "write_dep returned " ^ (match g "n" with Some n -> n | None -> "?") ^ " for " ^ string_of_int (hexlen w) ^ " bytes written")
    else if not all_wf then None
    else if unhexs w <> spec_encode written then
      Some ("roundtrip", "written bytes are not the encoding of the entries (delta applied, exactly-default entries omitted): expected " ^ hexs (spec_encode written))
    else if not within then None
    else if g "r" <> Some ("ok:" ^ sentries_to_string readback) then
      Some ("roundtrip", "read(write(d)) <> d minus exactly-default entries: expected " ^ sentries_to_string readback)
    else None

let judge (input : string) (impl : string) (model : string) : verdict =
  let p = Array.of_list (split_on '|' input) in
  let ip = parts impl in
  let same () = if impl = model then Agree else Mismatch "implementation and model differ" in
  let viol c w = Violation (c, w) in
  (* a panic the model does not predict is a violation of any part of the property *)
  let has_panic = impl = "panic" || List.exists (fun (_, v) -> v = "panic") ip in
  let model_panic = model = "panic" || List.exists (fun (_, v) -> v = "panic") (parts model) in
  if impl = "oob" then viol "oob" "out-of-bounds read"
  else if has_panic && not model_panic then viol "panic" ("panicked: " ^ impl)
  else match p.(0) with
    | "lay" ->
      let (rl, wl) = List.assoc p.(1) layouts in
      let fill = p.(2) = "1" and vs = nums p.(3) in
      let valid = vals_okb (strip_asserts rl) vs && asserts_hold rl [] (wire fill wl vs) in
      if valid && get "r" ip <> Some ("ok:" ^ join (readback fill wl vs)) then
        viol "roundtrip" (p.(1) ^ ": read(write(v)) <> v")
      else same ()
    | "rd" ->
      (match get "r" ip, get "w" ip, get "r2" ip with
       | Some r, Some w, Some r2 when starts_with "ok:" r && is_bytes w ->
         let expect =
           match p.(1) with
           | "head" when p.(2) <> "1" ->
             (* unfilled placeholder: check_sum_adjustment reads back as 0 *)
             (match split_on ',' r with
              | a :: b :: c :: _ :: rest -> Some (String.concat "," (a :: b :: c :: "0" :: rest))
              | _ -> None)
           | "os2" ->
             if String.length p.(3) / 2 <> int_of_string p.(2) then None
             else begin
               (* versions 2-3 are written as 4, >5 as 5 *)
               match split_on '/' (String.sub r 3 (String.length r - 3)) with
               | [base; v0; v1; v2; v5] ->
                 let ver = if v5 <> "-" then "5" else if v2 <> "-" then "4" else if v1 <> "-" then "1" else "0" in
                 (match split_on ',' base with
                  | _ :: rest -> Some ("ok:" ^ String.concat "/" [String.concat "," (ver :: rest); v0; v1; v2; v5])
                  | _ -> None)
               | _ -> None
             end
           | _ -> Some r in
         (match expect with
          | Some e when e <> r2 -> viol "stability" (p.(1) ^ ": parse(write(parse(b))) <> parse(b)")
          | _ -> same ())
       | _ -> same ())
    | "maxpv" ->
      if get "r" ip <> Some ("ok:" ^ p.(1) ^ "/" ^ p.(2)) then viol "roundtrip" "maxp: read(write(v)) <> v" else same ()
    | "os2v" ->
      let some i = p.(i) <> "-" in
      let wf = (not (some 5) || some 4) && (not (some 4) || some 3) && (not (some 4) || some 2) in
      if not wf then same ()
      else begin
        let ver = if some 5 then "5" else if some 4 then "4" else if some 3 then "1" else "0" in
        let base = match split_on ',' p.(1) with _ :: rest -> String.concat "," (ver :: rest) | _ -> "" in
        let expect = "ok:" ^ String.concat "/" [base; p.(2); p.(3); p.(4); p.(5)] in
        if get "r" ip <> Some expect then viol "roundtrip" "OS/2: read(write(v)) <> v up to the version normalisation" else same ()
      end
    | "hmtxv" ->
      if get "r" ip <> Some ("ok:" ^ p.(1) ^ "/" ^ (if p.(2) = "" then "-" else p.(2))) then viol "roundtrip" "hmtx: read(write(v)) <> v" else same ()
    | "loca" ->
      let offs = nums p.(2) in
      let short = p.(1) = "0" in
      let too_wide = short && List.exists (fun o -> z_to_int o land 1 = 1 || z_to_int o > 131070) offs in
      (match get "w" ip with
       | Some w when too_wide && is_bytes w -> viol "truncation" "short loca accepted an odd or too large offset"
       | Some w when (not too_wide) && not (is_bytes w) -> viol "refusal" "loca refused representable offsets"
       | Some w when is_bytes w && offs <> [] && get "r" ip <> Some ("ok:" ^ join offs) -> viol "roundtrip" "loca: read(write(v)) <> v"
       | _ -> same ())
    | "namev" ->
      let strs = (if p.(1) = "." then [] else List.map (fun r -> List.nth (split_on ':' r) 4) (split_on '+' p.(1)))
                 @ (if p.(2) = "." then [] else split_on '+' p.(2)) in
      let lens = List.map (fun s -> List.length (parse_str s)) strs in
      let nrec = if p.(1) = "." then 0 else List.length (split_on '+' p.(1)) in
      let nlt = if p.(2) = "." then 0 else List.length (split_on '+' p.(2)) in
      let start = 6 + 12 * nrec + (if nlt > 0 then 2 + 4 * nlt else 0) in
      let rec offs_ok off = function [] -> true | l :: r -> off <= 65535 && offs_ok (off + l) r in
      let fits = List.for_all (fun l -> l <= 65535) lens && offs_ok 0 lens && start <= 65535 && nrec <= 65535 in
      (match get "w" ip with
       | Some w when (not fits) && is_bytes w -> viol "truncation" "name: a length or offset beyond 16 bits was written"
       | Some w when fits && not (is_bytes w) -> viol "refusal" "name: representable table refused"
       | Some w when is_bytes w ->
         let expect = "ok:" ^ owned_show
             ((if p.(1) = "." then [] else List.map (fun r -> match split_on ':' r with
                  | [a; b; c; d; s] -> ([z_of_string a; z_of_string b; z_of_string c; z_of_string d], parse_str s)
                  | _ -> failwith "rec") (split_on '+' p.(1))), str_list p.(2)) in
         if get "r" ip <> Some expect then viol "roundtrip" "name: read(write(v)) <> v" else same ()
       | _ -> same ())
    | "cffint" ->
      (match get "w" ip, get "r" ip, get "ro" ip with
       | Some w, Some r, Some ro ->
         if r <> Printf.sprintf "int:%s:%d" p.(1) (String.length w / 2) then viol "roundtrip" "CFF integer operand: read(write(v)) <> v"
         else if ro <> Printf.sprintf "int:%s:5" p.(1) then viol "roundtrip" "CFF offset operand: read(write(v)) <> v"
         else same ()
       | _ -> same ())
    | "offs" ->
      let offs = List.map z_to_int (nums p.(1)) in
      let rec mono = function a :: (b :: _ as r) -> a <= b && mono r | _ -> true in
      if not (mono offs) || offs = [] then same ()
      else begin
        let last = List.nth offs (List.length offs - 1) in
        match get "w" ip with
        | Some w when last > 4294967295 && not (starts_with "err:" w) -> viol "truncation" "offset beyond 32 bits was written"
        | Some w when last <= 4294967295 && starts_with "err:" w -> viol "refusal" "representable offsets refused"
        | Some w when not (starts_with "err:" w) ->
          (match split_on ':' w with
           | [sz; h] ->
             let sz = int_of_string sz in
             let need = if last <= 255 then 1 else if last <= 65535 then 2 else if last <= 16777215 then 3 else 4 in
             let b = List.map z_to_int (bytes_of_hex h) in
             let rec dec l = match l with
               | [] -> []
               | _ ->
                 let rec take k l acc = if k = 0 then (acc, l) else (match l with x :: r -> take (k - 1) r (acc * 256 + x) | [] -> (acc, [])) in
                 let (v, rest) = take sz l 0 in v :: dec rest in
             if sz <> need then viol "offsize" "off_size is not the minimal one"
             else if dec b <> offs then viol "truncation" "offset array does not decode to the offsets"
             else same ()
           | _ -> same ())
        | _ -> same ()
      end
    | "index" ->
      (match get "w" ip with
       | Some w when is_bytes w ->
         let expect = "ok:" ^ hex_list (str_list p.(2)) in
         if get "r" ip <> Some expect then viol "roundtrip" "INDEX: read(write(v)) <> v"
         else if get "w2" ip <> Some w then viol "stability" "INDEX: writing the parsed INDEX does not reproduce the bytes"
         else same ()
       | Some _ ->
         (* refusal is only right when the count or the data does not fit *)
         let objs = str_list p.(2) in
         let total = List.fold_left (fun a o -> a + List.length o) 1 objs in
         let maxc = if p.(1) = "1" then 4294967295 else 65535 in
         if List.length objs <= maxc && total <= 4294967295 then viol "refusal" "representable INDEX refused" else same ()
       | None -> same ())
    | "ixrd" ->
      (match get "r" ip, get "w2" ip with
       | Some r, Some w2 when starts_with "ok:" r ->
         if not (is_bytes w2) then viol "refusal" "parsed INDEX refused by the writer"
         else if not (starts_with (if w2 = "-" then "" else w2) p.(2)) then viol "stability" "INDEX: write(parse(b)) is not the parsed prefix of b"
         else same ()
       | _ -> same ())
    | "bigix" ->
      (match get "r" ip, get "w2" ip with
       | Some r, Some w2 when starts_with "ok:" r && w2 <> "same" ->
         viol "index-count" ("CFF2 INDEX with " ^ p.(1) ^ " objects parsed but not written back: " ^ w2)
       | _ -> same ())
    | "glyph" ->
      let coords = if p.(5) = "." then [] else List.map (fun c -> match split_on ':' c with
          | [f; x; y] -> (int_of_string f, int_of_string x, int_of_string y) | _ -> failwith "c") (split_on '+' p.(5)) in
      let fit = deltas_fit 0 (List.map (fun (_, x, _) -> x) coords) && deltas_fit 0 (List.map (fun (_, _, y) -> y) coords) in
      let endpts = List.map z_to_int (nums p.(3)) in
      let npts = match List.rev endpts with [] -> 0 | l :: _ -> l + 1 in
      let consistent = npts = List.length coords in
      (match get "w" ip with
       | Some w when (not fit) && not (starts_with "err:" w) ->
         viol "glyph-delta" ("coordinate delta beyond i16 was not refused: w=" ^ (if String.length w > 12 then String.sub w 0 12 else w))
       | Some w when fit && not (is_bytes w) -> viol "refusal" "representable glyph refused"
       | Some w when fit && consistent ->
         let expect = "ok:" ^ glyph_norm (String.concat "/" [p.(2); (if p.(3) = "" then "-" else p.(3)); hex_of_bytes (parse_str p.(4)); p.(5)]) in
         if get "r" ip <> Some expect then viol "roundtrip" "glyph: read(write(v)) <> v" else same ()
       | _ -> same ())
    | "glyphrd" when model = "r=composite" -> Agree   (* composite glyphs are not modelled *)
    | "glyphrd" ->
      (match get "r" ip, get "w" ip, get "r2" ip with
       | Some r, Some w, Some r2 when starts_with "ok:" r && is_bytes w ->
         if r2 <> glyph_norm r then viol "stability" "glyph: parse(write(parse(b))) <> parse(b)" else same ()
       | _ -> same ())
    | "u24" ->
      let v = int_of_string p.(1) in
      (match get "w" ip with
       | Some w when v > 16777215 && is_bytes w -> viol "truncation" "U24 wrote a value beyond 24 bits"
       | Some w when v <= 16777215 && w <> Printf.sprintf "%06x" v -> viol "roundtrip" "U24 bytes"
       | _ -> same ())
    | "pascal" ->
      let l = List.length (parse_str p.(1)) in
      (match get "w" ip with
       | Some w when l > 255 && is_bytes w -> viol "truncation" "Pascal string longer than 255 written"
       | Some w when l <= 255 && not (is_bytes w) -> viol "refusal" "Pascal string refused"
       | _ -> same ())
    | "dict" ->
      (match judge_dict p.(1) p.(2) impl with Some (c, w) -> viol c w | None -> same ())
    | "dictw" ->
      (match judge_dictw p.(1) p.(2) p.(3) impl with Some (c, w) -> viol c w | None -> same ())
    | "filed" ->
      (* every DICT of a fixture font: `dicts=N#KIND HEX -> result ## ...`, each judged like dict|KIND|HEX
         and compared with the model's prediction for those bytes *)
      (match String.index_opt impl '#' with
       | Some i when starts_with "dicts=" impl ->
         let body = String.sub impl (i + 1) (String.length impl - i - 1) in
         let items = if body = "" then [] else
             List.filter (fun x -> x <> "") (List.map String.trim (String.split_on_char '#' body)) in
         let res = List.fold_left (fun acc item ->
             match acc with
             | Violation _ -> acc
             | _ ->
               (match String.split_on_char ' ' item with
                | [k; h; "->"; out] ->
                  (match judge_dict k h out with
                   | Some (c, w) -> Violation (c, p.(1) ^ " " ^ k ^ " DICT " ^ h ^ ": " ^ w)
                   | None -> if dict_pwp_model k (bytes_of_hex h) = out then acc
                     else Mismatch ("fixture DICT " ^ k ^ " " ^ h ^ ": implementation and model differ"))
                | _ -> Mismatch ("unparsable item " ^ item))) Agree items in
         if items = [] then Mismatch "no DICT found in the fixture" else res
       | _ -> if impl = "dicts=nofile" then Agree else Mismatch ("fixture DICTs: " ^ impl))
    | "file" ->
      (match get "pwp" ip with
       | Some s when starts_with "stable" s || s = "absent" || s = "nofile" -> Agree
       | Some s -> viol "stability" ("fixture " ^ p.(1) ^ " " ^ p.(2) ^ ": " ^ s)
       | None -> Mismatch "no pwp result")
    | _ -> same ()

let tag (input : string) (out : string) : string =
  let p = split_on '|' input in
  let k = List.hd p in
  let sub = match k with "lay" | "rd" | "file" | "dict" | "dictw" -> "-" ^ List.nth p 1 | "filed" -> "-" ^ Filename.basename (List.nth p 1) | _ -> "" in
  let cls =
    if out = "n/a" then ""
    else if List.exists (fun (_, v) -> starts_with "err:" v) (parts out) then "-err"
    else if List.exists (fun (_, v) -> v = "panic") (parts out) then "-panic" else "-ok" in
  k ^ sub ^ cls
