(* C17: run the extracted text-preprocessing model on one case line and judge the implementation.
   input  = TAG|CPS|CLASSES   or   T|CP|CCC     (see harness/src/bin/c17.rs)
   output = ok:CPS | panic | err:E              or   mcc:N *)
open Model
open Zconv
open Verdict

let parse_tag (s : string) : int =
  if String.length s = 4 then begin
    let v = ref 0 in
    String.iter (fun c -> v := (!v lsl 8) lor (Char.code (if c = '_' then ' ' else c))) s;
    !v
  end else int_of_string ("0x" ^ s)

let parse_cps (s : string) : int list =
  if s = "-" || s = "" then [] else List.map (fun x -> int_of_string ("0x" ^ x)) (split_on ',' s)

let show_cps (l : int list) : string =
  if l = [] then "-" else String.concat "," (List.map (Printf.sprintf "%x") l)

let parse_classes (s : string) : (int, int) Hashtbl.t =
  let h = Hashtbl.create 64 in
  if s <> "-" && s <> "" then
    List.iter (fun kv ->
        match split_on ':' kv with
        | [k; v] -> Hashtbl.replace h (int_of_string ("0x" ^ k)) (int_of_string v)
        | _ -> failwith ("class entry " ^ kv)) (split_on ',' s);
  h

type case =
  | Text of int * int list * (int, int) Hashtbl.t
  | Table of int * int

let parse (input : string) : case =
  match split_on '|' input with
  | ["T"; cp; ccc] -> Table (int_of_string ("0x" ^ cp), int_of_string ccc)
  | [tag; cps; cls] -> Text (parse_tag tag, parse_cps cps, parse_classes cls)
  | _ -> failwith "c17 input"

let class_fn (h : (int, int) Hashtbl.t) : int -> int =
  fun c -> try Hashtbl.find h c with Not_found -> 0

let run (input : string) : string =
  match parse input with
  | Table (cp, ccc) ->
    (match modified_combining_class_of (z_of_int cp) (z_of_int ccc) with
     | Ok m -> "mcc:" ^ z_to_string m
     | _ -> "panic")
  | Text (tag, cps, h) ->
    let cf = class_fn h in
    let cls (c : z) : z = z_of_int (cf (z_to_int c)) in
    (match preprocess_text cls (List.map z_of_int cps) (z_of_int tag) with
     | Ok l -> "ok:" ^ show_cps (List.map z_to_int l)
     | Err e -> "err:" ^ err_to_string e
     | Panic -> "panic"
     | OOB -> "oob")

let action_name (tag : int) : string =
  match action_of (script_type_of (z_of_int tag)) with
  | ActArabic -> "arabic" | ActSort -> "sort" | ActIndic -> "indic" | ActKhmer -> "khmer"
  | ActNone -> "none" | ActThaiLao -> "thailao"

(* longest run of characters of non-zero class *)
let longest_run (cf : int -> int) (l : int list) : int =
  let best = ref 0 and cur = ref 0 in
  List.iter (fun c -> if cf c = 0 then cur := 0 else (incr cur; if !cur > !best then best := !cur)) l;
  !best

let tag (input : string) (out : string) : string =
  match parse input with
  | Table _ -> "mcc-table"
  | Text (t, cps, h) ->
    let cf = class_fn h in
    let a = action_name t in
    let changed = out <> "ok:" ^ show_cps cps in
    let lr = longest_run cf cps in
    a ^ (if changed then "/changed" else "/same")
    ^ (if lr > 20 then "/run>20" else if lr > 1 then "/run>1" else "")
    ^ (if List.length cps = 0 then "/empty" else "")

(* ---- the property, decided on the implementation's output ---- *)
let multiset (l : int list) : int list = List.sort compare l

(* the content the output must have: SARA AM / split matras / Khmer split vowels expanded *)
let expand_am (l : int list) : int list =
  List.concat_map (fun c -> match split_am_vowel (z_of_int c) with
      | Some (a, b) -> [z_to_int a; z_to_int b] | None -> [c]) l
let expand_matra (l : int list) : int list =
  List.concat_map (fun c -> match split_matra (z_of_int c) with
      | Some parts when parts <> [] -> List.map z_to_int parts | _ -> [c]) l
let khmer_vowels = List.map z_to_int kHMER_SPLIT_VOWELS
let expand_khmer (l : int list) : int list =
  List.concat_map (fun c -> if List.mem c khmer_vowels then [z_to_int kHMER_PREBASE_PART; c] else [c]) l
let dotted = z_to_int dOTTED_CIRCLE
let ya = z_to_int yA and nukta = z_to_int nUKTA and yya = z_to_int yYA
(* YYA written back as YA NUKTA: the only recomposition the property allows *)
let unrecompose (l : int list) : int list =
  List.concat_map (fun c -> if c = yya then [ya; nukta] else [c]) l
let count x l = List.length (List.filter (fun y -> y = x) l)

let runs (cf : int -> int) (l : int list) : int list list =
  (* maximal runs of non-zero class, including the empty ones between adjacent class-0 characters *)
  let rec go acc cur = function
    | [] -> List.rev (List.rev cur :: acc)
    | c :: t -> if cf c = 0 then go (List.rev cur :: acc) [] t else go acc (c :: cur) t
  in go [] [] l

let rec sorted_by (cf : int -> int) = function
  | a :: (b :: _ as t) -> cf a <= cf b && sorted_by cf t
  | _ -> true

let stable (cf : int -> int) (rin : int list) (rout : int list) : bool =
  List.for_all (fun k -> List.filter (fun c -> cf c = k) rin = List.filter (fun c -> cf c = k) rout)
    (List.sort_uniq compare (List.map cf rin))

(* permutation in which class-0 characters keep their index and runs are rearranged within themselves *)
let run_local (cf : int -> int) (inp : int list) (out : int list) : (string * string) option =
  if multiset inp <> multiset out then Some ("content", "the output is not a permutation of the input")
  else if List.exists2 (fun a b -> cf a = 0 && a <> b) inp out then
    Some ("base-moved", "a character of class 0 did not keep its index")
  else if List.exists2 (fun a b -> multiset a <> multiset b) (runs cf inp) (runs cf out) then
    Some ("run-local", "a mark left its run")
  else None

let judge_text (tag : int) (inp : int list) (cf : int -> int) (out : int list) : string * string =
  match action_of (script_type_of (z_of_int tag)) with
  | ActNone -> ("content", "Myanmar text must be left unchanged")
  | ActSort ->
    (match run_local cf inp out with
     | Some v -> v
     | None ->
       let ri = runs cf inp and ro = runs cf out in
       if not (List.for_all (sorted_by cf) ro) then ("order", "a mark run is not sorted by modified combining class")
       else if not (List.for_all2 (stable cf) ri ro) then ("stability", "marks of equal class changed their relative order")
       else ("order", "differs from the specified order"))
  | ActArabic ->
    (match run_local cf inp out with
     | Some v -> v
     | None -> ("arabic-order", "mark run is not in the AMTRA order (MCM below, MCM above, shadda, rest stably by class)"))
  | ActThaiLao ->
    if multiset out <> multiset (expand_am inp) then
      ("content", "the output is not a rearrangement of the input with every SARA AM split")
    else ("order", "right content, but not the specified order (nikhahit before the above-base marks, runs sorted)")
  | ActKhmer ->
    if multiset out <> multiset (expand_khmer inp) then
      ("content", "the output is not a rearrangement of the input with the split vowels prefixed by U+17C1")
    else ("order", "right content, but not the specified order")
  | ActIndic ->
    let strip l = List.filter (fun c -> c <> dotted) l in
    let circles_in = count dotted inp and circles_out = count dotted out in
    if multiset (unrecompose (strip out)) <> multiset (unrecompose (expand_matra (strip inp))) then
      ("content", "apart from dotted circles the output is not the input with split matras expanded and ya+nukta recomposed")
    else if circles_out < circles_in then ("content", "a dotted circle of the input disappeared")
    else ("order-or-circle", "right content, but a dotted circle or a character is not where the specification puts it")

let judge (input : string) (impl : string) (model : string) : verdict =
  match parse input with
  | Table (cp, ccc) ->
    if impl = model then Agree
    else Violation ("mcc-table", Printf.sprintf "modified class of U+%04X (ccc %d): implementation %s, table %s" cp ccc impl model)
  | Text (tag, cps, h) ->
    if impl = "panic" then Violation ("panic", "preprocess_text panicked")
    else if impl = model then Agree
    else if not (starts_with "ok:" model) then Mismatch ("the model did not produce a value: " ^ model)
    else if not (starts_with "ok:" impl) then Mismatch ("unexpected implementation result " ^ impl)
    else begin
      (* the specification is a function of the input (C17_*_spec theorems): any other output violates
         it; the checks below only name the part of the property that fails first *)
      let out = parse_cps (String.sub impl 3 (String.length impl - 3)) in
      let (cls, why) = judge_text tag cps (class_fn h) out in
      Violation (cls, why)
    end
