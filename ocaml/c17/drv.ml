(* C17: run the extracted text-preprocessing model on one case line and judge the implementation.
   input  = TAG|CPS|CLASSES   or   T|CP|CCC     (see harness/src/bin/c17.rs)
   output = ok:CPS | panic | err:E              or   mcc:N *)
open Model
open Zconv
open Verdict

let parse_tag (s : string) : int =
  if String.length s = 4 then begin
    let v = ref 0 in
    String.iter (fun c -> v := (!v lsl 8) lor (Char.code (if c = '_' then ' ' else c))) s;
    !v
  end else int_of_string ("0x" ^ s)

let parse_cps (s : string) : int list =
  if s = "-" || s = "" then [] else List.map (fun x -> int_of_string ("0x" ^ x)) (split_on ',' s)

let show_cps (l : int list) : string =
  if l = [] then "-" else String.concat "," (List.map (Printf.sprintf "%x") l)

let parse_classes (s : string) : (int, int) Hashtbl.t =
  let h = Hashtbl.create 64 in
  if s <> "-" && s <> "" then
    List.iter (fun kv ->
        match split_on ':' kv with
        | [k; v] -> Hashtbl.replace h (int_of_string ("0x" ^ k)) (int_of_string v)
        | _ -> failwith ("class entry " ^ kv)) (split_on ',' s);
  h

type case =
  | Text of int * int list * (int, int) Hashtbl.t
  | Table of int * int

let parse (input : string) : case =
  match split_on '|' input with
  | ["T"; cp; ccc] -> Table (int_of_string ("0x" ^ cp), int_of_string ccc)
  | [tag; cps; cls] -> Text (parse_tag tag, parse_cps cps, parse_classes cls)
  | _ -> failwith "c17 input"

let class_fn (h : (int, int) Hashtbl.t) : int -> int =
  fun c -> try Hashtbl.find h c with Not_found -> 0

let run (input : string) : string =
  match parse input with
  | Table (cp, ccc) ->
    (match modified_combining_class_of (z_of_int cp) (z_of_int ccc) with
     | Ok m -> "mcc:" ^ z_to_string m
     | _ -> "panic")
  | Text (tag, cps, h) ->
    let cf = class_fn h in
    let cls (c : z) : z = z_of_int (cf (z_to_int c)) in
    (match preprocess_text cls (List.map z_of_int cps) (z_of_int tag) with
     | Ok l -> "ok:" ^ show_cps (List.map z_to_int l)
     | Err e -> "err:" ^ err_to_string e
     | Panic -> "panic"
     | OOB -> "oob")

let action_name (tag : int) : string =
  match action_of (script_type_of (z_of_int tag)) with
  | ActArabic -> "arabic" | ActSort -> "sort" | ActIndic -> "indic" | ActKhmer -> "khmer"
  | ActNone -> "none" | ActThaiLao -> "thailao"

(* longest run of characters of non-zero class *)
let longest_run (cf : int -> int) (l : int list) : int =
  let best = ref 0 and cur = ref 0 in
  List.iter (fun c -> if cf c = 0 then cur := 0 else (incr cur; if !cur > !best then best := !cur)) l;
  !best

let tag (input : string) (out : string) : string =
  match parse input with
  | Table _ -> "mcc-table"
  | Text (t, cps, h) ->
    let cf = class_fn h in
    let a = action_name t in
    let changed = out <> "ok:" ^ show_cps cps in
    let lr = longest_run cf cps in
    a ^ (if changed then "/changed" else "/same")
    ^ (if lr > 20 then "/run>20" else if lr > 1 then "/run>1" else "")
    ^ (if List.length cps = 0 then "/empty" else "")

(* ---- the property, decided on the implementation's output ----
   Everything below uses only the REFERENCE tables (Model/PreprocessRef.v, typed by hand from Unicode,
   UTR #53 and the Microsoft/OpenType documents and extracted), never the tables regenerated from the
   Rust source: `reference` computes the one output the property allows (the specification of
   Props/C17.v is a function of the input), the other checks name the part of the property that fails. *)
let zi = z_of_int and iz = z_to_int
let multiset (l : int list) : int list = List.sort compare l
let ref_am c = List.map iz (ref_expand_am (zi c))
let ref_matra c = List.map iz (ref_expand_matra (zi c))
let ref_khmer c = List.map iz (ref_expand_khmer (zi c))
let is_mcm c = ref_is_mcm (zi c)
let is_above c = ref_is_abovebase (zi c)
let dotted = iz rEF_DOTTED_CIRCLE
let ya = iz rEF_YA and nukta = iz rEF_NUKTA and yya = iz rEF_YYA
let shadda_class = iz rEF_SHADDA_CLASS
let kannada_prefix = List.map iz rEF_KANNADA_PREFIX
let unrecompose (l : int list) : int list =
  List.concat_map (fun c -> if c = yya then [ya; nukta] else [c]) l
let count x l = List.length (List.filter (fun y -> y = x) l)

let runs (cf : int -> int) (l : int list) : int list list =
  (* maximal runs of non-zero class, including the empty ones between adjacent class-0 characters *)
  let rec go acc cur = function
    | [] -> List.rev (List.rev cur :: acc)
    | c :: t -> if cf c = 0 then go (List.rev cur :: acc) [] t else go acc (c :: cur) t
  in go [] [] l

(* f on every maximal run of marks *)
let on_runs_ref (cf : int -> int) (f : int list -> int list) (l : int list) : int list =
  let rec go cur = function
    | [] -> f (List.rev cur)
    | c :: t -> if cf c = 0 then f (List.rev cur) @ (c :: go [] t) else go (c :: cur) t
  in go [] l

let sort_ref cf l = on_runs_ref cf (List.stable_sort (fun a b -> compare (cf a) (cf b))) l

let rec split_while p = function
  | x :: t when p x -> let (a, b) = split_while p t in (x :: a, b)
  | l -> ([], l)

let arabic_ref cf l =
  let step m r =
    (* the modifier combining marks that start the first group of class m go to the front *)
    let (a, rest) = split_while (fun c -> cf c <> m) r in
    let (p, b) = split_while is_mcm rest in
    p @ a @ b in
  on_runs_ref cf (fun r ->
      let s = List.stable_sort (fun a b -> compare (cf a) (cf b)) r in
      let s = List.filter (fun c -> cf c = shadda_class) s @ List.filter (fun c -> cf c <> shadda_class) s in
      step 220 (step 230 s)) l

let thai_ref cf l =
  let ins_above p c1 =
    let (tl, fr) = split_while is_above (List.rev p) in
    List.rev fr @ (c1 :: List.rev tl) in
  let pass = List.fold_left (fun p c ->
      match ref_am c with
      | [c1; c2] -> ins_above p c1 @ [c2]
      | _ -> p @ [c]) [] l in
  sort_ref cf pass

let rec circles_ref = function
  | c1 :: (c2 :: r2 as t) ->
    (match ref_vowel_constraint (zi c1) (zi c2) with
     | ICBetween -> c1 :: dotted :: c2 :: circles_ref r2
     | ICMaybeAfter c3 ->
       (match r2 with
        | c :: r3 when c = iz c3 -> c1 :: c2 :: dotted :: c :: circles_ref r3
        | _ -> c1 :: c2 :: circles_ref r2)
     | ICNone -> c1 :: circles_ref t)
  | l -> l

let rec recompose_ref = function
  | a :: b :: r when a = ya && b = nukta -> yya :: recompose_ref r
  | a :: t -> a :: recompose_ref t
  | [] -> []

let rec has_prefix l p = match l, p with
  | _, [] -> true
  | x :: l', y :: p' -> x = y && has_prefix l' p'
  | [], _ -> false

let indic_ref cf tag l =
  let x = sort_ref cf (List.concat_map ref_matra (circles_ref l)) in
  if tag = iz RefTags.coq_REF_BENGALI_TAG then recompose_ref x
  else if tag = iz RefTags.coq_REF_KANNADA_TAG then
    (match x with a :: b :: c :: r when has_prefix x kannada_prefix -> a :: c :: b :: r | _ -> x)
  else x

let reference (tag : int) (cf : int -> int) (l : int list) : int list =
  match RefTags.ref_action (zi tag) with
  | ActArabic -> arabic_ref cf l
  | ActSort -> sort_ref cf l
  | ActIndic -> indic_ref cf tag l
  | ActKhmer -> sort_ref cf (List.concat_map ref_khmer l)
  | ActNone -> l
  | ActThaiLao -> thai_ref cf l

let rec sorted_by (cf : int -> int) = function
  | a :: (b :: _ as t) -> cf a <= cf b && sorted_by cf t
  | _ -> true

let stable (cf : int -> int) (rin : int list) (rout : int list) : bool =
  List.for_all (fun k -> List.filter (fun c -> cf c = k) rin = List.filter (fun c -> cf c = k) rout)
    (List.sort_uniq compare (List.map cf rin))

(* permutation in which class-0 characters keep their index and runs are rearranged within themselves *)
let run_local (cf : int -> int) (inp : int list) (out : int list) : (string * string) option =
  if multiset inp <> multiset out then Some ("content", "the output is not a permutation of the input")
  else if List.exists2 (fun a b -> cf a = 0 && a <> b) inp out then
    Some ("base-moved", "a character of class 0 did not keep its index")
  else if List.exists2 (fun a b -> multiset a <> multiset b) (runs cf inp) (runs cf out) then
    Some ("run-local", "a mark left its run")
  else None

(* which part of the property an output that differs from the reference violates *)
let classify (tag : int) (inp : int list) (cf : int -> int) (out : int list) : string * string =
  match RefTags.ref_action (zi tag) with
  | ActNone -> ("content", "Myanmar text must be left unchanged")
  | ActSort ->
    (match run_local cf inp out with
     | Some v -> v
     | None ->
       let ri = runs cf inp and ro = runs cf out in
       if not (List.for_all (sorted_by cf) ro) then ("order", "a mark run is not sorted by modified combining class")
       else if not (List.for_all2 (stable cf) ri ro) then ("stability", "marks of equal class changed their relative order")
       else ("order", "differs from the specified order"))
  | ActArabic ->
    (match run_local cf inp out with
     | Some v -> v
     | None -> ("arabic-order", "a mark run is not in the AMTRA order (MCM below, MCM above, shadda, rest stably by class)"))
  | ActThaiLao ->
    if multiset out <> multiset (List.concat_map ref_am inp) then
      ("content", "the output is not a rearrangement of the input with every SARA AM split")
    else ("order", "right content, but not the specified order (nikhahit before the above-base marks, runs sorted)")
  | ActKhmer ->
    if multiset out <> multiset (List.concat_map ref_khmer inp) then
      ("content", "the output is not a rearrangement of the input with the split vowels prefixed by U+17C1")
    else ("order", "right content, but not the specified order")
  | ActIndic ->
    let strip l = List.filter (fun c -> c <> dotted) l in
    if multiset (unrecompose (strip out)) <> multiset (unrecompose (List.concat_map ref_matra (strip inp))) then
      ("content", "apart from dotted circles the output is not the input with split matras expanded and ya+nukta recomposed")
    else if count dotted out <> count dotted (circles_ref inp) then
      ("circle", "a dotted circle is missing or was inserted where no prohibited vowel pair is")
    else ("order-or-circle", "right content, but a dotted circle or a character is not where the specification puts it")

let judge (input : string) (impl : string) (model : string) : verdict =
  match parse input with
  | Table (cp, ccc) ->
    (* the reference remapping of the canonical class (code points up to U+02FF are never reordered) *)
    let expect = if cp <= 0x2FF then 0 else iz (ref_mcc (zi ccc)) in
    if impl <> Printf.sprintf "mcc:%d" expect then
      Violation ("mcc-table", Printf.sprintf "modified class of U+%04X (ccc %d): implementation %s, reference %d" cp ccc impl expect)
    else if impl = model then Agree
    else Mismatch ("class table of the model differs from the reference: " ^ model)
  | Text (tag, cps, h) ->
    if impl = "panic" then Violation ("panic", "preprocess_text panicked")
    else if not (starts_with "ok:" impl) then Mismatch ("unexpected implementation result " ^ impl)
    else begin
      let cf = class_fn h in
      let out = parse_cps (String.sub impl 3 (String.length impl - 3)) in
      let expect = reference tag cf cps in
      if out <> expect then begin
        let (cls, why) = classify tag cps cf out in
        Violation (cls, why ^ "; specified: " ^ show_cps expect)
      end
      else if impl = model then Agree
      else Mismatch ("implementation meets the reference specification but the model says " ^ model)
    end
