(* C02: shaping is total and the run is well-formed.  The harness evaluates the clauses of the
   property on the run the implementation returned (attachments inside the run, characters from
   the submitted text or U+25CC, glyph ids below the glyph count for pristine fonts) and reports
   the violated clauses by name; the specified outcome is a run with no such flag. *)
open Verdict

let run (_input : string) : string = "wf"

let judge (_input : string) (impl : string) (_model : string) : verdict =
  match String.split_on_char ':' impl with
  | "noload" :: _ -> Agree            (* a font that does not load is outside the property *)
  | ["run"; _n; _maxgid; _status; flags] ->
    if flags = "" then Agree else Violation ("ill-formed:" ^ flags, impl)
  | "panic" :: rest -> Violation (String.concat ":" rest, impl)
  | "slow" :: _ -> Violation ("slow", impl)
  | "abort" :: _ -> Violation ("abort", impl)
  | _ -> Violation ("other", impl)

let tag (input : string) (out : string) : string =
  match String.split_on_char '|' input with
  | "G" :: _ -> "synthetic-gpos"
  | "S" :: _ -> "synthetic-gsub"
  | f :: seed :: script :: _ ->
    (if seed = "0" then "pristine" else "mutated") ^ ":" ^ script ^ ":" ^
    (match String.split_on_char ':' out with "wf" :: _ -> "" | _ -> "") ^ Filename.basename f
  | _ -> "?"
