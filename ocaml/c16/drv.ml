(* C16: run the glyf outline model on one case line and judge the implementation's output.
   input  = GID|g0,g1,...[|P...] gN = bytes of glyph N in hex ('-' = zero-length loca entry); optional
                                 third field: the contours glyph GID is meant to encode (on,x,y ... / ...)
   impl   = ok:CMD CMD ... | err:Name | panic       numbers = f32 bits (8 hex digits)
   model  = ok:CMD CMD ... | err:Name | panic       numbers = exact rationals n/d
   CMD    = M:x:y | L:x:y | Q:cx:cy:x:y | Z *)
open Model
open Zconv
open Verdict

(* ---- numbers *)
let rec pos_to_float (p : positive) : float =
  match p with
  | XH -> 1.0
  | XO q -> 2.0 *. pos_to_float q
  | XI q -> 2.0 *. pos_to_float q +. 1.0

let z_to_float (v : z) : float =
  match v with Z0 -> 0.0 | Zpos p -> pos_to_float p | Zneg p -> -. pos_to_float p

let q_to_float (x : q) : float = z_to_float x.qnum /. pos_to_float x.qden

let q_to_string (x : q) : string =
  match x.qden with
  | XH -> z_to_string x.qnum
  | d -> z_to_string x.qnum ^ "/" ^ z_to_string (Zpos d)

let f32_of_hex (s : string) : float =
  if String.length s <> 8 then failwith "f32" else Int32.float_of_bits (Int32.of_string ("0x" ^ s))

(* ---- input *)
(* third field: the contours glyph GID is meant to encode (written by the generator) *)
let parse_hint (h : string) : (bool * (z * z)) list list =
  let body = String.sub h 1 (String.length h - 1) in
  if body = "" then [] else
  List.map (fun c ->
      List.map (fun p ->
          match split_on ',' p with
          | [o; x; y] -> (o = "1", (z_of_string x, z_of_string y))
          | _ -> failwith "c16 hint")
        (List.filter (fun x -> x <> "") (split_on ' ' c)))
    (split_on '/' body)

let parse_input3 (input : string) : (z list list * z * (bool * (z * z)) list list option) =
  let tbl_of tbl = if tbl = "" then [] else List.map bytes_of_hex (split_on ',' tbl) in
  match split_on '|' input with
  | [g; tbl] -> (tbl_of tbl, z_of_string g, None)
  | [g; tbl; h] when String.length h >= 1 && h.[0] = 'P' -> (tbl_of tbl, z_of_string g, Some (parse_hint h))
  | _ -> failwith "c16 input"

let parse_input (input : string) : (z list list * z) =
  let (t, g, _) = parse_input3 input in (t, g)

let cmd_to_string (f : 'a -> string) (c : 'a cmd) : string =
  match c with
  | Move p -> "M:" ^ f p
  | Line p -> "L:" ^ f p
  | Quad (c, p) -> "Q:" ^ f c ^ ":" ^ f p
  | Close -> "Z"

let qq_to_string ((x, y) : q * q) : string = q_to_string x ^ ":" ^ q_to_string y

let run (input : string) : string =
  let (t, gid) = parse_input input in
  outcome_to_string
    (fun cmds -> String.concat " " (List.map (cmd_to_string qq_to_string) cmds))
    (visit t gid)

(* ---- the implementation's result *)
type impl_res = IOk of (float * float) cmd list | IErr of string | IPanic | IBad of string

let parse_impl (s : string) : impl_res =
  if s = "panic" then IPanic
  else if starts_with "err:" s then IErr (String.sub s 4 (String.length s - 4))
  else if starts_with "ok:" s then begin
    let body = String.sub s 3 (String.length s - 3) in
    let toks = List.filter (fun x -> x <> "") (split_on ' ' body) in
    try
      IOk (List.map (fun tok ->
          match split_on ':' tok with
          | ["M"; x; y] -> Move (f32_of_hex x, f32_of_hex y)
          | ["L"; x; y] -> Line (f32_of_hex x, f32_of_hex y)
          | ["Q"; a; b; x; y] -> Quad ((f32_of_hex a, f32_of_hex b), (f32_of_hex x, f32_of_hex y))
          | ["Z"] -> Close
          | "C" :: _ -> failwith "cubic curve in a TrueType outline"
          | _ -> failwith ("command " ^ tok)) toks)
    with Failure m -> IBad m
  end else IBad ("unparsable result " ^ s)

(* ---- expected values with error bounds.  For every point of every instance: the exact image
   under the instance's transform and a magnitude bound (the same computation with absolute values
   everywhere, visit_bounds): an f32 evaluation of at most 8 nested transforms stays within
   2^-18 * bound of the exact value.  Instances drawn under offset-only transforms must be exact. *)
type expect = { ex : float; ey : float; tx : float; ty : float }

let q_one = { qnum = Zpos XH; qden = XH }
let q_is (a : q) (n : int) : bool = q_to_float a = float_of_int n

let is_unscaled (a : xform) : bool = q_is a.m00 1 && q_is a.m01 0 && q_is a.m10 0 && q_is a.m11 1

let z_abs (v : z) : z = match v with Zneg p -> Zpos p | _ -> v

(* the component transforms are the SPECIFIED ones (spec_xform: OpenType semantics, no constants from
   the source) so that a wrong matrix in the implementation is a violation, not an agreement *)
let expected (t : z list list) (gid : z) : expect cmd list outcome =
  match visit_insts spec_xform t gid, visit_insts (fun c -> x_abs (spec_xform c)) t gid with
  | Ok insts, Ok bounds when List.length insts = List.length bounds ->
    Ok (List.concat (List.map2 (fun (tr, cmds) (ab, _) ->
        let exact = is_unscaled ab in
        let pt (p : z * z) : expect =
          let (x, y) = x_apply tr (half p) in
          let (bx, by) = x_apply ab (half (z_abs (fst p), z_abs (snd p))) in
          let tol b = if exact then 0.0 else (q_to_float b +. 1.0) *. (1.0 /. 262144.0) in
          { ex = q_to_float x; ey = q_to_float y; tx = tol bx; ty = tol by } in
        List.map (fun c -> match c with
            | Move p -> Move (pt p) | Line p -> Line (pt p)
            | Quad (c, p) -> Quad (pt c, pt p) | Close -> Close) cmds) insts bounds))
  | Ok _, _ -> Panic
  | Err e, _ -> Err e
  | Panic, _ -> Panic
  | OOB, _ -> OOB

let close_to (e : expect) ((x, y) : float * float) : bool =
  Float.abs (x -. e.ex) <= e.tx && Float.abs (y -. e.ey) <= e.ty

let show_e (e : expect) = Printf.sprintf "(%g,%g)" e.ex e.ey
let show_p ((x, y) : float * float) = Printf.sprintf "(%g,%g)" x y

(* first difference between the implementation's commands and the expected ones *)
let rec first_diff (k : int) (a : (float * float) cmd list) (b : expect cmd list) : string option =
  match a, b with
  | [], [] -> None
  | [], _ -> Some (Printf.sprintf "command %d missing (%d expected commands not delivered)" k (List.length b))
  | _, [] -> Some (Printf.sprintf "%d extra commands from command %d on" (List.length a) k)
  | x :: a', y :: b' ->
    let bad what p e = Some (Printf.sprintf "command %d: %s %s, specified %s" k what (show_p p) (show_e e)) in
    (match x, y with
     | Move p, Move e -> if close_to e p then first_diff (k + 1) a' b' else bad "move_to" p e
     | Line p, Line e -> if close_to e p then first_diff (k + 1) a' b' else bad "line_to" p e
     | Quad (c, p), Quad (ec, ep) ->
       if not (close_to ec c) then bad "quadratic control point" c ec
       else if not (close_to ep p) then bad "quadratic end point" p ep
       else first_diff (k + 1) a' b'
     | Close, Close -> first_diff (k + 1) a' b'
     | _, _ -> Some (Printf.sprintf "command %d is a different kind of command than specified" k))

(* is the command list, contour by contour, one of the readings the specification allows
   (contour_paths: the cyclic expansion read from any of its on-curve points)? *)
let valid_for_contours (cs : (bool * (z * z)) list list) (impl : (float * float) cmd list) : bool =
  let fl (p : z * z) = (z_to_float (fst p) /. 2.0, z_to_float (snd p) /. 2.0) in
  let same (a : (float * float) cmd) (b : (z * z) cmd) =
    match a, b with
    | Move p, Move q | Line p, Line q -> p = fl q
    | Quad (c, p), Quad (d, q) -> c = fl d && p = fl q
    | Close, Close -> true
    | _ -> false in
  let rec take_path (l : (float * float) cmd list) acc =
    match l with
    | [] -> (List.rev acc, [])
    | Close :: r -> (List.rev (Close :: acc), r)
    | x :: r -> take_path r (x :: acc) in
  let rec go (l : (float * float) cmd list) cs =
    match cs with
    | [] -> l = []
    | c :: cr ->
      let (p, rest) = take_path l [] in
      List.exists (fun cand -> List.length cand = List.length p && List.for_all2 same p cand)
        (contour_paths c)
      && go rest cr in
  go impl (List.filter (fun c -> c <> []) cs)

(* the contours of a simple glyph as the model decodes them *)
let decoded_contours (t : z list list) (gid : z) : (bool * (z * z)) list list option =
  match get_parsed_glyph t gid with
  | Ok (GSimple sg) ->
    let to_spoint (f, p) = ((z_to_int f) land 1 = 1, p) in
    Some (List.map (List.map to_spoint) (contours Z0 sg.sg_ends sg.sg_coords))
  | _ -> None

let top_kind (t : z list list) (gid : z) : string =
  match table_load t with
  | Ok _ ->
    (match get_parsed_glyph t gid with
     | Ok GEmpty -> "E" | Ok (GSimple _) -> "S" | Ok (GComposite _) -> "C" | _ -> "-")
  | _ -> "-"

(* The verdict.  Besides comparing with the model's (toleranced) expectation, an outline of a simple
   glyph is decided from the SPECIFICATION: against the contours the generator meant to encode when
   the input carries them (end to end: packed encoding -> points -> commands), otherwise against the
   contours the model decodes.  So an implementation (and a model regenerated from it) that both
   deviate from the specification is a violation with this input, not an agreement. *)
let judge (input : string) (impl : string) (_model : string) : verdict =
  let (t, gid, hint) = parse_input3 input in
  let exp = expected t gid in
  let simple_top = top_kind t gid = "S" in
  let spec_ok (cmds : (float * float) cmd list) : bool option =
    match hint with
    | Some cs -> Some (valid_for_contours cs cmds)
    | None ->
      if simple_top then
        (match decoded_contours t gid with Some cs -> Some (valid_for_contours cs cmds) | None -> None)
      else None in
  match parse_impl impl, exp with
  | IBad m, _ -> Violation ("outline", m)
  | IPanic, Panic -> Agree
  | IPanic, _ -> Violation ("panic", "visit panicked instead of returning an outline or an error")
  | IOk cmds, Ok e ->
    (match first_diff 0 cmds e, spec_ok cmds with
     | None, (None | Some true) -> Agree
     | None, Some false ->
       Violation ("contour", "the outline delivered (the model reproduces it) is not a reading of the specified "
                             ^ (if hint <> None then "encoding and contour expansion" else "contour expansion"))
     | Some why, Some true -> Mismatch ("valid by the specification, but not the model's outline: " ^ why)
     | Some why, Some false -> Violation ((if hint <> None then "decode" else "contour"), why)
     | Some why, None -> Violation ("composite", why))
  | IErr e, _ when hint <> None ->
    Violation ("decode", "visit returned " ^ e ^ " for a legal encoding of a point list")
  | IOk cmds, _ when hint <> None ->
    if spec_ok cmds = Some true then Mismatch "valid by the specification, the model rejects the input"
    else Violation ("decode", "the outline is not the one of the encoded point list")
  | IErr e, Ok _ -> Violation ("spurious-error", "visit returned " ^ e ^ " for a glyph that has an outline")
  | IErr a, Err b -> if a = err_to_string b then Agree else Mismatch ("error " ^ a ^ ", model " ^ err_to_string b)
  | IOk _, Err LimitExceeded when top_kind t gid = "C" ->
    Violation ("depth", "an outline was delivered although the composite nesting limit is exceeded")
  | IOk _, Err b -> Mismatch ("outline delivered, model rejects the input with " ^ err_to_string b)
  | _, Panic -> Mismatch "model panics"
  | _, OOB -> Mismatch "model oob"

let tag (input : string) (out : string) : string =
  let (t, gid) = parse_input input in
  let k = top_kind t gid in
  if starts_with "ok:" out then begin
    let scaled =
      match visit_bounds t gid with
      | Ok b -> List.exists (fun (a, _) -> not (is_unscaled a)) b
      | _ -> false in
    let n = match visit_insts comp_xform t gid with Ok i -> List.length i | _ -> 0 in
    k ^ ".ok" ^ (if k = "C" then (if scaled then ".scaled" else ".unscaled") ^ (if n > 1 then ".multi" else "") else "")
  end else k ^ "." ^ out
