(* C16: run the glyf outline model on one case line and judge the implementation's output.
   input  = GID|g0,g1,...[|P...][|L...]   (see harness/src/bin/c16.rs)
            gN = bytes of glyph N ('-' = zero-length loca entry): HEX, or segments HEX / COUNT*HEX joined by
            '+'; COUNT#g = COUNT glyphs g.  P... = the contours glyph GID is meant to encode (on,x,y or
            COUNT*on,x,y ... / ...).  L... = the loca table: Ll (default) / Ls = the long / short loca that
            describes g0,g1,... laid out one after the other; Ll:N:BYTES / Ls:N:BYTES = these loca bytes
            read with numGlyphs = N, the glyf table being the concatenation of g0,g1,...
   impl   = ok:CMD CMD ... | err:Name | panic       numbers = f32 bits (8 hex digits)
   model  = ok:CMD CMD ... | err:Name | panic       numbers = exact rationals n/d
   CMD    = M:x:y | L:x:y | Q:cx:cy:x:y | Z *)
open Model
open Zconv
open Verdict

(* ---- numbers *)
let rec pos_to_float (p : positive) : float =
  match p with
  | XH -> 1.0
  | XO q -> 2.0 *. pos_to_float q
  | XI q -> 2.0 *. pos_to_float q +. 1.0

let z_to_float (v : z) : float =
  match v with Z0 -> 0.0 | Zpos p -> pos_to_float p | Zneg p -> -. pos_to_float p

let q_to_float (x : q) : float = z_to_float x.qnum /. pos_to_float x.qden

let q_to_string (x : q) : string =
  match x.qden with
  | XH -> z_to_string x.qnum
  | d -> z_to_string x.qnum ^ "/" ^ z_to_string (Zpos d)

let f32_of_hex (s : string) : float =
  if String.length s <> 8 then failwith "f32" else Int32.float_of_bits (Int32.of_string ("0x" ^ s))

(* ---- input *)
(* the contours glyph GID is meant to encode (written by the generator) *)
let parse_hint (h : string) : (bool * (z * z)) list list =
  let body = String.sub h 1 (String.length h - 1) in
  if body = "" then [] else
  List.map (fun c ->
      List.concat_map (fun tok ->
          let (n, p) =
            match String.index_opt tok '*' with
            | Some i -> (int_of_string (String.sub tok 0 i), String.sub tok (i + 1) (String.length tok - i - 1))
            | None -> (1, tok) in
          match split_on ',' p with
          | [o; x; y] -> let pt = (o = "1", (z_of_string x, z_of_string y)) in List.init n (fun _ -> pt)
          | _ -> failwith "c16 hint")
        (List.filter (fun x -> x <> "") (split_on ' ' c)))
    (split_on '/' body)

let raw_of_hex (s : string) : string =
  if s = "-" then "" else
  String.init (String.length s / 2) (fun i -> Char.chr (int_of_string ("0x" ^ String.sub s (2 * i) 2)))

(* HEX / COUNT*HEX segments joined by '+' *)
let expand (s : string) : string =
  if s = "-" || s = "" then "" else begin
    let b = Buffer.create 256 in
    List.iter (fun seg ->
        match String.index_opt seg '*' with
        | Some i ->
          let n = int_of_string (String.sub seg 0 i) in
          let r = raw_of_hex (String.sub seg (i + 1) (String.length seg - i - 1)) in
          for _ = 1 to n do Buffer.add_string b r done
        | None -> Buffer.add_string b (raw_of_hex seg))
      (split_on '+' s);
    Buffer.contents b
  end

(* the 256 byte values as model numbers, shared *)
let zbyte : z array = Array.init 256 z_of_int
let z_of_raw (s : string) : z list = List.init (String.length s) (fun i -> zbyte.(Char.code s.[i]))

type case = {
  gid : z;
  short : bool;                 (* indexToLocFormat 0 *)
  num_glyphs : int;
  loca : string;
  glyf : string;
  hint : (bool * (z * z)) list list option;
  explicit_loca : bool;
}

let be_bytes (n : int) (v : int) : string =
  String.init n (fun i -> Char.chr ((v lsr (8 * (n - 1 - i))) land 255))

let parse_case (input : string) : case =
  match split_on '|' input with
  | g :: tbl :: opts when List.length opts <= 2 ->
    let glyphs =
      if tbl = "" then [] else
      List.concat_map (fun e ->
          match String.index_opt e '#' with
          | Some i ->
            let n = int_of_string (String.sub e 0 i) in
            let b = expand (String.sub e (i + 1) (String.length e - i - 1)) in
            List.init n (fun _ -> b)
          | None -> [expand e])
        (split_on ',' tbl) in
    let hint = ref None and lspec = ref "Ll" in
    List.iter (fun o ->
        if String.length o >= 1 && o.[0] = 'P' then hint := Some (parse_hint o)
        else if String.length o >= 2 && o.[0] = 'L' then lspec := o
        else failwith "c16 input") opts;
    let short = (match !lspec.[1] with 's' -> true | 'l' -> false | _ -> failwith "c16 loca format") in
    let glyf = String.concat "" glyphs in
    if String.length !lspec > 2 then begin
      match split_on ':' !lspec with
      | [_; n; bytes] ->
        { gid = z_of_string g; short; num_glyphs = int_of_string n; loca = expand bytes; glyf;
          hint = !hint; explicit_loca = true }
      | _ -> failwith "c16 loca"
    end else begin
      let b = Buffer.create 64 in
      let off = ref 0 in
      let put o = Buffer.add_string b (if short then be_bytes 2 ((o / 2) land 0xffff) else be_bytes 4 o) in
      List.iter (fun gl -> put !off; off := !off + String.length gl) glyphs;
      put !off;
      { gid = z_of_string g; short; num_glyphs = List.length glyphs; loca = Buffer.contents b; glyf;
        hint = !hint; explicit_loca = false }
    end
  | _ -> failwith "c16 input"

(* The records of the table by the OpenType SPECIFICATION (plain OCaml arithmetic, nothing from the
   model or the source): entry i of a short loca is offset / 2 as uint16, of a long loca the offset as
   uint32; glyph i is glyf[offset i, offset i+1).  None: the loca table does not describe this glyf
   table (too short, no glyph, decreasing offsets, offsets beyond the table). *)
let spec_records (c : case) : string list option =
  let w = if c.short then 2 else 4 in
  let n = c.num_glyphs in
  if n < 1 || String.length c.loca < (n + 1) * w then None else begin
    let entry i =
      let v = ref 0 in
      for k = 0 to w - 1 do v := !v * 256 + Char.code c.loca.[i * w + k] done;
      if c.short then !v * 2 else !v in
    let offs = List.init (n + 1) entry in
    let rec ok l = match l with
      | a :: (b :: _ as r) -> a <= b && ok r
      | [a] -> a <= String.length c.glyf
      | [] -> true in
    if not (ok offs) then None else
      let rec cut l = match l with
        | a :: (b :: _ as r) -> String.sub c.glyf a (b - a) :: cut r
        | _ -> [] in
      Some (cut offs)
  end

let model_table (c : case) : table outcome =
  glyf_table (if c.short then LShort else LLong) (z_of_int c.num_glyphs) (z_of_raw c.loca) (z_of_raw c.glyf)

(* the table the outline is judged on, and whether it comes from the specification *)
let case_table (c : case) : (table outcome * bool) =
  match spec_records c with
  | Some recs -> (Ok (List.map z_of_raw recs), true)
  | None -> (model_table c, false)

let cmd_to_string (f : 'a -> string) (c : 'a cmd) : string =
  match c with
  | Move p -> "M:" ^ f p
  | Line p -> "L:" ^ f p
  | Quad (c, p) -> "Q:" ^ f c ^ ":" ^ f p
  | Close -> "Z"

let qq_to_string ((x, y) : q * q) : string = q_to_string x ^ ":" ^ q_to_string y

(* ---- the implementation's result *)
type impl_res = IOk of (float * float) cmd list | IErr of string | IPanic | IBad of string

let parse_impl (s : string) : impl_res =
  if s = "panic" then IPanic
  else if starts_with "err:" s then IErr (String.sub s 4 (String.length s - 4))
  else if starts_with "ok:" s then begin
    let body = String.sub s 3 (String.length s - 3) in
    let toks = List.filter (fun x -> x <> "") (split_on ' ' body) in
    try
      IOk (List.map (fun tok ->
          match split_on ':' tok with
          | ["M"; x; y] -> Move (f32_of_hex x, f32_of_hex y)
          | ["L"; x; y] -> Line (f32_of_hex x, f32_of_hex y)
          | ["Q"; a; b; x; y] -> Quad ((f32_of_hex a, f32_of_hex b), (f32_of_hex x, f32_of_hex y))
          | ["Z"] -> Close
          | "C" :: _ -> failwith "cubic curve in a TrueType outline"
          | _ -> failwith ("command " ^ tok)) toks)
    with Failure m -> IBad m
  end else IBad ("unparsable result " ^ s)

(* ---- expected values with error bounds.  For every point of every instance: the exact image
   under the instance's transform and a magnitude bound (the same computation with absolute values
   everywhere, visit_bounds): an f32 evaluation of at most 8 nested transforms stays within
   2^-18 * bound of the exact value.  Instances drawn under offset-only transforms must be exact. *)
type expect = { ex : float; ey : float; tx : float; ty : float }

let q_one = { qnum = Zpos XH; qden = XH }
let q_is (a : q) (n : int) : bool = q_to_float a = float_of_int n

let is_unscaled (a : xform) : bool = q_is a.m00 1 && q_is a.m01 0 && q_is a.m10 0 && q_is a.m11 1

let z_abs (v : z) : z = match v with Zneg p -> Zpos p | _ -> v

let top_kind (t : z list list) (gid : z) : string =
  match table_load t with
  | Ok _ ->
    (match get_parsed_glyph t gid with
     | Ok GEmpty -> "E" | Ok (GSimple _) -> "S" | Ok (GComposite _) -> "C" | _ -> "-")
  | _ -> "-"

(* everything computed from one input line, once (run, judge and tag are called for the same line one
   after the other; glyphs with 65536 points make every traversal expensive) *)
type insts = (xform * (z * z) cmd list) list outcome
type analysis = {
  c : case;
  tbl : table outcome;            (* the table the outline is judged on *)
  from_spec : bool;               (* ... cut by the specification (else: by the model) *)
  mtbl : table outcome Lazy.t;    (* the model's LocaTable::read_dep + GlyfTable::read_dep *)
  kind : string Lazy.t;           (* kind of the visited glyph in tbl *)
  insts_model : insts Lazy.t;     (* the model's traversal of ITS table, component transforms as coded *)
  insts_spec : insts Lazy.t;      (* traversal of tbl with the SPECIFIED component transforms ... *)
  bounds_spec : insts Lazy.t;     (* ... and with absolute values everywhere *)
}

let memo : (string * analysis) option ref = ref None

let analyse (input : string) : analysis =
  match !memo with
  | Some (k, a) when k = input -> a
  | _ ->
    let c = parse_case input in
    let (tbl, from_spec) = case_table c in
    let mtbl = if from_spec then lazy (model_table c) else Lazy.from_val tbl in
    let kind = lazy (match tbl with Ok t -> top_kind t c.gid | _ -> "-") in
    let insts_model = lazy (match Lazy.force mtbl with
        | Ok t -> visit_insts comp_xform t c.gid
        | Err e -> Err e | Panic -> Panic | OOB -> OOB) in
    (* no component, no component transform: one traversal serves the model and the specification *)
    let plain = lazy ((Lazy.force kind = "S" || Lazy.force kind = "E") && Lazy.force mtbl = tbl) in
    let insts_spec = lazy (match tbl with
        | Ok t -> if Lazy.force plain then Lazy.force insts_model else visit_insts spec_xform t c.gid
        | Err e -> Err e | Panic -> Panic | OOB -> OOB) in
    let bounds_spec = lazy (match tbl with
        | Ok t ->
          if Lazy.force plain then
            (match Lazy.force insts_model with
             | Ok i -> Ok (List.map (fun (tr, cmds) -> (x_abs tr, cmds)) i)
             | o -> o)
          else visit_insts (fun c -> x_abs (spec_xform c)) t c.gid
        | Err e -> Err e | Panic -> Panic | OOB -> OOB) in
    let a = { c; tbl; from_spec; mtbl; kind; insts_model; insts_spec; bounds_spec } in
    memo := Some (input, a);
    a

(* the model, from the bytes of both tables: LocaTable::read_dep, GlyfTable::read_dep, visit *)
let run (input : string) : string =
  let a = analyse input in
  outcome_to_string
    (fun cmds -> String.concat " " (List.map (cmd_to_string qq_to_string) cmds))
    (match Lazy.force a.insts_model with
     | Ok i -> Ok (render i) | Err e -> Err e | Panic -> Panic | OOB -> OOB)

(* the component transforms are the SPECIFIED ones (spec_xform: OpenType semantics, no constants from
   the source) so that a wrong matrix in the implementation is a violation, not an agreement *)
let expected (a : analysis) : expect cmd list outcome =
  match Lazy.force a.insts_spec, Lazy.force a.bounds_spec with
  | Ok insts, Ok bounds when List.length insts = List.length bounds ->
    Ok (List.concat (List.map2 (fun (tr, cmds) (ab, _) ->
        let exact = is_unscaled ab in
        let pt (p : z * z) : expect =
          let (x, y) = x_apply tr (half p) in
          let (bx, by) = x_apply ab (half (z_abs (fst p), z_abs (snd p))) in
          let tol b = if exact then 0.0 else (q_to_float b +. 1.0) *. (1.0 /. 262144.0) in
          { ex = q_to_float x; ey = q_to_float y; tx = tol bx; ty = tol by } in
        List.map (fun c -> match c with
            | Move p -> Move (pt p) | Line p -> Line (pt p)
            | Quad (c, p) -> Quad (pt c, pt p) | Close -> Close) cmds) insts bounds))
  | Ok _, _ -> Panic
  | Err e, _ -> Err e
  | Panic, _ -> Panic
  | OOB, _ -> OOB

let close_to (e : expect) ((x, y) : float * float) : bool =
  Float.abs (x -. e.ex) <= e.tx && Float.abs (y -. e.ey) <= e.ty

let show_e (e : expect) = Printf.sprintf "(%g,%g)" e.ex e.ey
let show_p ((x, y) : float * float) = Printf.sprintf "(%g,%g)" x y

(* first difference between the implementation's commands and the expected ones *)
let rec first_diff (k : int) (a : (float * float) cmd list) (b : expect cmd list) : string option =
  match a, b with
  | [], [] -> None
  | [], _ -> Some (Printf.sprintf "command %d missing (%d expected commands not delivered)" k (List.length b))
  | _, [] -> Some (Printf.sprintf "%d extra commands from command %d on" (List.length a) k)
  | x :: a', y :: b' ->
    let bad what p e = Some (Printf.sprintf "command %d: %s %s, specified %s" k what (show_p p) (show_e e)) in
    (match x, y with
     | Move p, Move e -> if close_to e p then first_diff (k + 1) a' b' else bad "move_to" p e
     | Line p, Line e -> if close_to e p then first_diff (k + 1) a' b' else bad "line_to" p e
     | Quad (c, p), Quad (ec, ep) ->
       if not (close_to ec c) then bad "quadratic control point" c ec
       else if not (close_to ep p) then bad "quadratic end point" p ep
       else first_diff (k + 1) a' b'
     | Close, Close -> first_diff (k + 1) a' b'
     | _, _ -> Some (Printf.sprintf "command %d is a different kind of command than specified" k))

(* is the command list, contour by contour, one of the readings the specification allows
   (contour_paths: the cyclic expansion read from any of its on-curve points)? *)
let valid_for_contours (cs : (bool * (z * z)) list list) (impl : (float * float) cmd list) : bool =
  let fl (p : z * z) = (z_to_float (fst p) /. 2.0, z_to_float (snd p) /. 2.0) in
  let same (a : (float * float) cmd) (b : (z * z) cmd) =
    match a, b with
    | Move p, Move q | Line p, Line q -> p = fl q
    | Quad (c, p), Quad (d, q) -> c = fl d && p = fl q
    | Close, Close -> true
    | _ -> false in
  let rec take_path (l : (float * float) cmd list) acc =
    match l with
    | [] -> (List.rev acc, [])
    | Close :: r -> (List.rev (Close :: acc), r)
    | x :: r -> take_path r (x :: acc) in
  let rec go (l : (float * float) cmd list) cs =
    match cs with
    | [] -> l = []
    | c :: cr ->
      let (p, rest) = take_path l [] in
      List.exists (fun cand -> List.length cand = List.length p && List.for_all2 same p cand)
        (contour_paths c)
      && go rest cr in
  go impl (List.filter (fun c -> c <> []) cs)

(* the contours of a simple glyph as the model decodes them *)
let decoded_contours (t : z list list) (gid : z) : (bool * (z * z)) list list option =
  match get_parsed_glyph t gid with
  | Ok (GSimple sg) ->
    let to_spoint (f, p) = ((z_to_int f) land 1 = 1, p) in
    Some (List.map (List.map to_spoint) (contours Z0 sg.sg_ends sg.sg_coords))
  | _ -> None

(* The verdict.  Besides comparing with the model's (toleranced) expectation, an outline of a simple
   glyph is decided from the SPECIFICATION: against the contours the generator meant to encode when
   the input carries them (end to end: packed encoding -> points -> commands), otherwise against the
   contours the model decodes.  So an implementation (and a model regenerated from it) that both
   deviate from the specification is a violation with this input, not an agreement. *)
let judge_table (a : analysis) (t : z list list) (hint : (bool * (z * z)) list list option) (impl : string) : verdict =
  let gid = a.c.gid in
  let exp = expected a in
  let simple_top = Lazy.force a.kind = "S" in
  let spec_ok (cmds : (float * float) cmd list) : bool option =
    match hint with
    | Some cs -> Some (valid_for_contours cs cmds)
    | None ->
      if simple_top then
        (match decoded_contours t gid with Some cs -> Some (valid_for_contours cs cmds) | None -> None)
      else None in
  match parse_impl impl, exp with
  | IBad m, _ -> Violation ("outline", m)
  | IPanic, Panic -> Agree
  | IPanic, _ -> Violation ("panic", "visit panicked instead of returning an outline or an error")
  | IOk cmds, Ok e ->
    (match first_diff 0 cmds e, spec_ok cmds with
     | None, (None | Some true) -> Agree
     | None, Some false ->
       Violation ("contour", "the outline delivered (the model reproduces it) is not a reading of the specified "
                             ^ (if hint <> None then "encoding and contour expansion" else "contour expansion"))
     | Some why, Some true -> Mismatch ("valid by the specification, but not the model's outline: " ^ why)
     | Some why, Some false -> Violation ((if hint <> None then "decode" else "contour"), why)
     | Some why, None -> Violation ("composite", why))
  | IErr e, _ when hint <> None ->
    Violation ("decode", "visit returned " ^ e ^ " for a legal encoding of a point list")
  | IOk cmds, _ when hint <> None ->
    if spec_ok cmds = Some true then Mismatch "valid by the specification, the model rejects the input"
    else Violation ("decode", "the outline is not the one of the encoded point list")
  | IErr e, Ok _ -> Violation ("spurious-error", "visit returned " ^ e ^ " for a glyph that has an outline")
  | IErr a, Err b -> if a = err_to_string b then Agree else Mismatch ("error " ^ a ^ ", model " ^ err_to_string b)
  | IOk _, Err LimitExceeded when Lazy.force a.kind = "C" ->
    Violation ("depth", "an outline was delivered although the composite nesting limit is exceeded")
  | IOk _, Err b -> Mismatch ("outline delivered, model rejects the input with " ^ err_to_string b)
  | _, Panic -> Mismatch "model panics"
  | _, OOB -> Mismatch "model oob"

(* "For every glyph in a glyf table": the glyph judged is the record the SPECIFICATION assigns to the
   glyph id (spec_records), whatever the implementation and the model make of the loca table.  Where
   the loca table does not describe the glyf table the behaviour is only compared with the model. *)
let judge (input : string) (impl : string) (_model : string) : verdict =
  let a = analyse input in
  let c = a.c in
  let where v =
    match v with
    | Violation (cls, why) when c.short || c.explicit_loca || String.length c.glyf > 65535 ->
      Violation (cls, Printf.sprintf "%s [%s loca, %d glyphs, glyf table of %d bytes]" why
                   (if c.short then "short" else "long") c.num_glyphs (String.length c.glyf))
    | v -> v in
  match a.tbl, a.from_spec with
  | Ok t, true ->
    (match judge_table a t c.hint impl with
     | Agree ->
       (* the model must cut the table into the same records (or reject the table with the error
          the judged table is rejected with: a record too short for its contour count) *)
       (match Lazy.force a.mtbl with
        | Ok t' when t' = t -> Agree
        | Err e when table_load t = Err e -> Agree
        | _ -> Mismatch "the model does not cut the glyf table into the records the loca table specifies")
     | v -> where v)
  | Ok t, false ->
    (match judge_table a t None impl with
     | Violation (cls, why) when cls <> "panic" ->
       Mismatch ("the loca table does not describe the glyf table (modelled as coded): " ^ why)
     | v -> where v)
  | Err e, _ ->
    (match parse_impl impl with
     | IErr a when a = err_to_string e -> Agree
     | IPanic -> where (Violation ("panic", "reading the tables panicked"))
     | IBad m -> Violation ("outline", m)
     | IErr a -> Mismatch ("the loca table does not describe the glyf table: error " ^ a ^ ", model " ^ err_to_string e)
     | IOk _ -> Mismatch ("the loca table does not describe the glyf table: outline delivered, model " ^ err_to_string e))
  | (Panic | OOB), _ -> Mismatch "model panics on the tables"

let tag (input : string) (out : string) : string =
  let a = analyse input in
  let c = a.c in
  let pre =
    (if c.explicit_loca then "x" else "") ^
    (if c.short then "short" ^ (if String.length c.glyf > 65535 then ">64k" else "") ^ ":"
     else if String.length c.glyf > 65535 then "long>64k:" else "") in
  let k = Lazy.force a.kind in
  if starts_with "ok:" out then begin
    let scaled =
      match Lazy.force a.bounds_spec with
      | Ok b -> List.exists (fun (a, _) -> not (is_unscaled a)) b
      | _ -> false in
    let insts = match Lazy.force a.insts_spec with Ok i -> i | _ -> [] in
    let n = List.length insts in
    let npts = List.fold_left (fun a (_, cmds) -> a + List.length cmds) 0 insts in
    pre ^ k ^ ".ok" ^ (if k = "C" then (if scaled then ".scaled" else ".unscaled") ^ (if n > 1 then ".multi" else "") else "")
    ^ (if npts >= 65000 then ".pts>=65000" else if npts >= 32000 then ".pts>=32000" else if npts >= 250 then ".pts>=250" else "")
  end else pre ^ k ^ "." ^ out
