(* C18: run the Type 2 charstring model on one case line and judge the implementation's outline.
   input  = M|K|gid|gsubrs|fds|fdsel|glyphs|charset|var|offs[|seac]
     M       d (debug build) | r (release)
     K       t (name-keyed CFF) | c (CID-keyed CFF) | 2 (CFF2)
             | q (name-keyed CFF; no outline: Charset::sid_to_gid for the SIDs 0..255, then
                  Charset::id_for_glyph for the glyphs 0..nGlyphs, which only the judge looks at)
     gsubrs  list of charstrings: "." (empty list) or items separated by ","; an item is HEX or "-"
             (empty string), optionally followed by "*N" (N copies)
     fds     per Font DICT, separated by "/": "~" (no Subrs operator) or a list as above
     fdsel   font dict index per glyph ("," separated) or "-"
     glyphs  list as above
     charset i (ISOAdobe) | e (Expert) | x (ExpertSubset) | cSID,SID,... (format 0 custom charset)
             | r1:FIRST+NLEFT,... (format 1) | r2:FIRST+NLEFT,... (format 2)
     seac    optional: sADX,ADY,BCHAR,ACHAR -- glyph `gid` is, by construction, the seac form of
             endchar with these operands over two plain glyphs (see `seac_expectation`)
     var     "-" or  A;tuple;regions;ivds;vsdefaults
             tuple = A F2Dot14 raw values; regions = "/" separated, each 3A values (start,peak,end per
             axis); ivds = "/" separated region-index lists ("." empty); vsdefaults = per Font DICT
   output = ok:CMDS | bbox:CMDS | err:Name | panic | fuel | q:GID,...,GID  ("-" = None)
     CMDS = commands separated by ";":  M x y | L x y | C x1 y1 x2 y2 x y | Z *)
open Model
open Zconv
open Verdict

let parse_list (s : string) : z list list =
  if s = "." then [] else
  List.concat_map (fun item ->
      let body, n =
        match String.index_opt item '*' with
        | Some i -> String.sub item 0 i, int_of_string (String.sub item (i + 1) (String.length item - i - 1))
        | None -> item, 1 in
      let bs = bytes_of_hex body in
      List.init n (fun _ -> bs))
    (split_on ',' s)

let ints (s : string) : z list =
  if s = "-" || s = "." || s = "" then [] else List.map z_of_string (split_on ',' s)

let rec triples = function
  | a :: b :: c :: r -> ((a, b), c) :: triples r
  | _ -> []

let cfferr_to_string (e : cfferr) : string =
  match e with
  | EParse p -> "Parse" ^ err_to_string p
  | EInvalidOperator -> "InvalidOperator" | EInvalidOperand -> "InvalidOperand"
  | EUnsupportedOperator -> "UnsupportedOperator" | EMissingEndChar -> "MissingEndChar"
  | EDataAfterEndChar -> "DataAfterEndChar" | ENestingLimitReached -> "NestingLimitReached"
  | EArgumentsStackLimitReached -> "ArgumentsStackLimitReached"
  | EInvalidArgumentsStackLength -> "InvalidArgumentsStackLength" | EBboxOverflow -> "BboxOverflow"
  | EMissingMoveTo -> "MissingMoveTo" | EDuplicateVsIndex -> "DuplicateVsIndex"
  | EInvalidSubroutineIndex -> "InvalidSubroutineIndex" | EInvalidFontIndex -> "InvalidFontIndex"
  | ENoLocalSubroutines -> "NoLocalSubroutines" | EInvalidSeacCode -> "InvalidSeacCode"
  | EVsIndexAfterBlend -> "VsIndexAfterBlend" | EMissingVariationStore -> "MissingVariationStore"

let two48 = 281474976710656.0

(* a coordinate: numerator over 2^48 *)
let num_to_string (v : z) : string =
  let (q, r) = z_div_eucl v unit_z in
  if r = Z0 then z_to_string q
  else Printf.sprintf "%.9g" (float_of_string (z_to_string v) /. two48)

let cmd_to_string (c : cmd) : string =
  match c with
  | MoveTo (x, y) -> "M " ^ num_to_string x ^ " " ^ num_to_string y
  | LineTo (x, y) -> "L " ^ num_to_string x ^ " " ^ num_to_string y
  | CurveTo (a, b, c, d, e, f) ->
    "C " ^ String.concat " " (List.map num_to_string [a; b; c; d; e; f])
  | Close -> "Z"

let cmds_to_string (l : cmd list) : string = String.concat ";" (List.map cmd_to_string l)

(* with a raw offset array the CharStrings INDEX is read through the model of Index::read_object;
   returns the objects and whether object `gid` is readable *)
let objects_of (glyphs : z list list) (offs : string) (gid : z) : z list list * bool =
  if offs = "-" then glyphs, true else begin
    let offsets = ints offs in
    let count = z_of_int (List.length glyphs) in
    let all = List.concat glyphs in
    let last = match List.rev offsets with o :: _ -> z_to_int o | [] -> 1 in
    let data = List.filteri (fun i _ -> i < last - 1) all in
    let objs = List.mapi (fun i _ -> index_read_object offsets data count (z_of_int i)) glyphs in
    List.map (function Some b -> b | None -> []) objs,
    (match List.nth_opt objs (z_to_int gid) with Some None -> false | _ -> true)
  end

(* "r1:F+N,F+N" -> [(F, N)] *)
let ranges_of (cs : string) : (int * int) list =
  let body = String.sub cs 3 (String.length cs - 3) in
  if body = "" then [] else
  List.map (fun r -> match split_on '+' r with
      | [f; n] -> (int_of_string f, int_of_string n)
      | _ -> failwith "c18 range") (split_on ',' body)

(* read_range_array keeps the ranges up to the one that completes the glyph count *)
let rec kept_ranges (n : int) (rs : (int * int) list) : (int * int) list =
  if n <= 0 then [] else
  match rs with
  | [] -> []
  | (f, l) :: r -> (f, l) :: kept_ranges (n - l - 1) r

let is_ranges (cs : string) : bool = starts_with "r1:" cs || starts_with "r2:" cs

let fields (input : string) : string list =
  match split_on '|' input with
  | [m; k; gid; gs; fds; fdsel; glyphs; cs; var; offs; _seac] -> [m; k; gid; gs; fds; fdsel; glyphs; cs; var; offs]
  | l -> l

let seac_field (input : string) : string option =
  match split_on '|' input with
  | [_; _; _; _; _; _; _; _; _; _; s] -> Some s
  | _ -> None

let env_of_input (input : string) : env * bool =
  match fields input with
  | [m; k; gid; gs; fds; fdsel; glyphs; cs; var; offs] ->
    let fds = List.map (fun f -> if f = "~" then None else Some (parse_list f)) (split_on '/' fds) in
    let nglyphs = List.length (parse_list glyphs) in
    let charset =
      if cs = "i" then CsISOAdobe else if cs = "e" then CsExpert else if cs = "x" then CsExpertSubset
      else if is_ranges cs then
        CsRanges (List.map (fun (f, n) -> (z_of_int f, z_of_int n)) (kept_ranges (nglyphs - 1) (ranges_of cs)))
      else CsCustom (ints (String.sub cs 1 (String.length cs - 1))) in
    let variable, vsdef, scalars =
      if var = "-" then false, List.map (fun _ -> Z0) fds, []
      else match split_on ';' var with
        | [_a; tuple; regions; ivds; vsd] ->
          let tuple = ints tuple in
          let regions = if regions = "" then [] else List.map (fun r -> triples (ints r)) (split_on '/' regions) in
          let ivds = if ivds = "" then [] else List.map ints (split_on '/' ivds) in
          true, ints vsd, List.map (fun idxs -> ivd_scalars regions tuple idxs) ivds
        | _ -> failwith "c18 var" in
    { e_mode = (if m = "d" then Debug else Release);
      e_kind = (if k = "2" then KCFF2 else KCFF);
      e_cid = (k = "c");
      e_gsubrs = parse_list gs;
      e_fds = fds;
      e_fdsel = ints fdsel;
      e_glyphs = fst (objects_of (parse_list glyphs) offs (z_of_string gid));
      e_gid = z_of_string gid;
      e_charset = charset;
      e_variable = variable;
      e_vsdefault = vsdef;
      e_scalars = scalars }, snd (objects_of (parse_list glyphs) offs (z_of_string gid))
  | _ -> failwith "c18 input"

(* K = q: Charset::sid_to_gid for the SIDs 0..255 *)
let run_query (e : env) : string =
  let rec go sid acc =
    if sid > 255 then "q:" ^ String.concat "," (List.rev acc) else
    match charset_sid_to_gid e.e_mode e.e_charset (z_of_int sid) with
    | COk (Some g) -> go (sid + 1) (z_to_string g :: acc)
    | COk None -> go (sid + 1) ("-" :: acc)
    | CErr er -> "err:" ^ cfferr_to_string er
    | CPanic -> "panic"
    | CFuel -> "fuel" in
  go 0 []

let kind_field (input : string) : string = List.nth (split_on '|' input) 1

let run (input : string) : string =
  let e, readable = env_of_input input in
  if kind_field input = "q" then run_query e else
  if not readable then "err:ParseBadIndex" else
  match interp_glyph e with
  | COk s ->
    (* "#noend": a CFF charstring that stopped without endchar (ill-formed; the last contour stays open) *)
    (if bbox_ok (out s) then "ok:" else "bbox:") ^ cmds_to_string (out s)
    ^ (if e.e_kind = KCFF && not s.endchar_seen then "#noend" else "")
  | CErr er -> "err:" ^ cfferr_to_string er
  | CPanic -> "panic"
  | CFuel -> "fuel"

let kind_of (out : string) : string =
  match String.index_opt out ':' with Some i -> String.sub out 0 i | None -> out

let body_of (out : string) : string =
  match String.index_opt out ':' with
  | Some i -> String.sub out (i + 1) (String.length out - i - 1) | None -> ""

let count_sub (sub : string) (s : string) : int =
  let n = String.length sub and c = ref 0 in
  for i = 0 to String.length s - n do if String.sub s i n = sub then incr c done; !c

(* class of the case for the histogram: font kind, result kind, and which features were exercised *)
(* ---------- the charset as the specification defines it (TN5176 sections 13, 18 and appendix B),
   written without the model: used by the judges of the seac and charset-query cases ---------- *)

(* Adobe StandardEncoding: code -> SID (appendix B; the SIDs 1..149 are the standard strings in
   the order of StandardEncoding) *)
let std_sid (c : int) : int =
  if 32 <= c && c <= 126 then c - 31
  else if 161 <= c && c <= 175 then c - 65
  else if 177 <= c && c <= 180 then c - 66
  else if 182 <= c && c <= 189 then c - 67
  else if c = 191 then 123
  else if 193 <= c && c <= 200 then c - 69
  else if 202 <= c && c <= 203 then c - 70
  else if 205 <= c && c <= 208 then c - 71
  else if c = 225 then 138
  else if c = 227 then 139
  else if 232 <= c && c <= 235 then c - 92
  else if c = 241 then 144
  else if c = 245 then 145
  else if 248 <= c && c <= 251 then c - 102
  else 0

let int_list (s : string) : int list =
  if s = "-" || s = "." || s = "" then [] else List.map int_of_string (split_on ',' s)

let nglyphs_of (f : string list) : int = List.length (parse_list (List.nth f 6))

(* the SID of every glyph from glyph 1 on, as the charset data lists them; None: Expert /
   ExpertSubset (not judged independently) *)
let charset_names (f : string list) : int list option =
  let cs = List.nth f 7 in
  if cs = "i" then Some (List.init 228 (fun i -> i + 1))
  else if cs = "e" || cs = "x" then None
  else if is_ranges cs then
    Some (List.concat_map (fun (first, n) -> List.init (n + 1) (fun i -> first + i))
            (kept_ranges (nglyphs_of f - 1) (ranges_of cs)))
  else Some (int_list (String.sub cs 1 (String.length cs - 1)))

(* the glyph a SID names: .notdef for SID 0, else the first glyph whose charset entry is the SID *)
let glyph_named (names : int list) (sid : int) : int option =
  if sid = 0 then Some 0 else
  let rec go i = function
    | [] -> None
    | x :: r -> if x = sid then Some i else go (i + 1) r in
  match go 1 names with Some g when g <= 65535 -> Some g | _ -> None

(* where a glyph sits in the ranges of a format 1 / 2 charset: F first, L last, O only, M middle *)
let range_position (f : string list) (g : int) : string =
  let cs = List.nth f 7 in
  if not (is_ranges cs) then "" else
  let rec go start = function
    | [] -> "?"
    | (_, n) :: r ->
      if g < start then "?"
      else if g <= start + n then
        (if n = 0 then "O" else if g = start then "F" else if g = start + n then "L" else "M")
      else go (start + n + 1) r in
  if g = 0 then "0" else go 1 (kept_ranges (nglyphs_of f - 1) (ranges_of cs))

let seac_operands (input : string) : (int * int * int * int) option =
  match seac_field input with
  | Some s when String.length s > 1 && s.[0] = 's' ->
    (match int_list (String.sub s 1 (String.length s - 1)) with
     | [adx; ady; b; a] -> Some (adx, ady, b, a)
     | _ -> None)
  | _ -> None

let charset_letter (cs : string) : string =
  if cs = "" then "?" else if starts_with "r1:" cs then "1" else if starts_with "r2:" cs then "2"
  else if cs.[0] = 'c' then "0" else String.make 1 cs.[0]

let tag (input : string) (out : string) : string =
  let f = fields input in
  let k = List.nth f 1 in
  if k = "q" then "q:" ^ charset_letter (List.nth f 7) ^ ":" ^ kind_of out else
  (* seac cases: charset format and where the two components sit in their ranges *)
  let k = match seac_operands input with
    | None -> k
    | Some (_, _, b, a) ->
      let pos c = match charset_names f with
        | None -> "-"
        | Some names ->
          (match glyph_named names (std_sid c) with
           | Some g when g < nglyphs_of f -> if is_ranges (List.nth f 7) then range_position f g else "+"
           | _ -> "N") in
      "seac" ^ charset_letter (List.nth f 7) ^ pos b ^ pos a in
  let body = body_of out in
  let out = if count_sub "#noend" out > 0 then "noend:" else out in
  let feat =
    (if List.nth f 3 <> "." || (List.nth f 4 <> "~" && List.nth f 4 <> ".") then "s" else "") ^
    (if String.contains body 'C' then "c" else "") ^
    (if count_sub "M " body > 1 then "m" else "") ^
    (* z: the variation store has an ItemVariationData that lists no regions (blend with k = 0) *)
    (match split_on ';' (List.nth f 8) with
     | [_; _; _; ivds; _] when List.mem "." (split_on '/' ivds) -> "z"
     | _ -> "") in
  k ^ ":" ^ kind_of out ^ (if kind_of out = "err" then ":" ^ body else ":" ^ feat)

(* the contour discipline of the property: (M segment* Z)* *)
let contours_ok (cmds : string list) : bool =
  let rec go opened = function
    | [] -> not opened
    | c :: r ->
      if c = "" then go opened r
      else match c.[0] with
        | 'M' -> if opened then false else go true r
        | 'Z' -> if opened then go false r else false
        | _ -> if opened then go opened r else false
  in go false cmds

let inexact_allowed (input : string) : bool =
  (* a 16.16 operand (or a data byte 0xff) or a blend may occur *)
  let f = fields input in
  List.nth f 8 <> "-" ||
  (let has_ff s =
     let n = String.length s in
     let rec go i = i + 1 < n && ((s.[i] = 'f' && s.[i + 1] = 'f') || go (i + 1)) in go 0 in
   has_ff (List.nth f 3) || has_ff (List.nth f 4) || has_ff (List.nth f 6))

let close_enough (a : string) (b : string) : bool =
  (* same command letters, coordinates within 2^-6 + 2^-12 relative *)
  let ca = split_on ';' a and cb = split_on ';' b in
  List.length ca = List.length cb &&
  List.for_all2 (fun x y ->
      let px = split_on ' ' x and py = split_on ' ' y in
      List.length px = List.length py &&
      (match px, py with
       | hx :: tx, hy :: ty ->
         hx = hy && List.for_all2 (fun u v ->
             match float_of_string_opt u, float_of_string_opt v with
             | Some fu, Some fv -> Float.abs (fu -. fv) <= 0.015625 +. Float.abs fv /. 4096.0
             | _ -> false) tx ty
       | _ -> false)) ca cb

(* The property, applied to the implementation's output.  The model's path is, by C18_interp_spec,
   the path the Type 2 specification assigns to a well-formed program; so when the model accepts,
   any other outcome of the implementation is a violation.  A panic is always a violation.  When
   the model rejects the program (ill-formed), a different rejection or an accepted path that still
   obeys the contour discipline is only a correspondence mismatch. *)
(* ---------- seac, judged without the model's charset lookup and without its seac step ----------
   When the case says what the glyph is (`seac` field: adx ady bchar achar endchar over plain
   components), the outline the specification assigns is: the path of the glyph named by
   StandardEncoding[bchar] in the charset, then the path of the glyph named by
   StandardEncoding[achar] moved by (adx, ady).  The two component paths are the model's results for
   those glyphs on their own (plain programs: C18_interp_spec_cff); which glyphs they are is decided
   here from the charset data.  None: no independent expectation (Expert charsets, a code that
   names no glyph of the font, components that are not plain integer paths). *)
let replace_gid (input : string) (g : int) : string =
  match fields input with
  | m :: k :: _ :: rest -> String.concat "|" (m :: k :: string_of_int g :: rest)
  | _ -> input

let is_int_token (t : string) : bool =
  t <> "" && String.for_all (fun c -> (c >= '0' && c <= '9') || c = '-') t

let plain_path (res : string) : string list option =
  if count_sub "#noend" res > 0 then None else
  if kind_of res <> "ok" && kind_of res <> "bbox" then None else
  let cmds = List.filter (fun c -> c <> "") (split_on ';' (body_of res)) in
  if List.for_all (fun c -> match split_on ' ' c with
      | _ :: nums -> List.for_all is_int_token nums
      | [] -> false) cmds
  then Some cmds else None

let shift_cmd (dx : int) (dy : int) (c : string) : string =
  match split_on ' ' c with
  | op :: nums ->
    String.concat " " (op :: List.mapi (fun i t ->
        string_of_int (int_of_string t + (if i mod 2 = 0 then dx else dy))) nums)
  | [] -> c

let seac_expectation (input : string) : string option =
  let f = fields input in
  match seac_operands input, charset_names f with
  | Some (adx, ady, b, a), Some names when List.nth f 1 = "t" && List.nth f 9 = "-" ->
    let n = nglyphs_of f and gid = int_of_string (List.nth f 2) in
    (* a code StandardEncoding leaves unencoded names no glyph: no expectation *)
    (match glyph_named names (std_sid b), glyph_named names (std_sid a) with
     | Some bg, Some ag when std_sid b <> 0 && std_sid a <> 0 && bg < n && ag < n && bg <> gid && ag <> gid ->
       (match plain_path (run (replace_gid input bg)), plain_path (run (replace_gid input ag)) with
        | Some pb, Some pa ->
          let cmds = pb @ List.map (shift_cmd adx ady) pa in
          let fits = List.for_all (fun c -> match split_on ' ' c with
              | _ :: nums -> List.for_all (fun t -> let v = int_of_string t in -32768 <= v && v <= 32767) nums
              | [] -> true) cmds in
          Some ((if fits then "ok:" else "bbox:") ^ String.concat ";" cmds)
        | _, _ -> None)
     | _, _ -> None)
  | _, _ -> None

(* ---------- K = q: the SID -> glyph map of a custom charset is the inverse of its glyph -> SID list ---------- *)
let opt_to_string (o : int option) : string = match o with Some v -> string_of_int v | None -> "-"

let judge_query (input : string) (impl : string) (model : string) : verdict =
  let f = fields input in
  if kind_of impl = "panic" then Violation ("panic", "the charset lookup panicked") else
  if kind_of impl <> "q" then
    (if impl = model then Agree else Mismatch (Printf.sprintf "model %s, implementation %s" model impl))
  else begin
    let gids, ids = match split_on '/' (body_of impl) with
      | [g; i] -> split_on ',' g, split_on ',' i
      | _ -> [], [] in
    let cs = List.nth f 7 in
    let custom = is_ranges cs || (cs <> "" && cs.[0] = 'c') in
    let bad = ref None in
    (match charset_names f with
     | Some names when custom ->
       List.iteri (fun sid g ->
           let want = opt_to_string (glyph_named names sid) in
           if !bad = None && g <> want then
             bad := Some (Printf.sprintf "sid_to_gid(%d) = %s, but the charset names glyph %s" sid g want)) gids;
       List.iteri (fun g id ->
           let want = opt_to_string (if g = 0 then Some 0 else
                                       match List.nth_opt names (g - 1) with
                                       | Some v when v <= 65535 -> Some v | _ -> None) in
           if !bad = None && id <> want then
             bad := Some (Printf.sprintf "id_for_glyph(%d) = %s, but the charset lists %s" g id want)) ids
     | _ -> ());
    match !bad with
    | Some why -> Violation ("charset", why)
    | None ->
      if "q:" ^ String.concat "," gids = model then Agree
      else Mismatch (Printf.sprintf "model %s, implementation %s" model impl)
  end

let judge (input : string) (impl : string) (model : string) : verdict =
  if kind_field input = "q" then judge_query input impl model else
  match (if kind_of impl = "panic" then None else seac_expectation input) with
  | Some want when impl <> want ->
    Violation ("seac", Printf.sprintf "seac composition: the specified outline is %s"
                 (if String.length want > 160 then String.sub want 0 160 ^ "..." else want))
  | Some _ when impl <> model -> Mismatch (Printf.sprintf "model %s, implementation %s (= the seac specification)" model impl)
  | _ ->
  let noend = String.length model > 6 && String.sub model (String.length model - 6) 6 = "#noend" in
  let model = if noend then String.sub model 0 (String.length model - 6) else model in
  let contours_ok l = noend || contours_ok l in
  let ki = kind_of impl and km = kind_of model in
  if ki = "panic" then
    Violation ("panic", "the interpreter panicked" ^ (if km = "panic" then " (as modelled)" else ""))
  else if impl = model then
    (if (ki = "ok" || ki = "bbox") && not (contours_ok (split_on ';' (body_of impl)))
     then Violation ("contour", "a contour is not opened by one move and closed exactly once")
     else Agree)
  else if km = "ok" || km = "bbox" then begin
    if ki = km && inexact_allowed input && close_enough (body_of impl) (body_of model) then Agree
    else if ki = "ok" || ki = "bbox" then
      Violation ("path", "the outline differs from the path the charstring specifies")
    else Violation ("rejected", "a charstring the model accepts was rejected: " ^ impl)
  end
  else if (ki = "ok" || ki = "bbox") && not (contours_ok (split_on ';' (body_of impl))) then
    Violation ("contour", "a contour is not opened by one move and closed exactly once")
  else Mismatch (Printf.sprintf "model %s, implementation %s" model impl)
