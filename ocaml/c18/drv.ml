(* C18: run the Type 2 charstring model on one case line and judge the implementation's outline.
   input  = M|K|gid|gsubrs|fds|fdsel|glyphs|charset|var
     M       d (debug build) | r (release)
     K       t (name-keyed CFF) | c (CID-keyed CFF) | 2 (CFF2)
     gsubrs  list of charstrings: "." (empty list) or items separated by ","; an item is HEX or "-"
             (empty string), optionally followed by "*N" (N copies)
     fds     per Font DICT, separated by "/": "~" (no Subrs operator) or a list as above
     fdsel   font dict index per glyph ("," separated) or "-"
     glyphs  list as above
     charset i (ISOAdobe) | e (Expert) | cSID,SID,... (format 0 custom charset)
     var     "-" or  A;tuple;regions;ivds;vsdefaults
             tuple = A F2Dot14 raw values; regions = "/" separated, each 3A values (start,peak,end per
             axis); ivds = "/" separated region-index lists ("." empty); vsdefaults = per Font DICT
   output = ok:CMDS | bbox:CMDS | err:Name | panic | fuel
     CMDS = commands separated by ";":  M x y | L x y | C x1 y1 x2 y2 x y | Z *)
open Model
open Zconv
open Verdict

let parse_list (s : string) : z list list =
  if s = "." then [] else
  List.concat_map (fun item ->
      let body, n =
        match String.index_opt item '*' with
        | Some i -> String.sub item 0 i, int_of_string (String.sub item (i + 1) (String.length item - i - 1))
        | None -> item, 1 in
      let bs = bytes_of_hex body in
      List.init n (fun _ -> bs))
    (split_on ',' s)

let ints (s : string) : z list =
  if s = "-" || s = "." || s = "" then [] else List.map z_of_string (split_on ',' s)

let rec triples = function
  | a :: b :: c :: r -> ((a, b), c) :: triples r
  | _ -> []

let cfferr_to_string (e : cfferr) : string =
  match e with
  | EParse p -> "Parse" ^ err_to_string p
  | EInvalidOperator -> "InvalidOperator" | EInvalidOperand -> "InvalidOperand"
  | EUnsupportedOperator -> "UnsupportedOperator" | EMissingEndChar -> "MissingEndChar"
  | EDataAfterEndChar -> "DataAfterEndChar" | ENestingLimitReached -> "NestingLimitReached"
  | EArgumentsStackLimitReached -> "ArgumentsStackLimitReached"
  | EInvalidArgumentsStackLength -> "InvalidArgumentsStackLength" | EBboxOverflow -> "BboxOverflow"
  | EMissingMoveTo -> "MissingMoveTo" | EDuplicateVsIndex -> "DuplicateVsIndex"
  | EInvalidSubroutineIndex -> "InvalidSubroutineIndex" | EInvalidFontIndex -> "InvalidFontIndex"
  | ENoLocalSubroutines -> "NoLocalSubroutines" | EInvalidSeacCode -> "InvalidSeacCode"
  | EVsIndexAfterBlend -> "VsIndexAfterBlend" | EMissingVariationStore -> "MissingVariationStore"

let two48 = 281474976710656.0

(* a coordinate: numerator over 2^48 *)
let num_to_string (v : z) : string =
  let (q, r) = z_div_eucl v unit_z in
  if r = Z0 then z_to_string q
  else Printf.sprintf "%.9g" (float_of_string (z_to_string v) /. two48)

let cmd_to_string (c : cmd) : string =
  match c with
  | MoveTo (x, y) -> "M " ^ num_to_string x ^ " " ^ num_to_string y
  | LineTo (x, y) -> "L " ^ num_to_string x ^ " " ^ num_to_string y
  | CurveTo (a, b, c, d, e, f) ->
    "C " ^ String.concat " " (List.map num_to_string [a; b; c; d; e; f])
  | Close -> "Z"

let cmds_to_string (l : cmd list) : string = String.concat ";" (List.map cmd_to_string l)

(* with a raw offset array the CharStrings INDEX is read through the model of Index::read_object;
   returns the objects and whether object `gid` is readable *)
let objects_of (glyphs : z list list) (offs : string) (gid : z) : z list list * bool =
  if offs = "-" then glyphs, true else begin
    let offsets = ints offs in
    let count = z_of_int (List.length glyphs) in
    let all = List.concat glyphs in
    let last = match List.rev offsets with o :: _ -> z_to_int o | [] -> 1 in
    let data = List.filteri (fun i _ -> i < last - 1) all in
    let objs = List.mapi (fun i _ -> index_read_object offsets data count (z_of_int i)) glyphs in
    List.map (function Some b -> b | None -> []) objs,
    (match List.nth_opt objs (z_to_int gid) with Some None -> false | _ -> true)
  end

let env_of_input (input : string) : env * bool =
  match split_on '|' input with
  | [m; k; gid; gs; fds; fdsel; glyphs; cs; var; offs] ->
    let fds = List.map (fun f -> if f = "~" then None else Some (parse_list f)) (split_on '/' fds) in
    let charset =
      if cs = "i" then CsISOAdobe else if cs = "e" then CsExpert
      else CsCustom (ints (String.sub cs 1 (String.length cs - 1))) in
    let variable, vsdef, scalars =
      if var = "-" then false, List.map (fun _ -> Z0) fds, []
      else match split_on ';' var with
        | [_a; tuple; regions; ivds; vsd] ->
          let tuple = ints tuple in
          let regions = if regions = "" then [] else List.map (fun r -> triples (ints r)) (split_on '/' regions) in
          let ivds = if ivds = "" then [] else List.map ints (split_on '/' ivds) in
          true, ints vsd, List.map (fun idxs -> ivd_scalars regions tuple idxs) ivds
        | _ -> failwith "c18 var" in
    { e_mode = (if m = "d" then Debug else Release);
      e_kind = (if k = "2" then KCFF2 else KCFF);
      e_cid = (k = "c");
      e_gsubrs = parse_list gs;
      e_fds = fds;
      e_fdsel = ints fdsel;
      e_glyphs = fst (objects_of (parse_list glyphs) offs (z_of_string gid));
      e_gid = z_of_string gid;
      e_charset = charset;
      e_variable = variable;
      e_vsdefault = vsdef;
      e_scalars = scalars }, snd (objects_of (parse_list glyphs) offs (z_of_string gid))
  | _ -> failwith "c18 input"

let run (input : string) : string =
  let e, readable = env_of_input input in
  if not readable then "err:ParseBadIndex" else
  match interp_glyph e with
  | COk s ->
    (* "#noend": a CFF charstring that stopped without endchar (ill-formed; the last contour stays open) *)
    (if bbox_ok (out s) then "ok:" else "bbox:") ^ cmds_to_string (out s)
    ^ (if e.e_kind = KCFF && not s.endchar_seen then "#noend" else "")
  | CErr er -> "err:" ^ cfferr_to_string er
  | CPanic -> "panic"
  | CFuel -> "fuel"

let kind_of (out : string) : string =
  match String.index_opt out ':' with Some i -> String.sub out 0 i | None -> out

let body_of (out : string) : string =
  match String.index_opt out ':' with
  | Some i -> String.sub out (i + 1) (String.length out - i - 1) | None -> ""

let count_sub (sub : string) (s : string) : int =
  let n = String.length sub and c = ref 0 in
  for i = 0 to String.length s - n do if String.sub s i n = sub then incr c done; !c

(* class of the case for the histogram: font kind, result kind, and which features were exercised *)
let tag (input : string) (out : string) : string =
  let f = split_on '|' input in
  let k = List.nth f 1 in
  let body = body_of out in
  let out = if count_sub "#noend" out > 0 then "noend:" else out in
  let feat =
    (if List.nth f 3 <> "." || (List.nth f 4 <> "~" && List.nth f 4 <> ".") then "s" else "") ^
    (if String.contains body 'C' then "c" else "") ^
    (if count_sub "M " body > 1 then "m" else "") ^
    (* z: the variation store has an ItemVariationData that lists no regions (blend with k = 0) *)
    (match split_on ';' (List.nth f 8) with
     | [_; _; _; ivds; _] when List.mem "." (split_on '/' ivds) -> "z"
     | _ -> "") in
  k ^ ":" ^ kind_of out ^ (if kind_of out = "err" then ":" ^ body else ":" ^ feat)

(* the contour discipline of the property: (M segment* Z)* *)
let contours_ok (cmds : string list) : bool =
  let rec go opened = function
    | [] -> not opened
    | c :: r ->
      if c = "" then go opened r
      else match c.[0] with
        | 'M' -> if opened then false else go true r
        | 'Z' -> if opened then go false r else false
        | _ -> if opened then go opened r else false
  in go false cmds

let inexact_allowed (input : string) : bool =
  (* a 16.16 operand (or a data byte 0xff) or a blend may occur *)
  let f = split_on '|' input in
  List.nth f 8 <> "-" ||
  (let has_ff s =
     let n = String.length s in
     let rec go i = i + 1 < n && ((s.[i] = 'f' && s.[i + 1] = 'f') || go (i + 1)) in go 0 in
   has_ff (List.nth f 3) || has_ff (List.nth f 4) || has_ff (List.nth f 6))

let close_enough (a : string) (b : string) : bool =
  (* same command letters, coordinates within 2^-6 + 2^-12 relative *)
  let ca = split_on ';' a and cb = split_on ';' b in
  List.length ca = List.length cb &&
  List.for_all2 (fun x y ->
      let px = split_on ' ' x and py = split_on ' ' y in
      List.length px = List.length py &&
      (match px, py with
       | hx :: tx, hy :: ty ->
         hx = hy && List.for_all2 (fun u v ->
             match float_of_string_opt u, float_of_string_opt v with
             | Some fu, Some fv -> Float.abs (fu -. fv) <= 0.015625 +. Float.abs fv /. 4096.0
             | _ -> false) tx ty
       | _ -> false)) ca cb

(* The property, applied to the implementation's output.  The model's path is, by C18_interp_spec,
   the path the Type 2 specification assigns to a well-formed program; so when the model accepts,
   any other outcome of the implementation is a violation.  A panic is always a violation.  When
   the model rejects the program (ill-formed), a different rejection or an accepted path that still
   obeys the contour discipline is only a correspondence mismatch. *)
let judge (input : string) (impl : string) (model : string) : verdict =
  let noend = String.length model > 6 && String.sub model (String.length model - 6) 6 = "#noend" in
  let model = if noend then String.sub model 0 (String.length model - 6) else model in
  let contours_ok l = noend || contours_ok l in
  let ki = kind_of impl and km = kind_of model in
  if ki = "panic" then
    Violation ("panic", "the interpreter panicked" ^ (if km = "panic" then " (as modelled)" else ""))
  else if impl = model then
    (if (ki = "ok" || ki = "bbox") && not (contours_ok (split_on ';' (body_of impl)))
     then Violation ("contour", "a contour is not opened by one move and closed exactly once")
     else Agree)
  else if km = "ok" || km = "bbox" then begin
    if ki = km && inexact_allowed input && close_enough (body_of impl) (body_of model) then Agree
    else if ki = "ok" || ki = "bbox" then
      Violation ("path", "the outline differs from the path the charstring specifies")
    else Violation ("rejected", "a charstring the model accepts was rejected: " ^ impl)
  end
  else if (ki = "ok" || ki = "bbox") && not (contours_ok (split_on ';' (body_of impl))) then
    Violation ("contour", "a contour is not opened by one move and closed exactly once")
  else Mismatch (Printf.sprintf "model %s, implementation %s" model impl)
