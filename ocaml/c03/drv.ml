(* C03: results depend only on the arguments, not on earlier calls.
   input kinds (see harness/src/bin/c03.rs):
     L|GSUBSPEC|ops     layout-cache layer      impl/model output  h=r;r;..#f=r;r;..
     G|FONTSPEC|ops     glyph-lookup layer      impl/model output  h=r;r;..#f=r;r;..
     F|FONT|hist|probe  history on a real Font  impl output  D1 D2   (model output -: judged model-independently)
     P|what|FONT|args   pure operation twice    impl output  D1 D2 *)
open Model
open Zconv
open Verdict

let zlist_dot (s : string) : z list =
  if s = "_" || s = "" then [] else List.map z_of_string (split_on '.' s)

let split1 (c : char) (s : string) : string * string =
  match String.index_opt s c with
  | Some i -> (String.sub s 0 i, String.sub s (i + 1) (String.length s - i - 1))
  | None -> failwith ("split1 " ^ s)

(* ---------------------------------------------------------------- GSUB spec *)
let parse_spec (s : string) : gsub =
  match split_on '!' s with
  | [fs; ss; vs; _nl; _na] ->
    let features = if fs = "_" then [] else
      List.map (fun f -> let (t, l) = split1 '/' f in (z_of_string t, zlist_dot l)) (split_on ',' fs) in
    let scripts = if ss = "_" then [] else
      List.map (fun sc -> match split_on '/' sc with
        | [t; d; ls] ->
          { s_tag = z_of_string t;
            s_default = (if d = "x" then None else Some (zlist_dot d));
            s_langs = (if ls = "_" then [] else
              List.map (fun l -> let (t, i) = split1 '=' l in (z_of_string t, zlist_dot i)) (split_on '+' ls)) }
        | _ -> failwith "script") (split_on ',' ss) in
    let fv = if vs = "_" then None else if vs = "0" then Some [] else
      Some (List.map (fun r ->
        let (c, su) = split1 '/' r in
        let conds = match c with
          | "u" -> CUniversal
          | "e" -> CSet []
          | _ -> CSet (List.map (fun x -> match split_on ':' x with
              | [a; mn; mx] -> ((z_of_string a, z_of_string mn), z_of_string mx)
              | _ -> failwith "cond") (split_on '+' c)) in
        let substs = match su with
          | "n" -> SNone
          | "e" -> STable []
          | _ -> STable (List.map (fun x -> let (i, l) = split1 '=' x in (z_of_string i, zlist_dot l)) (split_on '+' su)) in
        (conds, substs)) (split_on ',' vs)) in
    { g_features = features; g_scripts = scripts; g_fvars = fv }
  | _ -> failwith "gsub spec"

let parse_lang s = if s = "-" then None else Some (z_of_string s)
let parse_tuple s = if s = "-" then None else if s = "_" then Some [] else Some (zlist_dot s)

let lop_of_string (s : string) : lop =
  match split_on '/' s with
  | ["li"; sc; la; tu; m] -> LI (z_of_string sc, parse_lang la, parse_tuple tu, z_of_string m)
  | ["sf"; sc; la; m] -> SF (z_of_string sc, parse_lang la, z_of_string m)
  | _ -> failwith ("lop " ^ s)

let lres_to_string (r : lres outcome) : string =
  match r with
  | Ok (RLookups l) ->
    "ok:" ^ String.concat "," (List.map (fun (i, t) -> z_to_string i ^ "." ^ z_to_string t) l)
  | Ok (RBool b) -> if b then "ok:1" else "ok:0"
  | Err e -> "err:" ^ err_to_string e
  | Panic -> "panic"
  | OOB -> "oob"

(* ---------------------------------------------------------------- font spec *)
let bit_of_letter (c : char) : z * bool =
  (* (GlyphTableFlags bit, loader succeeds) *)
  match c with
  | 'g' -> (z_of_int 1, false) | 'c' -> (z_of_int 2, false)
  | 'S' -> (gTF_SVG, true) | 's' -> (gTF_SVG, false)
  | 'X' -> (gTF_SBIX, true) | 'x' -> (gTF_SBIX, false)
  | 'B' -> (gTF_CBDT, true) | 'b' -> (gTF_CBDT, false)
  | 'E' -> (gTF_EBDT, true) | 'e' -> (gTF_EBDT, false)
  | _ -> (Z0, false)

let parse_font (s : string) : font_static =
  let (pairs, tabs, emoji) = match split_on '!' s with
    | [p; t; e] -> (p, t, zlist_dot e) | _ -> failwith "font spec" in
  let ps = if pairs = "_" then [] else
    List.map (fun x -> match split_on '/' x with
      | [c; g] -> (z_of_string c, z_of_string g)
      | _ -> failwith "pair") (split_on ',' pairs) in
  let flags = ref 0 and parses = ref 0 in
  String.iter (fun c ->
    let (b, ok) = bit_of_letter c in
    let b = z_to_int b in
    flags := !flags lor b;
    if ok then parses := !parses lor b) tabs;
  (* the harness's cmap keeps the first of equal code points after sorting: pairs are distinct by construction *)
  { f_cmap = ps;
    f_emoji = emoji;
    f_flags = z_of_int !flags; f_parses = z_of_int !parses }

let gop_of_string (s : string) : gop =
  match split_on '/' s with
  | ["lg"; c; mp; vs] ->
    GLookup (z_of_string c, (if mp = "r" then Required else NotRequired),
             (if vs = "-" then None else Some (z_of_string vs)))
  | ["ef"; f] -> GFilter (z_of_string f)
  | ["hi"] -> GHasImages
  | ["gi"] -> GImage
  | ["dc"] -> GShape
  | _ -> failwith ("gop " ^ s)

let gres_to_string (r : gres outcome) : string =
  match r with
  | Ok (GGlyph (g, v)) -> z_to_string g ^ "." ^ z_to_string v
  | Ok GUnit -> "-"
  | Ok (GBool b) -> if b then "1" else "0"
  | Ok GNoImage -> "none"
  | Err e -> "err:" ^ err_to_string e
  | Panic -> "panic"
  | OOB -> "oob"

let ops_of (s : string) : string list = List.filter (fun x -> x <> "") (split_on ';' s)

(* ---------------------------------------------------------------- glyf table spec (kind T) *)
(* a record's raw data is its spec string; parse = what scope.read::<Glyph>() answers for the bytes the harness
   builds from it (t_glyph_bytes in c03.rs) *)
let t_parse (g : string) : z glyph outcome =
  if g = "" then Ok GEmpty else
  let rest = String.sub g 1 (String.length g - 1) in
  match g.[0] with
  | 's' | 'q' -> Ok (GSimple Z0)
  | 'c' | 'k' -> (match zlist_dot rest with [] -> Err Eof | cs -> Ok (GComposite cs))
  | 't' | 'u' -> Err Eof
  | _ -> Ok GEmpty

let t_table (spec : string) : (string, z) grec list =
  let (mode, gs) = match String.index_opt spec '!' with
    | Some _ -> split1 '!' spec
    | None -> ("p", spec) in
  List.map (fun g ->
      match g.[0], t_parse g with
      | ('s' | 'q' | 'c' | 'k' | 't' | 'u'), Ok p when mode = "r" -> Parsed p
      | ('s' | 'q' | 'c' | 'k' | 't' | 'u'), _ -> Present g
      | _ -> Parsed GEmpty)          (* a zero-length loca entry is GlyfRecord::empty() *)
    (List.filter (fun x -> x <> "") (split_on ',' gs))

let t_op_of_string (s : string) : top option =
  match split_on ':' s with
  | ["v"; g] -> Some (TVisit (z_of_string g))
  | ["g"; g] -> Some (TGet (z_of_string g))
  | _ -> None

let tres_to_string (r : z tres) : string =
  match r with
  | RDrawn (Ok l) -> "ok:" ^ string_of_int (List.length l)
  | RGlyph (Ok GEmpty) -> "ok:E"
  | RGlyph (Ok (GSimple _)) -> "ok:S"
  | RGlyph (Ok (GComposite cs)) -> "ok:C" ^ String.concat "." (List.map z_to_string cs)
  | RDrawn (Err e) | RGlyph (Err e) -> "err:" ^ err_to_string e
  | RDrawn Panic | RGlyph Panic -> "panic"
  | RDrawn OOB | RGlyph OOB -> "oob"

let run_t (spec : string) (hist : string) (probe : string) : string =
  let t0 = t_table spec in
  let ops = List.map t_op_of_string (ops_of hist @ [probe]) in
  let modelled = List.filter_map (fun x -> x) ops in
  (* the stateless specification, call by call; the run on ONE table must give the same (C03_glyf_table_history_independent) *)
  let spec_res = List.map (fun op -> tres_to_string (t_spec t_parse t0 op)) modelled in
  let run_res = List.map tres_to_string (fst (t_run t_parse t0 modelled)) in
  if spec_res <> run_res then failwith "c03: t_run and t_spec differ";
  String.concat "," (List.map (function Some op -> tres_to_string (t_spec t_parse t0 op) | None -> "-") ops)

let contains (s : string) (sub : string) : bool =
  let n = String.length s and m = String.length sub in
  let rec go i = i + m <= n && (String.sub s i m = sub || go (i + 1)) in go 0


let run (input : string) : string =
  match split_on '|' input with
  | ["L"; spec; ops] ->
    let g = parse_spec spec in
    let ops = List.map lop_of_string (ops_of ops) in
    let h = List.map lres_to_string (l_run g new_lcache ops) in
    let f = List.map (fun op -> lres_to_string (l_spec g op)) ops in
    "h=" ^ String.concat ";" h ^ "#f=" ^ String.concat ";" f
  | ["G"; spec; ops] ->
    let fs = parse_font spec in
    let ops = List.map gop_of_string (ops_of ops) in
    let h = List.map gres_to_string (g_run fs font_new ops) in
    let f = List.map gres_to_string (g_spec_run fs dEFAULT_IMAGE_FILTER ops) in
    "h=" ^ String.concat ";" h ^ "#f=" ^ String.concat ";" f
  | ["T"; spec; hist; probe] -> run_t spec hist probe
  | "F" :: _ | "T" :: _ | "P" :: _ | "P1" :: _ | "P2" :: _ -> "-"
  | _ -> failwith "c03 input"

let kind (input : string) : string =
  match String.index_opt input '|' with Some i -> String.sub input 0 i | None -> "?"

let split_hf (s : string) : (string list * string list) option =
  (* h=a;b#f=c;d *)
  match String.index_opt s '#' with
  | Some i when starts_with "h=" s && String.length s >= i + 3 && String.sub s (i + 1) 2 = "f=" ->
    let h = String.sub s 2 (i - 2) and f = String.sub s (i + 3) (String.length s - i - 3) in
    Some (split_on ';' h, split_on ';' f)
  | _ -> None

(* The property, decided on the implementation's output alone:
   - L/G: the result of every call on the one long-lived object equals the result of the same call on a fresh
     object (same configuration);  F: the probe after the history equals the probe on a fresh Font;
     P: two runs of a pure operation give identical bytes.
   A difference between the implementation and the model that does not show such a dependence is a Mismatch. *)
let judge (input : string) (impl : string) (model : string) : verdict =
  match kind input with
  | "L" | "G" ->
    (match split_hf impl with
     | None -> Mismatch ("unexpected implementation output: " ^ impl)
     | Some (h, f) ->
       if List.length h <> List.length f then Mismatch "h and f have different lengths" else begin
         let bad = ref None in
         List.iteri (fun i (a, b) -> if !bad = None && a <> b then bad := Some (i, a, b)) (List.combine h f);
         match !bad with
         | Some (i, a, b) ->
           Violation ((if kind input = "L" then "history-layout" else "history-glyph"),
                      Printf.sprintf "call %d returned %s after the earlier calls but %s on a fresh object" (i + 1) a b)
         | None -> if impl = model then Agree else Mismatch "implementation and model differ"
       end)
  | "T" ->
    (* the property first, on the implementation's output alone; then the statuses of the calls on a freshly read
       table against the extracted model (visit_spec / parsed_of) *)
    (match split_on ' ' impl with
     | [a; _; _] when a = "nofont" -> Mismatch "the table did not load"
     | [a; b; st] ->
       if a <> b then
         Violation ("history-table",
                    Printf.sprintf "calls on one GlyfTable gave digest %s, the same calls each on a freshly read table %s" a b)
       else if st <> model then Mismatch (Printf.sprintf "fresh-table results %s, model %s" st model)
       else Agree
     | _ -> Mismatch ("unexpected implementation output: " ^ impl))
  | "F" | "P" | "P2" ->
    (match split_on ' ' impl with
     | [a; b] when a = "nofont" -> Mismatch "the font did not load"
     | [a; b] ->
       if a = b then Agree
       else if kind input = "F" then
         Violation ("history-font", Printf.sprintf "probe digest %s after the history, %s on a fresh Font" a b)
       else Violation ("pure", Printf.sprintf "two runs gave %s and %s" a b)
     | _ -> Mismatch ("unexpected implementation output: " ^ impl))
  | _ -> Mismatch "unknown case kind"

let tag (input : string) (out : string) : string =
  let k = kind input in
  match split_on '|' input with
  | [_; _; ops] when k = "L" || k = "G" ->
    let n = List.length (ops_of ops) in
    let errs = if contains out "err:" then "-err" else "" in
    Printf.sprintf "%s-%s%s" k (if n <= 2 then "1-2" else if n <= 5 then "3-5" else "6+") errs
  | [_; font; hist; probe] when k = "F" ->
    let p = match String.index_opt probe ':' with Some i -> String.sub probe 0 i | None -> probe in
    Printf.sprintf "F-%s-%s-h%d" (if starts_with "syn:" font then "syn" else "fix") p (min 3 (List.length (ops_of hist)))
  | [_; spec; hist; probe] when k = "T" ->
    let p = match String.index_opt probe ':' with Some i -> String.sub probe 0 i | None -> probe in
    Printf.sprintf "T-%s-%s-h%d" (if starts_with "r!" spec then "parsed" else "lazy") p (min 3 (List.length (ops_of hist)))
  | [_; what; _; _] -> k ^ "-" ^ what
  | _ -> k
