(* outcome of comparing the implementation's result with the model's on one case *)
type verdict =
  | Agree
  | Mismatch of string            (* correspondence broken, but the property is not shown violated *)
  | Violation of string * string  (* (class, reason): the implementation's output violates the property *)

let default_judge (_input : string) (impl : string) (model : string) : verdict =
  if impl = model then Agree else Mismatch "implementation and model differ"

let starts_with (p : string) (s : string) : bool =
  String.length s >= String.length p && String.sub s 0 (String.length p) = p
