(* C09: the sfnt writer.  See harness/src/bin/c09.rs for the line format. *)
open Model
open Zconv
open Verdict

let fields input = split_on '|' input

let run (input : string) : string =
  match fields input with
  | ["W"; _; _; ver; ins] ->
    if ver = "-" then "err" else begin
      let inserts = List.filter_map (fun it -> if it = "" then None else
        match split_on '=' it with
        | [t; h] -> Some (z_of_string t, bytes_of_hex h) | _ -> failwith "insert") (split_on ';' ins) in
      (* the build mode no longer matters: the search fields use checked arithmetic (fix c89f93a) *)
      match build_from_inserts Debug (z_of_string ver) inserts with
      | Ok b -> "ok:" ^ hex_of_bytes b
      | Err _ -> "err" | Panic -> "panic" | OOB -> "oob"
    end
  | _ -> "n/a"   (* subset / instance outputs are judged, not predicted *)

(* the property on the implementation's output: a successful write is a structurally valid sfnt
   (sorted directory, search fields, aligned contiguous zero-padded tables, per-table checksums,
   whole-file checksum 0xB1B0AFBA); model-independent *)
let judge (_input : string) (impl : string) (model : string) : verdict =
  if starts_with "panic" impl then Violation ("panic", "writer panicked")
  else if starts_with "prov:" impl then
    Violation ("inconsistent", "tables handed out by the WOFF2 table provider are not mutually consistent: "
                               ^ String.sub impl 5 (String.length impl - 5))
  else if starts_with "ok:" impl then begin
    (* S / I results carry the harness' cross-table consistency flags after a second colon *)
    let body = String.sub impl 3 (String.length impl - 3) in
    let (hexpart, flags) = match String.index_opt body ':' with
      | Some i -> (String.sub body 0 i, String.sub body (i + 1) (String.length body - i - 1))
      | None -> (body, "") in
    let file = bytes_of_hex hexpart in
    if not (valid_sfnt file) then Violation ("invalid-sfnt", "output is not a structurally valid sfnt")
    else if flags <> "" then Violation ("inconsistent", "tables of the output are not mutually consistent: " ^ flags)
    else if model = "n/a" || impl = model then Agree
    else Mismatch "valid sfnt, but not the bytes the model predicts"
  end
  else if model = "n/a" || impl = model then Agree
  else Mismatch ("implementation " ^ impl ^ ", model " ^ (String.sub model 0 (min 12 (String.length model))))

let tag (input : string) (out : string) : string =
  String.sub input 0 1 ^ "-" ^ String.sub out 0 (min 3 (String.length out))
