(* C01: every public operation on untrusted font data returns a value or an error.
   input = FIXTURE|MUTSEED|NMUT  or  X:<component>:<that harness' case line> ; the specified outcome is always "ok" (no crash, no hang). *)
open Verdict

let run (_input : string) : string = "ok"

(* class of a violation = where it happens, stable under unrelated edits:
   panic:<entry>:<file>:<fn>:<kind>  ->  <file>:<fn>:<kind>  ;  slow:<entry>:ms -> slow:<entry> ; abort:.. -> abort *)
let judge (_input : string) (impl : string) (_model : string) : verdict =
  if impl = "ok" then Agree
  else match String.split_on_char ':' impl with
    | "panic" :: _entry :: rest -> Violation (String.concat ":" rest, impl)
    | "slow" :: entry :: _ -> Violation ("slow:" ^ entry, impl)
    | "alloc" :: entry :: _ -> Violation ("alloc:" ^ entry, impl)
    | "abort" :: _ -> Violation ("abort", impl)
    | _ -> Violation ("other", impl)

let tag (input : string) (_out : string) : string =
  if String.length input > 6 && String.sub input 0 2 = "X:" then "component:" ^ String.sub input 2 3 else
  match String.split_on_char '|' input with
  | f :: seed :: _ -> (if seed = "0" then "pristine:" else "mutated:") ^ f
  | _ -> "?"
