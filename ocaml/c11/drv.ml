(* C11: run the extracted WOFF2 model on one case line and judge the implementation's result.
   input kinds (see harness/src/bin/c11.rs):
     p16|V|HEX   b128|V|HEX   glyf|HEX|ORIG   hmtx|NG|NHM|HMTX|GLYF|ORIG
     hmtxp|NG|NHM|HMTX|GLYF|LOCA|ORIG   font|IDX|PREFIX|BLOCK|ORIG
   impl result  = M#res  (M = d|r: the build's arithmetic mode)
   model result = res            when debug and release arithmetic give the same result
                | resD || resR   otherwise
   Since the repairs 33c9cfe / 86608df / 093eba0 / aa2eefe the model of the transformed glyf decoder
   has no build-dependent arithmetic left outside the translated dx/dy code and never panics
   (Props/C11.v: C11_glyf_decoder_total): the second form is not expected to occur any more, and a
   panic of the implementation is a violation that no known finding absorbs. *)
open Model
open Zconv
open Verdict

(* index of the first occurrence of sub in s *)
let find_sub (s : string) (sub : string) : int option =
  let n = String.length s and k = String.length sub in
  let rec go i = if i + k > n then None else if String.sub s i k = sub then Some i else go (i + 1) in
  go 0

let join sep f l = if l = [] then "-" else String.concat sep (List.map f l)
let zs = z_to_string

let dump_bbox (b : bbox) = String.concat "," [zs b.bb_xmin; zs b.bb_ymin; zs b.bb_xmax; zs b.bb_ymax]

let dump_glyph (g : glyph) : string =
  match g with
  | GEmpty -> "E"
  | GSimple s ->
    Printf.sprintf "S:%s:%s:%s:%s" (dump_bbox s.sg_bbox) (join "," zs s.sg_end_pts) (hex_of_bytes s.sg_instr)
      (join "," (fun p -> Printf.sprintf "%d/%s/%s" (if p.p_on then 1 else 0) (zs p.p_x) (zs p.p_y)) s.sg_points)
  | GComposite (bb, comps, instr) ->
    Printf.sprintf "C:%s:%s:%s" (dump_bbox bb)
      (join "," (fun c -> String.concat "/" (List.map zs ([c.c_flags; c.c_gid; c.c_arg1; c.c_arg2] @ c.c_scale))) comps)
      (hex_of_bytes instr)
  | GPresent (nc, raw) -> Printf.sprintf "P:%s:%s" (zs nc) (hex_of_bytes raw)

let dump_glyphs gs = join ";" dump_glyph gs

let dump_hm ((long, lsbs) : (z * z) list * z list) : string =
  Printf.sprintf "%s:%s" (join "," (fun (a, l) -> zs a ^ "/" ^ zs l) long) (join "," zs lsbs)

(* debug and release arithmetic differ only after an overflow, which is a Panic in debug: the
   release run is needed only then (kept for the day a mutation of the translated code brings an
   overflow back) *)
let both (f : mode -> string) : string =
  let d = f Debug in
  if d <> "panic" then d else d ^ " || " ^ f Release

let out f o = outcome_to_string f o

let run_mode (m : mode) (input : string) : string =
  match split_on '|' input with
  | ["p16"; _; h] ->
    let d = bytes_of_hex h in
    out (fun (v, rest) -> Printf.sprintf "%s,%d" (zs v) (List.length rest)) (read_packed_u16 d)
  | ["b128"; _; h] ->
    let d = bytes_of_hex h in
    out (fun (v, rest) -> Printf.sprintf "%s,%d" (zs v) (List.length rest)) (read_base128 d)
  | ["glyf"; h; _] -> out dump_glyphs (read_woff2_glyf m (bytes_of_hex h))
  | ["hmtx"; ng; nhm; hh; gh; _] ->
    (match read_woff2_glyf m (bytes_of_hex gh) with
     | Ok glyf -> out dump_hm (read_woff2_hmtx glyf (z_of_string ng) (z_of_string nhm) (bytes_of_hex hh))
     | o -> out (fun _ -> "") o)
  | ["hmtxp"; ng; nhm; hh; gh; lh; _] ->
    (match read_loca (bytes_of_hex lh) (z_of_string ng) true with
     | Ok offs ->
       (match read_plain_glyf (bytes_of_hex gh) offs with
        | Ok glyf -> out dump_hm (read_woff2_hmtx glyf (z_of_string ng) (z_of_string nhm) (bytes_of_hex hh))
        | o -> out (fun _ -> "") o)
     | o -> out (fun _ -> "") o)
  | ["font"; idx; ph; bh; _] ->
    let prefix = bytes_of_hex ph in
    (match read_font_prefix prefix with
     | Err Eof -> "outside-model"   (* the parser ran past the prefix into the compressed stream *)
     | Ok (_, rest) when rest <> [] && bh = "-" ->
       (* misaligned stream and an empty block: the junk may well decompress to nothing *)
       "outside-model"
     | _ ->
       out (fun (dir, tabs) ->
           let tabs = List.sort (fun (a, _) (b, _) -> compare (z_to_int a) (z_to_int b)) tabs in
           Printf.sprintf "%s#%s"
             (join "," (fun e -> Printf.sprintf "%s/%s/%s/%s" (zs e.e_tag) (zs e.e_offset) (zs e.e_orig_length)
                           (match e.e_transform_length with Some l -> zs l | None -> "-")) dir)
             (join "," (fun (t, d) -> zs t ^ "=" ^ hex_of_bytes d) tabs))
         (woff2_tables m prefix (bytes_of_hex bh) (z_of_string idx)))
  | _ -> failwith "c11 input"

let run (input : string) : string = both (fun m -> run_mode m input)

(* ok | err:E | panic, without the value *)
let short (r : string) : string = if starts_with "ok:" r then "ok" else r

let kind input = List.hd (split_on '|' input)
let orig input = List.nth (split_on '|' input) (List.length (split_on '|' input) - 1)

(* histogram class: kind + outcome + whether ground truth was available *)
let tag (input : string) (model : string) : string =
  let o = if String.length model >= 2 then String.sub model 0 2 else model in
  let o = if String.length model > 4 && String.sub model 0 4 = "err:" then model else o in
  let split = (match find_sub model " || " with Some _ -> "+dr" | None -> "") in
  Printf.sprintf "%s:%s%s%s" (kind input) o split (if kind input <> "p16" && kind input <> "b128" && orig input = "-" then ":damaged" else "")

let split_model (model : string) : string * string =
  match find_sub model " || " with
  | Some i -> (String.sub model 0 i, String.sub model (i + 4) (String.length model - i - 4))
  | None -> (model, model)

(* a#b#c -> [a;b;c] *)
let hash_parts s = split_on '#' s

let strip_ok s = if starts_with "ok:" s then Some (String.sub s 3 (String.length s - 3)) else None

(* does the case contain a transformed hmtx table whose flags byte has bit 1 (0x02) set? *)
let has_lsb_absent (input : string) : bool =
  let bit1 (h : string) = String.length h >= 2 && (int_of_string ("0x" ^ String.sub h 0 2)) land 2 <> 0 in
  match split_on '|' input with
  | ("hmtx" | "hmtxp") :: _ :: _ :: hh :: _ -> bit1 hh
  | ["font"; _; ph; bh; _] ->
    (match read_font_prefix (bytes_of_hex ph) with
     | Ok (((_, dir), _), _) ->
       List.exists (fun e ->
           z_to_int e.e_tag = 0x686D7478 && e.e_transform_length <> None &&
           (let off = z_to_int e.e_offset in
            String.length bh >= 2 * off + 2 && bit1 (String.sub bh (2 * off) 2))) dir
     | _ -> false)
  | _ -> false

(* The property, decided on the implementation's output.
   1. A panic is a violation outright (class "panic"); the reason records what the model says
      (an error or a value: the model itself predicts no panic on any input).
   2. When the case carries the encoder's input (ORIG), the decoded result must be that input:
      value for the integer encodings, glyph list / metrics for glyf and hmtx, and for a font every
      untransformed table byte-identical, hmtx equal to the original bytes, and the glyphs read
      back from the rebuilt glyf+loca equal to the original glyphs (class "roundtrip").
      An hmtx mismatch that is exactly the documented behaviour of the code for
      LEFT_SIDE_BEARING_ABSENT gets its own class "hmtx-lsb-absent" (known finding).
   3. Otherwise, and in addition, the result must equal the model's, which Props/C11.v proves to be
      the specified decoding: a different value is class "inexact"; a difference only in how
      damaged input is refused is a Mismatch (correspondence broken, property not shown violated). *)
let judge (input : string) (impl : string) (model : string) : verdict =
  let m, ires =
    if String.length impl > 2 && impl.[1] = '#' then (impl.[0], String.sub impl 2 (String.length impl - 2))
    else ('?', impl) in
  let md, mr = split_model model in
  let mres = if m = 'r' then mr else md in
  let k = kind input in
  let o = orig input in
  let parts = split_on '|' input in
  (* err:NotImplemented marks the one branch the model does not follow (GlyfTable::read_dep's
     workaround for a loca entry beyond the end of a plain glyf table) *)
  if mres = "outside-model" || mres = "err:NotImplemented" then Agree
  else if ires = "panic" then
    Violation ("panic",
               Printf.sprintf "%s: implementation panicked (%s build); model: debug=%s release=%s" k
                 (if m = 'd' then "debug" else "release")
                 (short md) (short mr))
  else begin
    (* the font result carries a third part (glyphs read back) that the model does not compute *)
    let icmp =
      if k = "font" then
        (match strip_ok ires with
         | Some r -> (match hash_parts r with [d; t; _] -> "ok:" ^ d ^ "#" ^ t | _ -> ires)
         | None -> ires)
      else ires in
    (* known finding C11-hmtx-lsb-absent: the case carries a transformed hmtx whose flags byte has
       LEFT_SIDE_BEARING_ABSENT set, and the implementation does exactly what the model (which
       describes the code as it stands, see C11_hmtx_lsb_absent_actual) says *)
    let lsb_absent () =
      icmp = mres && (try has_lsb_absent input with _ -> false) in
    let lsb_absent_v what =
      Violation ("hmtx-lsb-absent",
                 Printf.sprintf "%s: LEFT_SIDE_BEARING_ABSENT: the rebuilt hmtx holds the xMin of all glyphs from glyph 0 (numGlyphs trailing entries) instead of the original left side bearings" what) in
    (* ground truth *)
    let truth : verdict option =
      match k with
      | "p16" | "b128" ->
        let v = List.nth parts 1 in
        if v = "-" then None
        else (match strip_ok ires with
            | Some r when List.hd (split_on ',' r) = v -> None
            | _ -> Some (Violation ("roundtrip", Printf.sprintf "%s: encoded %s, decoded %s" k v ires)))
      | "glyf" | "hmtx" | "hmtxp" ->
        if o = "-" then None
        else if ires = "ok:" ^ o then None
        else if k <> "glyf" && lsb_absent () then Some (lsb_absent_v k)
        else Some (Violation ("roundtrip", Printf.sprintf "%s: decoded value differs from the encoder's input" k))
      | "font" ->
        if o = "-" then None
        else (match strip_ok ires, hash_parts o with
            | Some r, [og; otabs] ->
              (match hash_parts r with
               | [_; itabs; ig] ->
                 let itab = List.map (fun s -> match split_on '=' s with [t; d] -> (t, d) | _ -> (s, "")) (if itabs = "-" then [] else split_on ',' itabs) in
                 let otab = List.map (fun s -> match split_on '=' s with [t; d] -> (t, d) | _ -> (s, "")) (if otabs = "-" then [] else split_on ',' otabs) in
                 let bad = List.filter (fun (t, d) -> match List.assoc_opt t itab with
                     | None -> true
                     | Some d' -> d <> "*" && d <> d') otab in
                 let extra = List.filter (fun (t, _) -> not (List.mem_assoc t otab)) itab in
                 if List.map fst bad = ["1752003704"] && extra = [] && ig = og && lsb_absent () then
                   Some (lsb_absent_v "font")
                 else if bad <> [] then
                   Some (Violation ("roundtrip", Printf.sprintf "font: table %s is not byte-identical to the original" (fst (List.hd bad))))
                 else if extra <> [] then
                   Some (Violation ("roundtrip", Printf.sprintf "font: table %s was not in the original font" (fst (List.hd extra))))
                 else if ig <> og then
                   Some (Violation ("roundtrip", "font: glyphs read back from the rebuilt glyf/loca differ from the original glyphs"))
                 else None
               | _ -> Some (Mismatch "font: malformed implementation result"))
            | _ -> Some (Violation ("roundtrip", Printf.sprintf "font: a conforming file was refused: %s" ires)))
      | _ -> None in
    match truth with
    | Some v -> v
    | None ->
      if icmp = mres then Agree
      else if mres = "panic" || mres = "oob" then Mismatch (Printf.sprintf "%s: model %s, implementation %s" k mres (String.sub ires 0 (min 60 (String.length ires))))
      else if starts_with "ok:" icmp && starts_with "ok:" mres then
        Violation ("inexact", Printf.sprintf "%s: decoded value differs from the specified one" k)
      else if starts_with "ok:" icmp || starts_with "ok:" mres then
        Violation ("inexact", Printf.sprintf "%s: implementation %s, specified %s" k
                     (String.sub icmp 0 (min 40 (String.length icmp))) (String.sub mres 0 (min 40 (String.length mres))))
      else Mismatch (Printf.sprintf "%s: both refuse, differently: implementation %s, model %s" k icmp mres)
  end
