(* C07: subsetting preserves outlines and metrics.  Line formats: see harness/src/bin/c07.rs.
   run   = the extracted Coq model on the input (g: glyf_subset; h: create_hmtx; t: both; f, c: "-", the judge
           runs the model on the source view reported by the harness)
   judge = the property on the implementation's output, independent of the model where it can be:
           new glyph n (n < number requested) has the advance, lsb and outline of source glyph ids[n]; the
           remaining new glyphs those of the components pulled in (old ids from the model's closure). *)
open Model
open Zconv
open Verdict

let ints s = if s = "-" || s = "" then [] else List.map int_of_string (split_on ',' s)
let zints s = List.map z_of_int (ints s)
let join l = if l = [] then "-" else String.concat "," l

let parse_glyph ~bmode (d : string) : glyph =
  if d = "e" then GEmpty
  else if d = "x" then (if bmode then GBadComposite Eof else GEmpty)
  else if d.[0] = 's' then GSimple (z_of_int (int_of_string (String.sub d 1 (String.length d - 1))))
  else begin
    let body = String.sub d 1 (String.length d - 1) in
    let cs, r = match split_on ';' body with [c; r] -> (c, r) | [c] -> (c, "0") | _ -> failwith "glyph" in
    let comps = List.filter_map (fun c -> if c = "" then None else
      match split_on ':' c with
      | [g; dd] -> Some (z_of_int (int_of_string g), z_of_int (int_of_string dd))
      | [g] -> Some (z_of_int (int_of_string g), Z0)
      | _ -> failwith "component") (split_on ',' cs) in
    if comps = [] && bmode then GBadComposite Eof else GComposite (comps, z_of_int (int_of_string r))
  end

let parse_table ~bmode s =
  List.filter_map (fun d -> if d = "" || d = "-" then None else Some (parse_glyph ~bmode d)) (split_on ' ' s)

let show_glyph = function
  | GEmpty -> "e"
  | GSimple p -> "s" ^ z_to_string p
  | GComposite (cs, r) ->
    "c" ^ String.concat "," (List.map (fun (g, d) -> z_to_string g ^ ":" ^ z_to_string d) cs) ^ ";" ^ z_to_string r
  | GBadComposite _ -> "x"
let show_table t = if t = [] then "-" else String.concat " " (List.map show_glyph t)

let parse_hm s = if s = "-" || s = "" then [] else
  List.map (fun e -> match split_on ':' e with
    | [a; l] -> (int_of_string a, int_of_string l) | _ -> failwith "hm") (split_on ',' s)

let mode_of s = if s = "r" then Release else Debug

let show_hm l = join (List.map (fun (a, b) -> z_to_string a ^ ":" ^ z_to_string b) l)

(* ---- g *)
let run_g parts =
  match parts with
  | _ :: m :: tbl :: ids :: probes :: _ ->
    let t = parse_table ~bmode:(m = "B") tbl in
    (match glyf_subset t (zints ids) with
     | Ok recs ->
       let olds = List.map (fun (o, _) -> z_to_string o) recs in
       let news = List.map (fun p -> z_to_string (sg_new_id recs p)) (zints probes) in
       Printf.sprintf "ok:%s|%s|%s|%s" (join olds) (show_table (sg_table recs)) (join news)
         (if recs = [] then "-" else String.make (List.length recs) '1')
     | Err e -> "err:" ^ err_to_string e
     | Panic -> "panic" | OOB -> "oob")
  | _ -> "badinput"

(* ---- h *)
let run_h parts =
  match parts with
  | _ :: nhm :: hm :: lsbs :: olds :: rest ->
    let m = mode_of (match rest with x :: _ -> x | [] -> "d") in
    let hm = List.map (fun (a, l) -> (z_of_int a, z_of_int l)) (parse_hm hm) in
    (match create_hmtx m hm (zints lsbs) (z_of_int (int_of_string nhm)) (zints olds) with
     | Ok l -> Printf.sprintf "ok:%s|0" (show_hm l)
     | Err e -> "err:" ^ err_to_string e
     | Panic -> "panic" | OOB -> "oob")
  | _ -> "badinput"

(* ---- t: the arrays HmtxTable::read_dep sees are cut from the bytes of the description *)
let hmtx_view ng nhm hm lsbs =
  let u16 x = x land 0xffff and i16 x = let x = x land 0xffff in if x >= 32768 then x - 65536 else x in
  let words = List.concat_map (fun (a, l) -> [u16 a; u16 l]) hm @ List.map u16 lsbs in
  let nl = max 0 (ng - nhm) in
  if List.length words < 2 * nhm + nl then None
  else begin
    let arr = Array.of_list words in
    let hm' = List.init nhm (fun i -> (z_of_int arr.(2 * i), z_of_int (i16 arr.(2 * i + 1)))) in
    let ls' = List.init nl (fun i -> z_of_int (i16 arr.(2 * nhm + i))) in
    Some (hm', ls')
  end

let run_t parts =
  match parts with
  | _ :: tbl :: nhm :: hm :: lsbs :: ids :: rest ->
    let m = mode_of (match rest with x :: _ -> x | [] -> "d") in
    let t = parse_table ~bmode:true tbl in
    let nhm = int_of_string nhm in
    (match hmtx_view (List.length t) nhm (parse_hm hm) (ints lsbs) with
     | None -> "err:Eof"
     | Some (hm', ls') ->
       (match glyf_subset t (zints ids) with
        | Err e -> "err:" ^ err_to_string e
        | Panic -> "panic" | OOB -> "oob"
        | Ok recs ->
          if List.length recs > 65535 then "err:BadValue" else
          let olds = List.map fst recs in
          (match create_hmtx m hm' ls' (z_of_int nhm) olds with
           | Err e -> "err:" ^ err_to_string e
           | Panic -> "panic" | OOB -> "oob"
           | Ok ms -> Printf.sprintf "ok|%s|%s" (join (List.map z_to_string olds)) (show_hm ms))))
  | _ -> "badinput"

let run (input : string) : string =
  let parts = split_on '|' input in
  match parts with
  | "g" :: _ -> run_g parts
  | "h" :: _ -> run_h parts
  | "t" :: _ -> run_t parts
  | _ -> "-"

(* ---- judging whole-font reports *)
let valid_ids ids =
  (match ids with 0 :: _ -> true | _ -> false)
  && List.length (List.sort_uniq compare ids) = List.length ids

(* SRC = old:adv:lsb:hash:desc,...   ->   assoc list and the model table *)
let parse_src s =
  if s = "-" then [] else
  List.map (fun e -> match split_on ':' e with
    | [o; a; l; h; d] -> (int_of_string o, (a ^ ":" ^ l, h, d))
    | _ -> failwith "src entry") (split_on ',' s)

let table_of_src src =
  let n = List.fold_left (fun acc (o, _) -> max acc (o + 1)) 0 src in
  let arr = Array.make n GEmpty in
  List.iter (fun (o, (_, _, d)) ->
    arr.(o) <-
      (if d = "e" then GEmpty
       else if d = "x" then GBadComposite Eof
       else if d = "s" then GSimple (z_of_int o)
       else
         let body = String.sub d 1 (String.length d - 1) in
         GComposite (List.filter_map (fun g -> if g = "" then None else Some (z_of_int (int_of_string g), Z0))
                       (split_on '.' body), Z0))) src;
  Array.to_list arr

let parse_out s =
  if s = "-" then [] else
  List.map (fun e -> match split_on ':' e with
    | [a; l; h] -> (a ^ ":" ^ l, h) | _ -> failwith "out entry") (split_on ',' s)

(* the property on a report; [expect] = Some (olds, metrics) predicted by the model from the input (kind t) *)
let judge_report ids impl expect : verdict =
  match split_on '|' impl with
  | "ok" :: outs :: srcs :: rest ->
    let kind = (match rest with k :: _ -> k | [] -> "g") in
    let out = parse_out outs and src = parse_src srcs in
    let valid = valid_ids ids in
    let bad cls why = if valid then Violation (cls, why) else Mismatch ("(request outside the property's domain) " ^ why) in
    (match glyf_subset (table_of_src src) (List.map z_of_int ids) with
     | Ok recs ->
       let f = List.map (fun (o, _) -> z_to_int o) recs in
       let nreq = List.length ids in
       if List.length out < nreq then bad "count" "the output has fewer glyphs than were requested"
       else if List.length out <> List.length f then
         bad "closure" (Printf.sprintf "the output has %d glyphs, requested + components are %d" (List.length out) (List.length f))
       else begin
         let res = ref Agree in
         List.iteri (fun n (om, oh) ->
           if !res = Agree then begin
             let old = List.nth f n in
             match List.assoc_opt old src with
             | None -> res := Mismatch "source view lacks a glyph of the closure"
             | Some (sm, sh, _) ->
               let cls = if n < nreq then "requested" else "component" in
               if om <> sm then
                 res := bad ("metrics-" ^ cls) (Printf.sprintf "new glyph %d has advance:lsb %s, source glyph %d has %s" n om old sm)
               else if oh <> sh && not (kind <> "g" && String.length sh > 0 && sh.[0] = 'E') then
                 res := bad ("outline-" ^ cls) (Printf.sprintf "new glyph %d does not have the outline of source glyph %d" n old)
           end) out;
         (match !res, expect with
          | Agree, Some (eolds, ems) ->
            if eolds <> join (List.map string_of_int f) then Mismatch "closure order differs from the model's"
            else if ems <> join (List.map fst out) then Mismatch "metrics differ from the model's"
            else Agree
          | r, _ -> r)
       end
     | _ -> Mismatch "the model rejects a request the implementation accepted")
  | _ -> Mismatch "unreadable report"

let judge (input : string) (impl : string) (model : string) : verdict =
  let parts = split_on '|' input in
  if starts_with "panic" impl || starts_with "oob" impl then
    Violation ("panic", "subsetting panicked (" ^ (match parts with k :: _ -> k | [] -> "?") ^ ")")
  else if starts_with "bad-output" impl then Violation ("bad-output", "the subset font cannot be read back: " ^ impl)
  else match parts with
  | "g" :: m :: tbl :: idss :: _ ->
    if impl = model then Agree
    else if starts_with "ok:" impl then begin
      (* property on the implementation's own answer *)
      let ids = ints idss in
      match split_on '|' (String.sub impl 3 (String.length impl - 3)) with
      | [olds; recs; _; bits] ->
        let olds = ints olds in
        let t = Array.of_list (parse_table ~bmode:(m = "B") tbl) in
        let sub = parse_table ~bmode:(m = "B") recs in
        let valid = valid_ids ids in
        let bad cls why = if valid then Violation (cls, why) else Mismatch why in
        let rec prefix a b = match a, b with [], _ -> true | x :: a', y :: b' -> x = y && prefix a' b' | _ -> false in
        if not (prefix ids olds) then bad "order" "the requested glyphs are not first, in the requested order"
        else if List.length (List.sort_uniq compare olds) <> List.length olds then bad "duplicate" "a glyph appears twice"
        else if String.contains bits '0' then bad "outline" "a subset glyph's outline differs from its source glyph's"
        else if List.length sub <> List.length olds then bad "records" "record count differs from id count"
        else begin
          let oa = Array.of_list olds in
          let ok = List.for_all2 (fun old r ->
            old < Array.length t &&
            (match t.(old), r with
             | GComposite (cs, rest), GComposite (cs', rest') ->
               rest = rest' && List.length cs = List.length cs' &&
               List.for_all2 (fun (g, d) (n, d') -> d = d' &&
                 (let n = z_to_int n in n < Array.length oa && oa.(n) = z_to_int g)) cs cs'
             | a, b -> a = b)) olds sub in
          if ok then Mismatch "differs from the model, property holds" else bad "renumber" "a component does not point at its source component"
        end
      | _ -> Mismatch "unreadable result"
    end
    else Mismatch "result kinds differ"
  | "h" :: _ ->
    if impl = model then Agree
    else if starts_with "ok:" impl && starts_with "ok:" model then Violation ("metrics", "create_hmtx_table: wrong advance or lsb")
    else Mismatch "result kinds differ"
  | "t" :: _ :: _ :: _ :: _ :: idss :: _ ->
    let ids = ints idss in
    if starts_with "ok|" impl then begin
      let expect = (match split_on '|' model with ["ok"; o; m] -> Some (o, m) | _ -> None) in
      match judge_report ids impl expect with
      | Agree when expect = None -> Mismatch "the model predicts a failure"
      | v -> v
    end
    else if impl = model then Agree
    else Mismatch "result kinds differ"
  | "f" :: _ :: idss :: _ ->
    let ids = ints idss in
    if starts_with "ok|" impl then judge_report ids impl None
    else if starts_with "err:" impl then begin
      match split_on '|' impl with
      | [_; ng] when valid_ids ids && List.for_all (fun g -> g < int_of_string ng) ids ->
        Mismatch "subsetting failed on a request inside the property's domain"
      | _ -> Agree
    end
    else Mismatch "unreadable result"
  | _ -> Mismatch "unknown case kind"

let tag (input : string) (out : string) : string =
  let kind = String.sub input 0 1 in
  let extra =
    if kind = "f" then (match split_on '|' input with _ :: f :: _ -> "-" ^ Filename.basename f | _ -> "")
    else "-" ^ String.sub out 0 (min 2 (String.length out)) in
  kind ^ extra
