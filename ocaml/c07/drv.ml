(* C07: subsetting preserves outlines and metrics.  Line formats: see harness/src/bin/c07.rs.
   run   = the extracted Coq model on the input (g: glyf_subset; h: create_hmtx; t: both; f, c: "-", the judge
           runs the model on the source view reported by the harness)
   judge = the property on the implementation's output, independent of the model where it can be:
           new glyph n (n < number requested) has the advance, lsb and outline of source glyph ids[n]; the
           remaining new glyphs those of the components pulled in (old ids from the model's closure). *)
open Model
open Zconv
open Verdict

let ints s = if s = "-" || s = "" then [] else List.map int_of_string (split_on ',' s)
let zints s = List.map z_of_int (ints s)
let join l = if l = [] then "-" else String.concat "," l

let parse_glyph ~bmode (d : string) : glyph =
  if d = "e" then GEmpty
  else if d = "x" then (if bmode then GBadComposite Eof else GEmpty)
  else if d.[0] = 's' then GSimple (z_of_int (int_of_string (String.sub d 1 (String.length d - 1))))
  else begin
    let body = String.sub d 1 (String.length d - 1) in
    let cs, r = match split_on ';' body with [c; r] -> (c, r) | [c] -> (c, "0") | _ -> failwith "glyph" in
    let comps = List.filter_map (fun c -> if c = "" then None else
      match split_on ':' c with
      | [g; dd] -> Some (z_of_int (int_of_string g), z_of_int (int_of_string dd))
      | [g] -> Some (z_of_int (int_of_string g), Z0)
      | _ -> failwith "component") (split_on ',' cs) in
    if comps = [] && bmode then GBadComposite Eof else GComposite (comps, z_of_int (int_of_string r))
  end

let parse_table ~bmode s =
  List.filter_map (fun d -> if d = "" || d = "-" then None else Some (parse_glyph ~bmode d)) (split_on ' ' s)

let show_glyph = function
  | GEmpty -> "e"
  | GSimple p -> "s" ^ z_to_string p
  | GComposite (cs, r) ->
    "c" ^ String.concat "," (List.map (fun (g, d) -> z_to_string g ^ ":" ^ z_to_string d) cs) ^ ";" ^ z_to_string r
  | GBadComposite _ -> "x"
let show_table t = if t = [] then "-" else String.concat " " (List.map show_glyph t)

let parse_hm s = if s = "-" || s = "" then [] else
  List.map (fun e -> match split_on ':' e with
    | [a; l] -> (int_of_string a, int_of_string l) | _ -> failwith "hm") (split_on ',' s)

let mode_of s = if s = "r" then Release else Debug

let show_hm l = join (List.map (fun (a, b) -> z_to_string a ^ ":" ^ z_to_string b) l)

(* ---- g *)
let run_g parts =
  match parts with
  | _ :: m :: tbl :: ids :: probes :: _ ->
    let t = parse_table ~bmode:(m = "B") tbl in
    (match glyf_subset t (zints ids) with
     | Ok recs ->
       let olds = List.map (fun (o, _) -> z_to_string o) recs in
       let news = List.map (fun p -> z_to_string (sg_new_id recs p)) (zints probes) in
       Printf.sprintf "ok:%s|%s|%s|%s" (join olds) (show_table (sg_table recs)) (join news)
         (if recs = [] then "-" else String.make (List.length recs) '1')
     | Err e -> "err:" ^ err_to_string e
     | Panic -> "panic" | OOB -> "oob")
  | _ -> "badinput"

(* ---- h *)
let run_h parts =
  match parts with
  | _ :: nhm :: hm :: lsbs :: olds :: rest ->
    let m = mode_of (match rest with x :: _ -> x | [] -> "d") in
    let hm = List.map (fun (a, l) -> (z_of_int a, z_of_int l)) (parse_hm hm) in
    (match create_hmtx m hm (zints lsbs) (z_of_int (int_of_string nhm)) (zints olds) with
     | Ok l -> Printf.sprintf "ok:%s|0" (show_hm l)
     | Err e -> "err:" ^ err_to_string e
     | Panic -> "panic" | OOB -> "oob")
  | _ -> "badinput"

(* ---- t: the arrays HmtxTable::read_dep sees are cut from the bytes of the description *)
let hmtx_view ng nhm hm lsbs =
  let u16 x = x land 0xffff and i16 x = let x = x land 0xffff in if x >= 32768 then x - 65536 else x in
  let words = List.concat_map (fun (a, l) -> [u16 a; u16 l]) hm @ List.map u16 lsbs in
  let nl = max 0 (ng - nhm) in
  if List.length words < 2 * nhm + nl then None
  else begin
    let arr = Array.of_list words in
    let hm' = List.init nhm (fun i -> (z_of_int arr.(2 * i), z_of_int (i16 arr.(2 * i + 1)))) in
    let ls' = List.init nl (fun i -> z_of_int (i16 arr.(2 * nhm + i))) in
    Some (hm', ls')
  end

let run_t parts =
  match parts with
  | _ :: tbl :: nhm :: hm :: lsbs :: ids :: rest ->
    let m = mode_of (match rest with x :: _ -> x | [] -> "d") in
    let t = parse_table ~bmode:true tbl in
    let nhm = int_of_string nhm in
    (match hmtx_view (List.length t) nhm (parse_hm hm) (ints lsbs) with
     | None -> "err:Eof"
     | Some (hm', ls') ->
       (match glyf_subset t (zints ids) with
        | Err e -> "err:" ^ err_to_string e
        | Panic -> "panic" | OOB -> "oob"
        | Ok recs ->
          if List.length recs > 65535 then "err:BadValue" else
          let olds = List.map fst recs in
          (match create_hmtx m hm' ls' (z_of_int nhm) olds with
           | Err e -> "err:" ^ err_to_string e
           | Panic -> "panic" | OOB -> "oob"
           | Ok ms -> Printf.sprintf "ok|%s|%s" (join (List.map z_to_string olds)) (show_hm ms))))
  | _ -> "badinput"

let run (input : string) : string =
  let parts = split_on '|' input in
  match parts with
  | "g" :: _ -> run_g parts
  | "h" :: _ -> run_h parts
  | "t" :: _ -> run_t parts
  | _ -> "-"

(* ---- judging whole-font reports *)
let valid_ids ids =
  (match ids with 0 :: _ -> true | _ -> false)
  && List.length (List.sort_uniq compare ids) = List.length ids

(* SRC = old:adv:lsb:hash:desc,...   ->   assoc list and the model table *)
let parse_src s =
  if s = "-" then [] else
  List.map (fun e -> match split_on ':' e with
    | [o; a; l; h; d] -> (int_of_string o, (a ^ ":" ^ l, h, d))
    | _ -> failwith "src entry") (split_on ',' s)

let table_of_src src =
  let n = List.fold_left (fun acc (o, _) -> max acc (o + 1)) 0 src in
  let arr = Array.make n GEmpty in
  List.iter (fun (o, (_, _, d)) ->
    arr.(o) <-
      (if d = "e" then GEmpty
       else if d = "x" then GBadComposite Eof
       else if d = "s" then GSimple (z_of_int o)
       else
         let body = String.sub d 1 (String.length d - 1) in
         GComposite (List.filter_map (fun g -> if g = "" then None else Some (z_of_int (int_of_string g), Z0))
                       (split_on '.' body), Z0))) src;
  Array.to_list arr

let parse_out s =
  if s = "-" then [] else
  List.map (fun e -> match split_on ':' e with
    | [a; l; h] -> (a ^ ":" ^ l, h) | _ -> failwith "out entry") (split_on ',' s)

(* the property on a report; [expect] = Some (olds, metrics) predicted by the model from the input (kind t) *)
let judge_report ids impl expect : verdict =
  match split_on '|' impl with
  | "ok" :: outs :: srcs :: rest ->
    let kind = (match rest with k :: _ -> k | [] -> "g") in
    let out = parse_out outs and src = parse_src srcs in
    let valid = valid_ids ids in
    let bad cls why = if valid then Violation (cls, why) else Mismatch ("(request outside the property's domain) " ^ why) in
    (match glyf_subset (table_of_src src) (List.map z_of_int ids) with
     | Ok recs ->
       let f = List.map (fun (o, _) -> z_to_int o) recs in
       let nreq = List.length ids in
       if List.length out < nreq then bad "count" "the output has fewer glyphs than were requested"
       else if List.length out <> List.length f then
         bad "closure" (Printf.sprintf "the output has %d glyphs, requested + components are %d" (List.length out) (List.length f))
       else begin
         let res = ref Agree in
         List.iteri (fun n (om, oh) ->
           if !res = Agree then begin
             let old = List.nth f n in
             match List.assoc_opt old src with
             | None -> res := Mismatch "source view lacks a glyph of the closure"
             | Some (sm, sh, _) ->
               let cls = if n < nreq then "requested" else "component" in
               if om <> sm then
                 res := bad ("metrics-" ^ cls) (Printf.sprintf "new glyph %d has advance:lsb %s, source glyph %d has %s" n om old sm)
               else if oh <> sh && not (kind <> "g" && String.length sh > 0 && sh.[0] = 'E') then
                 res := bad ("outline-" ^ cls) (Printf.sprintf "new glyph %d does not have the outline of source glyph %d" n old)
           end) out;
         (match !res, expect with
          | Agree, Some (eolds, ems) ->
            if eolds <> join (List.map string_of_int f) then Mismatch "closure order differs from the model's"
            else if ems <> join (List.map fst out) then Mismatch "metrics differ from the model's"
            else Agree
          | r, _ -> r)
       end
     | _ -> Mismatch "the model rejects a request the implementation accepted")
  | _ -> Mismatch "unreadable report"


(* ---- c: CFF::subset against the abstract model (see run_c in the harness for the format) *)
type ixview = { ilen : int; ients : (int * int) list }   (* listed entries: index, hash (0 = empty) *)

let parse_ix s =
  match split_on ';' s with
  | [l; e] ->
    { ilen = int_of_string l;
      ients = if e = "" then [] else List.map (fun x -> match split_on '=' x with
        | [i; h] -> (int_of_string i, int_of_string h) | _ -> failwith "ix entry") (split_on '.' e) }
  | _ -> failwith "ix"

let parse_locals s : (int * ixview option) list =
  if s = "-" then [] else
  List.map (fun x ->
    let k = String.index x ':' in
    let fd = int_of_string (String.sub x 0 k) and body = String.sub x (k + 1) (String.length x - k - 1) in
    (fd, if body = "none" then None else Some (parse_ix body))) (split_on '/' s)

let bytes_of_hash h : z list = if h = 0 then [] else [z_of_int h]
let unknown : z list = [z_of_int (-1)]

let index_of_view v : z list list =
  List.init v.ilen (fun i -> match List.assoc_opt i v.ients with Some h -> bytes_of_hash h | None -> unknown)

let dots s = if s = "-" || s = "" then [] else List.map int_of_string (split_on '.' s)

type gview = { g : int; cs : int; ug : int list; ul : int list; uerr : bool; gfd : int; sid : int }

let parse_gviews s =
  if s = "-" then [] else
  List.map (fun x -> match split_on ':' x with
    | [g; cs; ug; ul; fd; sid] ->
      { g = int_of_string g; cs = int_of_string cs; uerr = (ug = "x");
        ug = (if ug = "x" then [] else dots ug); ul = dots ul; gfd = int_of_string fd; sid = int_of_string sid }
    | _ -> failwith "gview") (split_on ',' s)

(* a list whose entry g is (f v) for the requested glyphs that have one, a placeholder elsewhere, cut after the
   largest defined entry (so undefined requested glyphs fall outside) *)
let sparse gv (def : gview -> 'a option) (ph : 'a) : 'a list =
  let n = List.fold_left (fun acc v -> match def v with Some _ -> max acc (v.g + 1) | None -> acc) 0 gv in
  List.init n (fun i -> match List.find_opt (fun v -> v.g = i && def v <> None) gv with
    | Some v -> (match def v with Some x -> x | None -> ph) | None -> ph)

let model_of_src src =
  match split_on '!' src with
  | [hd; gvs; gix; locs] ->
    let kind, np = (match split_on ';' hd with [k; n] -> (k, int_of_string n) | _ -> failwith "hd") in
    let gv = parse_gviews gvs in
    let css = sparse gv (fun v -> if v.cs < 0 then None else Some (bytes_of_hash v.cs)) unknown in
    let cset = sparse gv (fun v -> if v.sid < 0 then None else Some (z_of_int v.sid)) (z_of_int (-7)) in
    let gsub = index_of_view (parse_ix gix) in
    let locals = parse_locals locs in
    let var =
      if kind = "T" then VType1 (match locals with [(_, Some v)] -> Some (index_of_view v) | _ -> None)
      else VCID (sparse gv (fun v -> if v.gfd < 0 then None else Some (z_of_int v.gfd)) (z_of_int (-7)),
                 z_of_int np,
                 List.map (fun (_, v) -> match v with Some v -> Some (index_of_view v) | None -> None) locals) in
    let used (g : z) = (match List.find_opt (fun v -> v.g = z_to_int g) gv with
      | Some v when v.uerr -> Err OtherErr
      | Some v -> Ok (List.map z_of_int v.ug, List.map z_of_int v.ul)
      | None -> Ok ([], [])) in
    ({ char_strings = css; global_subrs = gsub; charset = cset; var = var }, used, gv)
  | _ -> failwith "src view"

let show_ix (ix : z list list) =
  let ents = List.concat (List.mapi (fun i b -> match b with
    | [] -> [] | h :: _ -> [Printf.sprintf "%d=%s" i (z_to_string h)]) ix) in
  Printf.sprintf "%d;%s" (List.length ix) (String.concat "." ents)

let show_local fd = function
  | None -> Printf.sprintf "%d:none" fd
  | Some ix -> Printf.sprintf "%d:%s" fd (show_ix ix)

let nth_or l n d = match List.nth_opt l n with Some x -> x | None -> d

let show_out (c : cff) =
  let n = List.length c.char_strings in
  let cs = List.map (fun b -> match b with [] -> "0" | h :: _ -> z_to_string h) c.char_strings in
  let kind, fds, locs = (match c.var with
    | VType1 l -> ("T", List.init n (fun _ -> "0"), show_local 0 l)
    | VCID (fds, _, locals) ->
      ("C", List.init n (fun i -> z_to_string (nth_or fds i (z_of_int (-1)))),
       if locals = [] then "-" else String.concat "/" (List.mapi show_local locals))) in
  let sids = List.init n (fun i -> z_to_string (nth_or c.charset i (z_of_int (-1)))) in
  String.concat "!" [kind; join cs; join fds; join sids; show_ix c.global_subrs; locs]

let judge_c ids convert impl : verdict =
  match split_on '|' impl with
  | ["ok"; olds; src; out] ->
    let (c, used, gv) = model_of_src src in
    (match cff_subset c used (List.map z_of_int ids) convert with
     | Ok (c', n2o) ->
       let mout = show_out c' and molds = join (List.map z_to_string n2o) in
       if mout = out && molds = olds then Agree
       else begin
         (* the property on the implementation's own output *)
         match split_on '!' out with
         | [_; cs; fds; _; gix; locs] ->
           let cs = Array.of_list (ints cs) and fds = Array.of_list (ints fds) in
           let og = parse_ix gix and ol = parse_locals locs in
           let sg = (match split_on '!' src with [_; _; g; _] -> parse_ix g | _ -> failwith "src") in
           let sl = (match split_on '!' src with [_; _; _; l] -> parse_locals l | _ -> failwith "src") in
           let kept (s : ixview) (o : ixview) i =
             s.ilen = o.ilen && (match List.assoc_opt i s.ients with
               | Some h -> h = 0 || List.assoc_opt i o.ients = Some h | None -> true) in
           let valid = valid_ids ids in
           let bad cls why = if valid then Violation (cls, why) else Mismatch why in
           if ints olds <> ids then bad "cff-order" "old ids are not the requested ids"
           else if Array.length cs <> List.length ids then bad "cff-count" "CharStrings count"
           else begin
             let res = ref (Mismatch "differs from the model, property holds") in
             List.iteri (fun n v ->
               if cs.(n) <> v.cs then res := bad "cff-charstring" (Printf.sprintf "CharString of new glyph %d" n)
               else if List.exists (fun i -> not (kept sg og i)) v.ug then
                 res := bad "cff-subr" (Printf.sprintf "a global subr called by new glyph %d changed" n)
               else if v.ul <> [] then begin
                 let ofd = fds.(n) in
                 match List.assoc_opt (max v.gfd 0) sl, List.assoc_opt ofd ol with
                 | Some (Some s), Some (Some o) ->
                   if List.exists (fun i -> not (kept s o i)) v.ul then
                     res := bad "cff-subr" (Printf.sprintf "a local subr called by new glyph %d changed" n)
                 | _ -> res := bad "cff-subr" (Printf.sprintf "local subrs of new glyph %d are gone" n)
               end) gv;
             !res
           end
         | _ -> Mismatch "unreadable output view"
       end
     | Err _ -> Mismatch "the model rejects a request the implementation accepted"
     | _ -> Mismatch "the model panics")
  | [e; src] when starts_with "err:" e ->
    let (c, used, _) = model_of_src src in
    (match cff_subset c used (List.map z_of_int ids) convert with
     | Err me ->
       let ms = "err:" ^ err_to_string me in
       if ms = e || (me = OtherErr && starts_with "err:CFF" e) then Agree else Mismatch ("model: " ^ ms)
     | Ok _ -> if valid_ids ids then Mismatch "the implementation rejects a request the model accepts" else Mismatch "error only in the implementation"
     | _ -> Mismatch "the model panics")
  | _ -> Mismatch "unreadable result"

let judge (input : string) (impl : string) (model : string) : verdict =
  let parts = split_on '|' input in
  if starts_with "panic" impl || starts_with "oob" impl then
    Violation ("panic", "subsetting panicked (" ^ (match parts with k :: _ -> k | [] -> "?") ^ ")")
  else if starts_with "bad-output" impl then begin
    let ids = (match parts with
      | "t" :: _ :: _ :: _ :: _ :: i :: _ -> ints i
      | "f" :: _ :: i :: _ | "c" :: _ :: i :: _ -> ints i
      | "s" :: _ :: _ :: _ :: _ :: _ :: i :: _ -> ints i
      | _ -> [0]) in
    if valid_ids ids then Violation ("bad-output", "the subset font cannot be read back: " ^ impl)
    else if (match parts with "s" :: _ -> true | _ -> false) then Agree   (* duplicates / no .notdef: outside the domain *)
    else Mismatch ("unreadable subset for a request outside the property's domain: " ^ impl)
  end
  else match parts with
  | "q" :: _ ->
    (* CFF2 -> CFF conversion: the outline of the retained glyph must survive (model-independent) *)
    (match split_on '|' impl with
     | [src; sub] when starts_with "src:" src && starts_with "sub:" sub ->
       let a = String.sub src 4 (String.length src - 4) and b = String.sub sub 4 (String.length sub - 4) in
       if String.length a > 0 && a.[0] = 'E' then Agree           (* the source charstring itself is not drawable *)
       else if a = b then Agree
       else Violation ("cff2-outline", "subsetting a CFF2 font to CFF changed the outline of a retained glyph: source " ^ a ^ ", subset " ^ b)
     | _ -> if impl = "nofixture" then Agree else Mismatch ("unreadable q report: " ^ impl))
  | "g" :: m :: tbl :: idss :: _ ->
    if impl = model then Agree
    else if starts_with "ok:" impl then begin
      (* property on the implementation's own answer *)
      let ids = ints idss in
      match split_on '|' (String.sub impl 3 (String.length impl - 3)) with
      | [olds; recs; _; bits] ->
        let olds = ints olds in
        let t = Array.of_list (parse_table ~bmode:(m = "B") tbl) in
        let sub = parse_table ~bmode:(m = "B") recs in
        let valid = valid_ids ids in
        let bad cls why = if valid then Violation (cls, why) else Mismatch why in
        let rec prefix a b = match a, b with [], _ -> true | x :: a', y :: b' -> x = y && prefix a' b' | _ -> false in
        if not (prefix ids olds) then bad "order" "the requested glyphs are not first, in the requested order"
        else if List.length (List.sort_uniq compare olds) <> List.length olds then bad "duplicate" "a glyph appears twice"
        else if String.contains bits '0' then bad "outline" "a subset glyph's outline differs from its source glyph's"
        else if List.length sub <> List.length olds then bad "records" "record count differs from id count"
        else begin
          let oa = Array.of_list olds in
          let ok = List.for_all2 (fun old r ->
            old < Array.length t &&
            (match t.(old), r with
             | GComposite (cs, rest), GComposite (cs', rest') ->
               rest = rest' && List.length cs = List.length cs' &&
               List.for_all2 (fun (g, d) (n, d') -> d = d' &&
                 (let n = z_to_int n in n < Array.length oa && oa.(n) = z_to_int g)) cs cs'
             | a, b -> a = b)) olds sub in
          if ok then Mismatch "differs from the model, property holds" else bad "renumber" "a component does not point at its source component"
        end
      | _ -> Mismatch "unreadable result"
    end
    else Mismatch "result kinds differ"
  | "h" :: _ ->
    if impl = model then Agree
    else if starts_with "ok:" impl && starts_with "ok:" model then Violation ("metrics", "create_hmtx_table: wrong advance or lsb")
    else Mismatch "result kinds differ"
  | "t" :: _ :: _ :: _ :: _ :: idss :: _ ->
    let ids = ints idss in
    if starts_with "ok|" impl then begin
      let expect = (match split_on '|' model with ["ok"; o; m] -> Some (o, m) | _ -> None) in
      match judge_report ids impl expect with
      | Agree when expect = None -> Mismatch "the model predicts a failure"
      | v -> v
    end
    else if impl = model then Agree
    else Mismatch "result kinds differ"
  | "f" :: _ :: idss :: _ ->
    let ids = ints idss in
    if starts_with "ok|" impl then judge_report ids impl None
    else if starts_with "err:" impl then begin
      match split_on '|' impl with
      | [_; ng] when valid_ids ids && List.for_all (fun g -> g < int_of_string ng) ids ->
        Mismatch "subsetting failed on a request inside the property's domain"
      | _ -> Agree
    end
    else Mismatch "unreadable result"
  | "c" :: _ :: idss :: conv :: _ ->
    if impl = "nofont" then Mismatch "fixture missing"
    else (try judge_c (ints idss) (conv = "1") impl with Failure w -> Mismatch ("unreadable views: " ^ w))
  | "s" :: _ :: _ :: glyphs :: _ :: _ :: idss :: _ ->
    (* synthetic CFF: model-independent, the outline of new glyph n is the outline of source glyph ids[n] *)
    let ids = ints idss in
    let gl = Array.of_list (List.filter (fun x -> x <> "" && x <> "-") (split_on ' ' glyphs)) in
    (match split_on '|' impl with
     | ["ok"; outs; srcs] ->
       let o = (if outs = "-" then [] else split_on ',' outs) and sv = (if srcs = "-" then [] else split_on ',' srcs) in
       let valid = valid_ids ids && List.for_all (fun g -> g < Array.length gl) ids in
       (* no model for this kind: outside the property's domain (duplicates, no leading 0, out of range) nothing is claimed *)
       let bad cls why = if valid then Violation (cls, why) else Agree in
       if List.length o <> List.length ids then bad "count" "the subset does not have one glyph per requested id"
       else begin
         let res = ref Agree in
         List.iteri (fun n (oh, sh) ->
           if !res = Agree && oh <> sh && not (String.length sh > 0 && sh.[0] = 'E') then begin
             let g = List.nth ids n in
             let seac = g < Array.length gl && String.contains gl.(g) 'S' in
             res := bad (if seac then "cff-seac" else "outline-requested")
                 (Printf.sprintf "new glyph %d does not have the outline of source glyph %d%s" n g
                    (if seac then " (seac: base or accent glyph not retained)" else ""))
           end) (List.combine o sv);
         !res
       end
     | _ ->
       if starts_with "err:" impl then
         (if valid_ids ids && List.for_all (fun g -> g < Array.length gl) ids
          then Mismatch "subsetting failed on a request inside the property's domain" else Agree)
       else Mismatch "unreadable result")
  | _ -> Mismatch "unknown case kind"

let tag (input : string) (out : string) : string =
  let kind = String.sub input 0 1 in
  let extra =
    if kind = "f" || kind = "c" then (match split_on '|' input with _ :: f :: _ -> "-" ^ Filename.basename f | _ -> "")
    else if kind = "s" then (match split_on '|' input with
      | _ :: ng :: nl :: gl :: _ ->
        let regime n = let n = int_of_string n in if n = 0 then "none" else if n < 1240 then "b107" else if n < 33900 then "b1131" else "b32768" in
        Printf.sprintf "-g%s-l%s%s" (regime ng) (regime nl) (if String.contains gl 'S' then "-seac" else "")
      | _ -> "")
    else "-" ^ String.sub out 0 (min 2 (String.length out)) in
  kind ^ extra
