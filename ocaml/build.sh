#!/bin/sh
# builds the model driver(s): ocaml/<prop>/avm from ocaml/<prop>/{model.ml (extracted), drv.ml}
# usage: build.sh [prop ...]   (default: every directory that has a model.ml)
cd "$(dirname "$0")"
props="$@"
[ -n "$props" ] || props=$(for d in */; do [ -f "$d/model.ml" ] && echo "${d%/}"; done)
rc=0
for p in $props; do
  ( cd "$p" && rm -f avm && cp ../zconv.ml ../verdict.ml ../main.ml . && \
    ocamlfind ocamlopt -O3 -w -a model.mli model.ml zconv.ml verdict.ml drv.ml main.ml -o avm 2>&1 | tail -20 ; \
    rm -f zconv.ml verdict.ml main.ml; [ -x avm ] ) || { echo "build.sh: $p failed"; rc=1; }
done
exit $rc
