#!/bin/sh
# builds the model driver from the freshly extracted model.ml
set -e
cd "$(dirname "$0")"
ocamlfind ocamlopt -O3 -w -a model.mli model.ml zconv.ml verdict.ml drv_*.ml main.ml -o avm
