(* <prop>/avm <casefile> (one executable per property, linked with that property's Model and Drv): each line "input => implresult"; evaluates the extracted Coq model on
   input, judges the implementation's result, prints VIOL / DIFF lines and a one-line summary. *)
open Verdict

let () =
  let file = Sys.argv.(1) in
  let ic = open_in file in
  let n = ref 0 and agree = ref 0 and diff = ref 0 and viol = ref 0 and errors = ref 0 in
  let seen = Hashtbl.create 1024 and tags = Hashtbl.create 64 in
  (try
    while true do
      let line = input_line ic in
      incr n;
      let sep = " => " in
      let idx =
        let rec find i = if i + 4 > String.length line then -1
          else if String.sub line i 4 = sep then i else find (i + 1) in find 0 in
      if idx < 0 then (incr errors; Printf.printf "BADLINE %d %s\n" !n line) else begin
        let input = String.sub line 0 idx in
        let impl = String.sub line (idx + 4) (String.length line - idx - 4) in
        let model = try Drv.run input with e -> "MODEL-EXN:" ^ Printexc.to_string e in
        let is_pref p = String.length impl >= String.length p && String.sub impl 0 (String.length p) = p in
        let verdict =
          (* the harness runs every case in a child process: the implementation died (abort, stack
             overflow, memory limit) or did not return within the per-case time limit on this input *)
          if is_pref "abort:" || is_pref "timeout:" then
            Violation ("abort", "the implementation did not return on this input (" ^ impl ^ ")")
          else Drv.judge input impl model in
        (match verdict with
         | Agree -> incr agree
         | Mismatch why ->
           incr diff; Printf.printf "DIFF\t%d\t%s\t%s\timpl=%s\tmodel=%s\n" !n why input impl model
         | Violation (cls, why) ->
           incr viol; Printf.printf "VIOL\t%d\t%s\t%s\t%s\timpl=%s\tmodel=%s\n" !n cls why input impl model);
        if not (Hashtbl.mem seen input) then begin
          Hashtbl.add seen input ();
          let t = Drv.tag input model in
          Hashtbl.replace tags t (1 + (try Hashtbl.find tags t with Not_found -> 0))
        end
      end
    done
  with End_of_file -> ());
  let tl = Hashtbl.fold (fun k v acc -> Printf.sprintf "%S:%d" k v :: acc) tags [] in
  Printf.printf "SUMMARY {\"cases\":%d,\"agree\":%d,\"diff\":%d,\"viol\":%d,\"bad\":%d,\"distinct\":%d,\"tags\":{%s}}\n"
    !n !agree !diff !viol !errors (Hashtbl.length seen) (String.concat "," (List.sort compare tl))
