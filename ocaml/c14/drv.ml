(* C14: run the reader machine model on one case line.
   input  = M|BUFHEX|op op op ...      (M = d (debug arithmetic) | r (release))
   output = res;res;...   with res = R@rem@curbase@scpbase@scplen
            R = ok:v,v | err:E | panic | oob | incons:what (harness only)
            rem/curbase = cur.scope().data().len() / .base(), scpbase/scplen = scp.base() / scp.data().len() *)
open Model
open Zconv
open Verdict

let prim_of_string = function
  | "u8" -> PU8 | "i8" -> PI8 | "u16" -> PU16 | "i16" -> PI16 | "u24" -> PU24
  | "u32" -> PU32 | "i32" -> PI32 | "u64" -> PU64 | "i64" -> PI64
  | s -> failwith ("prim " ^ s)

let ty_of_string s = List.map prim_of_string (split_on ',' s)
(* the record type of a dependent array: "-" is the empty record (size 0) *)
let dty_of_string s = if s = "-" || s = "" then [] else ty_of_string s

let cowop_of (l : string list) : cowop =
  match l with
  | ["len"] -> CLen
  | ["get"; i] -> CGet (z_of_string i)
  | ["ri"; i] -> CReadItem (z_of_string i)
  | ["it"] -> CIter
  | ["hint"; k] -> CHint (z_of_string k)
  | ["ci"; i] -> CCheckIndex (z_of_string i)
  | _ -> failwith "cowop"

let op_of_string (s : string) : xop =
  match split_on ':' s with
  | ["so"; o] -> XCore (OScopeOffset (z_of_string o))
  | ["sol"; o; l] -> XCore (OScopeOffsetLength (z_of_string o, z_of_string l))
  | ["ctxt"] -> XCore OCtxt
  | ["cs"] -> XCore OCtxtScope
  | ["ba"] -> XCore OBytesAvailable
  | ["r"; p] -> XCore (ORead (prim_of_string p))
  | ["rt"; t] -> XCore (OReadTy (ty_of_string t))
  | ["rs"; l] -> XCore (OReadScope (z_of_string l))
  | ["sl"; l] -> XCore (OReadSlice (z_of_string l))
  | ["nib"; n] -> XCore (OReadUntilNibble (z_of_string n))
  | ["ra"; t; n] -> XCore (OReadArray (ty_of_string t, z_of_string n))
  | ["ras"; t; n; st] -> XCore (OReadArrayStride (ty_of_string t, z_of_string n, z_of_string st))
  | ["rau"; t; n] -> XCore (OReadArrayUpto (ty_of_string t, z_of_string n))
  | ["al"] -> XCore OArrLen
  | ["ag"; i] -> XCore (OArrGet (z_of_string i))
  | ["ari"; i] -> XCore (OArrReadItem (z_of_string i))
  | ["alast"] -> XCore OArrLast
  | ["avec"] -> XCore OArrToVec
  | ["ahint"] -> XCore OArrSizeHint
  | ["artv"] -> XCore OArrReadToVec
  | ["as"; k] -> XCore (OArrSearch (z_of_string k))
  | ["sd"] -> XScopeData
  | ["sr"; t] -> XScopeRead (ty_of_string t)
  | ["srd"; t] -> XScopeReadDep (dty_of_string t)
  | ["rc"; t] -> XReadCache (ty_of_string t)
  | ["own"] -> XOwned
  | ["rad"; t; n] -> XReadArrayDep (dty_of_string t, z_of_string n)
  | ["dl"] -> XDepLen
  | ["dri"; i] -> XDepReadItem (z_of_string i)
  | ["dit"] -> XDepIter
  | ["drtv"] -> XDepReadToVec
  | ["dhint"; k] -> XDepHint (z_of_string k)
  | ["ddbg"] -> XDepDebug
  | ["dci"; i] -> XDepCheckIndex (z_of_string i)
  | ["adbg"] -> XArrDebug
  | ["aci"; i] -> XArrCheckIndex (z_of_string i)
  | ["arh"; k] -> XArrIterResHint (z_of_string k)
  | "cb" :: r -> XCow (false, cowop_of r)
  | "co" :: r -> XCow (true, cowop_of r)
  | _ -> failwith ("op " ^ s)

(* ---- the crate's own dependent records: M|lib|Type|a,b|n|buflen --------------------------------
   output = size:S;item:I;seq:Q;arr:A;first:F;last:L;iter:K (see harness/src/bin/c14.rs) *)
let librec_of_string = function
  | "AxisValue" -> L_AxisValue | "VariationRegion" -> L_VariationRegion
  | "SVGDocumentRecord" -> L_SVGDocumentRecord | "BitmapSize" -> L_BitmapSize
  | "SbitLineMetrics" -> L_SbitLineMetrics | "BigGlyphMetrics" -> L_BigGlyphMetrics
  | "ScriptRecord" -> L_ScriptRecord | "FeatureRecord" -> L_FeatureRecord | "LangSysRecord" -> L_LangSysRecord
  | "ValueRecord" -> L_ValueRecord | "PairValueRecord" -> L_PairValueRecord
  | "Class1Record" -> L_Class1Record | "Class2Record" -> L_Class2Record
  | "EntryExitRecord" -> L_EntryExitRecord | "BaseRecord" -> L_BaseRecord | "MarkRecord" -> L_MarkRecord
  | "ComponentRecord" -> L_ComponentRecord
  | s -> failwith ("lib record " ^ s)

let z0 = z_of_int 0
let zle a b = not (z_ltb b a)
let zmin a b = if z_ltb a b then a else b
let lib_args (s : string) : z list = if s = "-" || s = "" then [] else List.map z_of_string (split_on ',' s)

let is_lib (input : string) : bool =
  match split_on '|' input with _ :: "lib" :: _ -> true | _ -> false

let run_lib (m : string) (ty : string) (args : string) (n : string) (buflen : string) : string =
  let m = if m = "d" then Debug else Release in
  let r = librec_of_string ty and a = lib_args args and n = z_of_string n and avail = z_of_string buflen in
  if not (args_ok (lib_arg_tys r) a) then failwith "lib args outside the argument types";
  let spec = lib_spec_size r a in
  match lib_read_array_dep m r a n avail with
  | Ok (stride, win) ->
    let fits = lib_item_fits r a stride in
    let item = if zle spec avail then z_to_string spec else "err:Eof" in
    let k = zmin n (z_of_int 64) in
    let seq = if zle (z_mul k spec) avail then z_to_string k ^ "," ^ z_to_string (z_mul k spec) else "err:Eof" in
    let it = if fits then "ok" else "err:Eof" in
    let (arr, first, last, iter) =
      match win with
      | Ok adv ->
        let some = z_ltb z0 n in
        (z_to_string adv ^ "," ^ z_to_string n, (if some then it else "none"), (if some then it else "none"),
         (let c = z_to_string (zmin n (z_of_int 1000)) in if fits then c ^ ",0" else "0," ^ c))
      | Err e -> ("err:" ^ err_to_string e, "none", "none", "none")
      | Panic -> ("panic", "none", "none", "none")
      | OOB -> ("oob", "none", "none", "none") in
    Printf.sprintf "size:%s;item:%s;seq:%s;arr:%s;first:%s;last:%s;iter:%s" (z_to_string stride) item seq arr first last iter
  | Panic -> "size:panic;item:-;seq:-;arr:panic;first:none;last:none;iter:none"
  | Err e -> "size:err:" ^ err_to_string e
  | OOB -> "size:oob"

let lib_fields (s : string) : (string * string) list =
  List.filter_map (fun f ->
      match String.index_opt f ':' with
      | Some i -> Some (String.sub f 0 i, String.sub f (i + 1) (String.length f - i - 1))
      | None -> None) (split_on ';' s)

let is_num (s : string) : bool = s <> "" && String.for_all (fun c -> c >= '0' && c <= '9') s

(* model-independent: the implementation's own outputs must be consistent with each other — size(args) is
   "the number of bytes consumed by ReadBinaryDep::read" (doc of ReadFixedSizeDep), an array of n records
   covers n * size bytes, and every index below n is readable whenever a single record is *)
let judge_lib (input : string) (impl : string) (model : string) : verdict =
  let n = match split_on '|' input with [_; _; _; _; n; _] -> z_of_string n | _ -> z0 in
  let f = lib_fields impl and g = lib_fields model in
  let get l k = try List.assoc k l with Not_found -> "" in
  let bad = List.find_opt (fun (_, v) -> starts_with "panic" v || starts_with "oob" v) f in
  match bad with
  | Some (k, v) when starts_with "oob" v -> Violation ("oob", Printf.sprintf "%s read outside the slice (VERIF-OOB)" k)
  | Some (k, _) -> Violation ("panic", Printf.sprintf "%s panicked instead of returning a value or an error (%s)" k impl)
  | None ->
    let size = get f "size" and item = get f "item" and seq = get f "seq" and arr = get f "arr" in
    let first = get f "first" and last = get f "last" and iter = get f "iter" in
    let pair s = match split_on ',' s with [a; b] when is_num a && is_num b -> Some (z_of_string a, z_of_string b) | _ -> None in
    let v c why = Some (Violation (c, why)) in
    let checks = [
      (fun () -> if is_num size && is_num item && size <> item then
          v "stride" (Printf.sprintf "size(args) is %s but read_dep consumes %s bytes" size item) else None);
      (fun () -> match pair seq with
         | Some (k, c) when is_num size && not (z_eqb c (z_mul k (z_of_string size))) ->
           v "stride" (Printf.sprintf "%s records in a row take %s bytes, size(args) is %s" (z_to_string k) (z_to_string c) size)
         | _ -> None);
      (fun () -> match pair arr with
         | Some (adv, len) when not (z_eqb len n) -> v "window" (Printf.sprintf "array of declared length %s has len() %s" (z_to_string n) (z_to_string len))
         | Some (adv, len) when is_num item && not (z_eqb adv (z_mul len (z_of_string item))) ->
           v "window" (Printf.sprintf "read_array_dep(%s) advanced the cursor by %s bytes, one record is %s bytes" (z_to_string len) (z_to_string adv) item)
         | _ -> None);
      (fun () -> if pair arr <> None && is_num item && z_ltb z0 n && (first <> "ok" || last <> "ok") then
          v "window" (Printf.sprintf "in-range read_item of an array of %s records failed (first %s, last %s) although one record reads" (z_to_string n) first last)
        else None);
      (fun () -> match pair arr, pair iter with
         | Some _, Some (ok, _) when is_num item && not (z_eqb ok (zmin n (z_of_int 1000))) ->
           v "window" (Printf.sprintf "iter_res over %s records produced %s items" (z_to_string n) (z_to_string ok))
         | _ -> None) ] in
    (match List.find_map (fun c -> c ()) checks with
     | Some viol -> viol
     | None ->
       if impl = model then Agree
       else if starts_with "size:panic" model then Mismatch (Printf.sprintf "model %s, implementation %s" model impl)
       else
         (* the model's values are the specified ones (C14_lib_dep_size_exact / C14_lib_dep_array_window) *)
         let d = List.find_opt (fun (k, x) -> get g k <> x) f in
         match d with
         | Some (k, x) -> Violation ((if k = "size" then "stride" else "inexact"),
                                     Printf.sprintf "%s is %s, specified %s" k x (get g k))
         | None -> Mismatch "different fields")

let ops_of (ops : string) : string list =
  List.filter (fun s -> s <> "") (split_on ' ' ops)

let run (input : string) : string =
  match split_on '|' input with
  | [m; "lib"; ty; args; n; buflen] -> run_lib m ty args n buflen
  | [m; buf; ops] ->
    let m = if m = "d" then Debug else Release in
    let ops = List.map op_of_string (ops_of ops) in
    let res = xrun m (xinit (bytes_of_hex buf)) ops in
    String.concat ";"
      (List.map (fun (o, pos) ->
           outcome_to_string zlist_to_string o ^ "@" ^ String.concat "@" (List.map z_to_string pos)) res)
  | _ -> failwith "c14 input"

(* class of a case: the result kinds it produced + which groups of operations it exercised *)
let tag (input : string) (out : string) : string =
  if is_lib input then
    (match split_on '|' input with
     | _ :: _ :: ty :: _ -> "lib:" ^ ty ^ (if List.exists (fun (k, x) -> k = "arr" && starts_with "err" x) (lib_fields out) then "/eof" else "")
     | _ -> "lib")
  else
  let parts = split_on ';' out in
  let kinds = List.sort_uniq compare (List.map (fun r -> String.sub r 0 (min 2 (String.length r))) parts) in
  let groups =
    match split_on '|' input with
    | [_; _; ops] ->
      let g s =
        match split_on ':' s with
        | ("rc" :: _) -> "C" | ("sr" :: _ | "srd" :: _ | "sd" :: _ | "own" :: _) -> "S"
        | (("rad" | "dl" | "dri" | "dit" | "drtv" | "dhint" | "ddbg" | "dci") :: _) -> "D"
        | (("cb" | "co") :: _) -> "W"
        | _ -> "" in
      String.concat "" (List.sort_uniq compare (List.map g (ops_of ops)))
    | _ -> "" in
  String.concat "" kinds ^ (if groups = "" then "" else "+" ^ groups)

(* ---- model-independent part of the judge: facts about the implementation's own outputs -------- *)
let usize = z_of_string "18446744073709551616"
let zmod a b = snd (z_div_eucl a b)

(* res@rem@curbase@scpbase@scplen -> (res, [rem; curbase; scpbase; scplen]) *)
let split_res (r : string) : string * string list =
  match split_on '@' r with
  | res :: pos -> (res, pos)
  | [] -> ("", [])

let ok_vals (res : string) : string list option =
  if starts_with "ok:" res then
    let b = String.sub res 3 (String.length res - 3) in
    Some (if b = "" then [] else split_on ',' b)
  else None

(* Walks over the implementation's results alone (no model):
   - ReadScope::base is "the offset of this scope from the start of the scope it was derived from":
     after scp = scp.offset(n) / scp.offset_length(n, _) the base is the previous base + n (mod 2^64),
     after scp = cur.scope() it is the cursor's position, ReadScopeOwned keeps it;
   - an array of declared length n yields exactly n items (iter_res, read_to_vec, Debug), its size_hint
     is n, indices >= n are refused. *)
let independent (ops : string list) (impl : string list) : verdict =
  let viol = ref None in
  let set k c why = if !viol = None then viol := Some (Violation (c, Printf.sprintf "op %d: %s" k why)) in
  let scpbase = ref "0" and curbase = ref "0" and dlen = ref (Some "0") in
  let rec go k ops impl =
    match ops, impl with
    | o :: ops', r :: impl' when !viol = None ->
      let (res, pos) = split_res r in
      (match pos with
       | [_; cb; sb; _] ->
         let expect_base prev n what =
           let want = z_to_string (zmod (z_add (z_of_string prev) (z_of_string n)) usize) in
           if sb <> want then
             set k "position" (Printf.sprintf "%s: base() is %s, previous base %s + offset %s = %s" what sb prev n want) in
         (match split_on ':' o, ok_vals res with
          | ["so"; n], Some _ -> expect_base !scpbase n "scope.offset"
          | ["sol"; n; _], Some _ -> expect_base !scpbase n "scope.offset_length"
          | ["cs"], Some _ -> if sb <> !curbase then
              set k "position" (Printf.sprintf "ctxt.scope().base() is %s, the cursor was at %s" sb !curbase)
          | ["own"], Some _ -> if sb <> !scpbase then
              set k "position" (Printf.sprintf "ReadScopeOwned moved the scope from %s to %s" !scpbase sb)
          | ["rad"; _; _], Some [n] -> dlen := Some n
          | ["rad"; _; _], Some _ -> dlen := None
          | [("dit" | "ddbg")], Some (c :: _) when c <> "-1" ->
            (match !dlen with
             | Some n when String.length n <= 6 && String.length c <= 9 ->
               if int_of_string c <> min (int_of_string n) 1000 then
                 set k "window" (Printf.sprintf "iteration over an array of declared length %s produced %s items" n c)
             | _ -> ())
          | ["drtv"], Some (c :: _) when c <> "-1" ->
            (match !dlen with
             | Some n when String.length n <= 6 && String.length c <= 9 ->
               if int_of_string n <= 4096 && int_of_string c <> int_of_string n then
                 set k "window" (Printf.sprintf "read_to_vec of an array of declared length %s returned %s items" n c)
             | _ -> ())
          | ["dl"], Some [n; _] -> (match !dlen with Some d when d <> n -> set k "window" "len() differs from the declared length" | _ -> ())
          | _ -> ());
         scpbase := sb; curbase := cb
       | _ -> ());
      go (k + 1) ops' impl'
    | _ -> ()
  in
  go 0 ops impl;
  match !viol with Some v -> v | None -> Agree

(* The property, applied to the implementation's output op by op (the model is proved to meet it):
   an out-of-bounds read or a panic is a violation outright; a value, error or position that differs
   from the model's is a violation of exact decoding / of the declared window because the model's
   value is, by C14_read_exact / C14_array_get / C14_scope_position / C14_dep_iter / ..., the
   specified one.  States may diverge after the first difference, so judging stops there. *)
let judge (input : string) (impl : string) (model : string) : verdict =
  if is_lib input then judge_lib input impl model else
  let a = split_on ';' impl and b = split_on ';' model in
  let ops = match split_on '|' input with [_; _; ops] -> ops_of ops | _ -> [] in
  let rec go k a b =
    match a, b with
    | [], [] -> Agree
    | x :: a', y :: b' ->
      let (xr, xp) = split_res x and (yr, yp) = split_res y in
      if starts_with "oob" x then Violation ("oob", Printf.sprintf "op %d read outside the slice (VERIF-OOB)" k)
      else if starts_with "panic" x then Violation ("panic", Printf.sprintf "op %d panicked instead of returning a value or an error" k)
      else if starts_with "incons:" x then
        Violation ("inconsistent", Printf.sprintf "op %d: two public views of the same array disagree (%s)" k xr)
      else if x = y then go (k + 1) a' b'
      else if starts_with "panic" y || starts_with "oob" y then
        Mismatch (Printf.sprintf "op %d: model %s, implementation %s" k y x)
      else if xr = yr && xp <> yp then
        Violation ("position", Printf.sprintf "op %d left the cursor/scope at %s, specified %s (rem@curbase@scpbase@scplen)"
                     k (String.concat "@" xp) (String.concat "@" yp))
      else Violation ("inexact", Printf.sprintf "op %d returned %s, specified %s" k x y)
    | _ -> Mismatch "different number of results"
  in
  match independent ops a with
  | Agree -> go 0 a b
  | v -> v
