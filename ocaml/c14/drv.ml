(* C14: run the reader machine model on one case line.
   input  = M|BUFHEX|op op op ...      (M = d (debug arithmetic) | r (release))
   output = res;res;...   with res = ok:v,v@off | err:E@off | panic@off | oob@off *)
open Model
open Zconv
open Verdict

let prim_of_string = function
  | "u8" -> PU8 | "i8" -> PI8 | "u16" -> PU16 | "i16" -> PI16 | "u24" -> PU24
  | "u32" -> PU32 | "i32" -> PI32 | "u64" -> PU64 | "i64" -> PI64
  | s -> failwith ("prim " ^ s)

let ty_of_string s = List.map prim_of_string (split_on ',' s)

let op_of_string (s : string) : op =
  match split_on ':' s with
  | ["so"; o] -> OScopeOffset (z_of_string o)
  | ["sol"; o; l] -> OScopeOffsetLength (z_of_string o, z_of_string l)
  | ["ctxt"] -> OCtxt
  | ["cs"] -> OCtxtScope
  | ["ba"] -> OBytesAvailable
  | ["r"; p] -> ORead (prim_of_string p)
  | ["rt"; t] -> OReadTy (ty_of_string t)
  | ["rs"; l] -> OReadScope (z_of_string l)
  | ["sl"; l] -> OReadSlice (z_of_string l)
  | ["nib"; n] -> OReadUntilNibble (z_of_string n)
  | ["ra"; t; n] -> OReadArray (ty_of_string t, z_of_string n)
  | ["ras"; t; n; st] -> OReadArrayStride (ty_of_string t, z_of_string n, z_of_string st)
  | ["rau"; t; n] -> OReadArrayUpto (ty_of_string t, z_of_string n)
  | ["al"] -> OArrLen
  | ["ag"; i] -> OArrGet (z_of_string i)
  | ["ari"; i] -> OArrReadItem (z_of_string i)
  | ["alast"] -> OArrLast
  | ["avec"] -> OArrToVec
  | ["ahint"] -> OArrSizeHint
  | ["artv"] -> OArrReadToVec
  | ["as"; k] -> OArrSearch (z_of_string k)
  | _ -> failwith ("op " ^ s)

let run (input : string) : string =
  match split_on '|' input with
  | [m; buf; ops] ->
    let m = if m = "d" then Debug else Release in
    let ops = if ops = "" then [] else List.map op_of_string (split_on ' ' ops) in
    let res = rrun m (rinit (bytes_of_hex buf)) ops in
    String.concat ";"
      (List.map (fun (o, off) -> outcome_to_string zlist_to_string o ^ "@" ^ z_to_string off) res)
  | _ -> failwith "c14 input"

(* a case is non-trivial when at least one op succeeded with a value and at least one failed *)
let tag (_input : string) (out : string) : string =
  let parts = split_on ';' out in
  let kinds = List.sort_uniq compare (List.map (fun r -> String.sub r 0 (min 2 (String.length r))) parts) in
  String.concat "" kinds

(* The property, applied to the implementation's output op by op (the model is proved to meet it):
   an out-of-bounds read or a panic is a violation outright; a value or error that differs from
   the model's is a violation of exact decoding because the model's value is, by C14_read_exact /
   C14_array_get / ..., the specified one. States may diverge after the first difference, so
   judging stops there. *)
let judge (_input : string) (impl : string) (model : string) : verdict =
  let a = split_on ';' impl and b = split_on ';' model in
  let rec go k a b =
    match a, b with
    | [], [] -> Agree
    | x :: a', y :: b' ->
      if starts_with "oob" x then Violation ("oob", Printf.sprintf "op %d read outside the slice (VERIF-OOB)" k)
      else if starts_with "panic" x then Violation ("panic", Printf.sprintf "op %d panicked instead of returning a value or an error" k)
      else if x = y then go (k + 1) a' b'
      else if starts_with "panic" y || starts_with "oob" y then
        Mismatch (Printf.sprintf "op %d: model %s, implementation %s" k y x)
      else Violation ("inexact", Printf.sprintf "op %d returned %s, specified %s" k x y)
    | _ -> Mismatch "different number of results"
  in go 0 a b
