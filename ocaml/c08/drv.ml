(* C08: run the extracted cmap subsetting model on one case line and judge the implementation's
   output.  Line formats: see harness/src/bin/c08.rs.
   The model result depends on the build mode only in unreachable corner cases (glyph id 65535);
   when the two modes differ [run] returns "D<debug>##R<release>" and the judge picks the one that
   matches the implementation's build (the harness cannot tell the model its mode). *)
open Model
open Zconv
open Verdict

let csv (s : string) : string list = if s = "" || s = "-" then [] else split_on ',' s
let zs (s : string) : z list = List.map z_of_string (csv s)

(* ---------------------------------------------------------------------------------------------- *)
(* B *)

type pair = { sym : bool; code : int; gid : int }

let parse_pairs (s : string) : pair list =
  List.map (fun p -> match split_on ':' p with
      | [k; c; g] -> { sym = (k = "s"); code = int_of_string c; gid = int_of_string g }
      | _ -> failwith "pair") (csv s)

(* BTreeMap<Character, u16>: sorted by (Unicode < Symbol, code), the last insert of a key wins *)
let btree (ps : pair list) : pair list =
  let tbl = Hashtbl.create 64 in
  List.iter (fun p -> Hashtbl.replace tbl (p.sym, p.code) p.gid) ps;
  let keys = Hashtbl.fold (fun k _ acc -> k :: acc) tbl [] in
  let keys = List.sort compare keys in
  List.map (fun (s, c) -> { sym = s; code = c; gid = Hashtbl.find tbl (s, c) }) keys

let existence_of_int = function 1 -> XMacRoman | 2 -> XBmp | 3 -> XAstral | _ -> XDivine
let rank_int = function XMacRoman -> 1 | XBmp -> 2 | XAstral -> 3 | XDivine -> 4

let is_scalar (c : int) : bool = (c >= 0 && c < 0xD800) || (c >= 0xE000 && c < 0x110000)

let build_err (e : err) : string =
  match e with
  | LimitExceeded -> "eparse:LimitExceeded"
  | BadValue -> "ewrite:BadValue"
  | NotImplemented -> "ewrite:NotImplemented"
  | e -> "eparse:" ^ err_to_string e

let build_str (r : z list outcome) : string =
  match r with
  | Ok b -> "ok:" ^ hex_of_bytes b
  | Err e -> build_err e
  | Panic -> "p"
  | OOB -> "oob"

let both (f : mode -> string) : string =
  let d = f Debug and r = f Release in
  if d = r then d else "D" ^ d ^ "##R" ^ r

let run_b (plane : string) (pairs : string) : string =
  let ps = parse_pairs pairs in
  if List.exists (fun p -> not p.sym && not (is_scalar p.code)) ps then "ebadchar"
  else begin
    let m = List.map (fun p -> ((if p.sym then CSymbol (z_of_int p.code) else CUnicode (z_of_int p.code)), z_of_int p.gid)) (btree ps) in
    both (fun md -> build_str (build_cmap md m (existence_of_int (int_of_string plane))))
  end

(* ---------------------------------------------------------------------------------------------- *)
(* K *)

let os2_arg (os2 : string) : z option outcome =
  if os2 = "-" then Ok None else if os2 = "x" then Err Eof else Ok (Some (z_of_string os2))

let target_arg (t : string) : cmap_target = if t = "m" then TMacRoman else TUnrestricted

let kept_str (kept : (character * z) list) : string =
  String.concat "," (List.map (fun (ch, g) ->
      match ch with
      | CUnicode c -> "u:" ^ z_to_string c ^ ":" ^ z_to_string g
      | CSymbol c -> "s:" ^ z_to_string c ^ ":" ^ z_to_string g) kept)

let run_k (h : string) (os2 : string) (target : string) (ids : string) : string =
  match mappings_to_keep_new (bytes_of_hex h) (os2_arg os2) (zs ids) (target_arg target) with
  | Ok (kept, plane) -> Printf.sprintf "ok:%d;%s" (rank_int plane) (kept_str kept)
  | Err NotImplemented -> "big5"
  | Err e -> "e" ^ err_to_string e
  | Panic -> "p"
  | OOB -> "oob"

(* ---------------------------------------------------------------------------------------------- *)
(* reading a cmap table with the C06 model *)

let enc_name = function
  | EUnicode -> "Unicode" | ESymbol -> "Symbol" | EAppleRoman -> "AppleRoman" | EBig5 -> "Big5"

let selected (cmap : z list) : (encoding * subtable) option =
  match parse_cmap cmap with
  | Ok recs ->
    (match find_good_cmap_subtable recs with
     | Some (enc, r) ->
       let off = z_to_int r.er_offset in
       let rec drop n l = if n <= 0 then l else match l with [] -> [] | _ :: t -> drop (n - 1) t in
       let data = if off <= List.length cmap then drop off cmap else [] in
       (match parse data with Ok st -> Some (enc, st) | _ -> None)
     | None -> None)
  | _ -> None

let glyph (st : subtable) (c : int) : int =
  match map_glyph st (z_of_int c) with Ok (Some g) -> z_to_int g | _ -> 0

(* The glyph the SOURCE sub-table gives a code.  Format 2: a two byte code whose first byte is not a lead byte
   (subHeaderKey 0), and a lead byte used as a one byte code, are not codes of the table: mappings_fn does not
   enumerate them, map_glyph (Rust and C06 model alike) answers with the sub-header 0 entry of the low byte.
   They count as unmapped (docs/C08.md). *)
let f2_improper (st : subtable) (c : int) : bool =
  match st with
  | F2 (_, keys, _, _) ->
    let lead hb = (match List.nth_opt keys hb with Some k -> z_to_int k / 8 <> 0 | None -> false) in
    if c < 0 || c > 0xFFFF then true
    else if c < 0x100 then lead c else not (lead (c lsr 8))
  | _ -> false

let glyph_src (st : subtable) (c : int) : int = if f2_improper st c then 0 else glyph st c

(* ---------------------------------------------------------------------------------------------- *)
(* E *)

let run_e (h : string) (os2 : string) (n : string) (target : string) (ids : string) (probes : string) : string =
  let cmap = bytes_of_hex h and idl = zs ids and n = int_of_string n in
  match mappings_to_keep_new cmap (os2_arg os2) idl (target_arg target) with
  | Err NotImplemented -> "big5"
  | Err e -> "eparse:" ^ err_to_string e
  | Panic -> "p"
  | OOB -> "oob"
  | Ok (kept, plane) ->
    (* GlyfTable::subset: every requested glyph must exist *)
    if List.exists (fun g -> z_to_int g >= n) idl then "eparse:BadIndex"
    else both (fun md ->
        match build_cmap md (update_to_new_ids idl kept) plane with
        | Ok bytes ->
          (match selected bytes with
           | Some (enc, st) ->
             Printf.sprintf "ok:%s;enc=%s;g=%s" (hex_of_bytes bytes) (enc_name enc)
               (String.concat "," (List.map (fun p -> string_of_int (glyph st (int_of_string p))) (csv probes)))
           | None -> "ok:" ^ hex_of_bytes bytes ^ ";unreadable")
        | r -> build_str r)

let run (input : string) : string =
  match split_on '|' input with
  | ["B"; plane; pairs] -> run_b plane pairs
  | ["K"; h; os2; target; ids] -> run_k h os2 target ids
  | ["E"; h; os2; n; target; ids; probes] -> run_e h os2 n target ids probes
  | _ -> failwith "c08 input"

(* ---------------------------------------------------------------------------------------------- *)

let field (name : string) (out : string) : string =
  let pre = name ^ "=" in
  let rec go = function
    | [] -> ""
    | f :: t -> if starts_with pre f then String.sub f (String.length pre) (String.length f - String.length pre) else go t in
  go (split_on ';' out)

let after (p : string) (s : string) : string = String.sub s (String.length p) (String.length s - String.length p)

(* the model results for the two build modes; the implementation's result selects *)
let pick (impl : string) (model : string) : string =
  if String.length model > 0 && model.[0] = 'D' then begin
    let len = String.length model in
    let rec find i = if i + 3 > len then -1 else if String.sub model i 3 = "##R" then i else find (i + 1) in
    let i = find 0 in
    if i < 0 then model else begin
      let d = String.sub model 1 (i - 1) and r = String.sub model (i + 3) (len - i - 3) in
      if impl = r then r else d
    end
  end else model

let kind_of_codes (ps : pair list) : string =
  if ps = [] then "empty"
  else if List.exists (fun p -> p.sym) ps then "symbol"
  else if List.exists (fun p -> p.code > 0xFFFF) ps then "astral"
  else if List.for_all (fun p -> match is_macroman (z_of_int p.code) with true -> true | false -> false) ps then "macroman"
  else "bmp"

let out_format (out : string) : string =
  (* format word of the only sub-table: bytes 12,13 of the cmap table *)
  if starts_with "ok:" out && String.length out >= 3 + 28 then "fmt" ^ string_of_int (int_of_string ("0x" ^ String.sub out (3 + 24) 4))
  else if starts_with "ok:" out then "ok"
  else (match split_on ';' out with x :: _ -> x | [] -> out)

let tag (input : string) (out : string) : string =
  let out = pick "" out in
  match split_on '|' input with
  | ["B"; plane; pairs] ->
    let ps = parse_pairs pairs in
    let n = List.length ps in
    Printf.sprintf "B/plane%s/%s/%s/%s" plane (kind_of_codes ps)
      (if n = 0 then "0" else if n <= 4 then "1-4" else if n <= 40 then "5-40" else if n <= 1000 then "41-1000" else ">1000")
      (out_format out)
  | "K" :: _ -> "K/" ^ (if starts_with "ok:" out then "plane" ^ String.sub out 3 1 else out)
  | ["E"; h; _; _; target; ids; _] ->
    let src = (match selected (bytes_of_hex h) with
        | Some (enc, st) -> enc_name enc ^ (match st with F0 _ -> "-f0" | F2 _ -> "-f2" | F4 _ -> "-f4" | F6 _ -> "-f6" | F10 _ -> "-f10" | F12 _ -> "-f12")
        | None -> "unreadable") in
    Printf.sprintf "E/%s/%s/%s/%s" src target (if List.length (csv ids) > 256 then ">256ids" else "<=256ids")
      (if starts_with "ok:" out then out_format out ^ "/" ^ field "enc" out else out)
  | _ -> "?"

(* ---- B: the written table must map every code of M to its glyph and everything else to 0 ---- *)

let judge_b (input : string) (impl : string) (model : string) : verdict =
  if impl = "p" then
    (if model = "p" then Agree   (* a precondition of the hook is violated (documented), both panic *)
     else Violation ("panic", "EncodingRecord::from_mappings / Cmap::write panicked, model: " ^ String.sub model 0 (min 60 (String.length model))))
  else if not (starts_with "ok:" impl) then
    (if impl = model then Agree
     else if starts_with "ok:" model then Mismatch (Printf.sprintf "implementation refused (%s), the model builds a table" impl)
     else Mismatch (Printf.sprintf "implementation %s, model %s" impl model))
  else begin
    let (plane, ps) = match split_on '|' input with
      | [_; plane; pairs] -> (int_of_string plane, btree (parse_pairs pairs)) | _ -> (0, []) in
    let bytes = bytes_of_hex (after "ok:" impl) in
    match selected bytes with
    | None -> Violation ("build", "the written cmap table cannot be read back")
    | Some (enc, st) ->
      (* the code under which a character is stored in the output encoding *)
      let out_code (p : pair) : int option =
        match enc with
        | EAppleRoman -> (match char_to_macroman (z_of_int p.code) with Some b -> Some (z_to_int b) | None -> None)
        | _ -> Some p.code in
      let sorted_codes = List.for_all (fun p -> p.sym) ps || List.for_all (fun p -> not p.sym) ps in
      let fits = List.for_all (fun p -> match enc with
          | EAppleRoman -> true
          | _ -> (match st with F4 _ -> p.code <= 0xFFFF | _ -> true)) ps in
      (* list lookups in the reader model are linear in the index: sample big tables *)
      let total = List.length ps in
      let ps_checked = if total <= 1500 then ps
        else List.filteri (fun i _ -> i < 150 || i >= total - 150 || i mod (total / 300) = 0) ps in
      let bad = ref None in
      let expect = Hashtbl.create 64 in
      List.iter (fun p -> match out_code p with Some c -> Hashtbl.replace expect c p.gid | None -> ()) ps;
      List.iter (fun p ->
          if !bad = None then
            match out_code p with
            | None -> bad := Some (Printf.sprintf "character %d has no code in the output encoding" p.code)
            | Some c ->
              let g = glyph st c in
              if g <> p.gid then bad := Some (Printf.sprintf "code %d maps to glyph %d, kept mapping says %d" c g p.gid)) ps_checked;
      (* everything else is glyph 0: the enumeration of the output only contains kept pairs *)
      (if !bad = None && total <= 1500 then
         let (pairs, _) = mappings st in
         List.iter (fun (c, g) ->
             if !bad = None && z_to_int g <> 0 then begin
               let c = z_to_int c and g = z_to_int g in
               match Hashtbl.find_opt expect c with
               | Some g' when g' = g -> ()
               | _ -> bad := Some (Printf.sprintf "code %d maps to glyph %d but is not a kept mapping" c g)
             end) pairs);
      match !bad with
      | Some why ->
        if sorted_codes && fits && plane >= 1 then Violation ("build", why)
        else if impl = model then Agree   (* codes beyond the format / mixed kinds: only reachable through the hook *)
        else Mismatch ("hook precondition violated (mixed kinds or codes beyond the format): " ^ why)
      | None -> if impl = model then Agree else Mismatch "written bytes differ from the model's (same mapping)"
  end

(* ---- K ---- *)

let judge_k (_input : string) (impl : string) (model : string) : verdict =
  if model = "big5" then Agree
  else if impl = "p" then Violation ("panic", "MappingsToKeep::new panicked, model: " ^ String.sub model 0 (min 60 (String.length model)))
  else if impl = model then Agree
  else if starts_with "ok:" impl && starts_with "ok:" model then
    Violation ("keep", "kept mappings differ from the specified selection")
  else Mismatch (Printf.sprintf "implementation %s, model %s" (String.sub impl 0 (min 40 (String.length impl))) (String.sub model 0 (min 40 (String.length model))))

(* ---- E: cmap_agrees, independent of the subsetting model ---- *)

let index_of (x : int) (l : int list) : int option =
  let rec go i = function [] -> None | y :: t -> if y = x then Some i else go (i + 1) t in go 0 l

(* the Font-level fields the harness appends: (character, source glyph, subset glyph) *)
let font_level (impl : string) : (int * int * int) list option =
  match field "fl" impl with
  | "" -> Some []
  | "-" -> Some []
  | s ->
    (try Some (List.map (fun t -> match split_on ':' t with
         | [u; sg; og] -> (int_of_string u, int_of_string sg, int_of_string og)
         | _ -> failwith "fl") (csv s))
     with _ -> None)

(* the implementation's result without the Font-level fields (the model has none) *)
let strip_font_level (impl : string) : string =
  String.concat ";" (List.filter (fun f -> not (starts_with "fl=" f) && not (starts_with "nrt=" f)) (split_on ';' impl))

(* cmap_agrees at the Font level: Font::lookup_glyph_index of the subset font against
   Font::lookup_glyph_index of the source font, for every character the harness examined.
   Independent of the subsetting model AND of the cmap reader model; the only way a Big5 source is judged
   (the Big5 code of a character comes from allsorts::big5 / encoding_rs). *)
let judge_font_level (impl : string) (enc_o : encoding) (target : string) (idl : int list) : string option =
  match font_level impl with
  | None -> Some ("Font level: " ^ field "fl" impl)
  | Some l ->
    let bad = ref None in
    List.iter (fun (u, sg, og) ->
        if !bad = None then begin
          let mac = (match is_macroman (z_of_int u) with true -> true | false -> false) in
          (* a Mac Roman byte table is reached through char_to_macroman; other characters fall into Font's legacy
             symbol path (docs: judged at the sub-table level) *)
          let judged = (match enc_o with EAppleRoman -> mac | ESymbol -> false | _ -> true) in
          if judged then begin
            let e = if sg = 0 || (target = "m" && not mac) then 0
              else (match index_of sg idl with Some i -> i | None -> 0) in
            if og <> e then
              bad := Some (Printf.sprintf "Font level: U+%04X maps to glyph %d in the subset font, the source font maps it to glyph %d = new glyph %d" u og sg e)
          end
        end) l;
    !bad

let judge_e (input : string) (impl : string) (model : string) : verdict =
  match split_on '|' input with
  | [_; _; _; _; target; ids; _] when model = "big5" ->
    (* Big5 source: not modelled, judged at the Font level only *)
    if impl = "p" then Violation ("panic", "subset panicked (Big5 source)")
    else if starts_with "readback:" impl then Violation ("readback", "the output font's cmap cannot be read by allsorts: " ^ impl)
    else if not (starts_with "ok:" impl) then Agree
    else begin
      let out_hex = List.hd (split_on ';' (after "ok:" impl)) in
      match selected (bytes_of_hex out_hex) with
      | None -> Violation ("readback", "the output cmap cannot be read by the C06 model")
      | Some (enc_o, _) ->
        if field "fl" impl = "" then Mismatch "Big5 source without Font-level lookups"
        else (match judge_font_level impl enc_o target (List.map int_of_string (csv ids)) with
            | Some why ->
              if field "nrt" impl <> "0" then Violation ("big5-alias", "source maps Big5 codes that are not the code of their character; " ^ why)
              else Violation ("cmap_agrees", why)
            | None -> Agree)
    end
  | [_; h; os2; _n; target; ids; probes] ->
    let impl_full = impl in
    let impl = strip_font_level impl in
    if impl = "p" then Violation ("panic", "subset panicked, model: " ^ String.sub model 0 (min 60 (String.length model)))
    else if starts_with "readback:" impl then Violation ("readback", "the output font's cmap cannot be read by allsorts: " ^ impl)
    else if not (starts_with "ok:" impl) then
      (if impl = model then Agree
       else if starts_with "ok:" model then Mismatch (Printf.sprintf "subset failed (%s), the model produces a cmap" impl)
       else Mismatch (Printf.sprintf "implementation %s, model %s" impl (String.sub model 0 (min 40 (String.length model)))))
    else begin
      let src = bytes_of_hex h in
      let idl = List.map int_of_string (csv ids) in
      let out_hex = List.hd (split_on ';' (after "ok:" impl)) in
      match selected src, selected (bytes_of_hex out_hex) with
      | None, _ -> Mismatch "source cmap unreadable by the model but subset succeeded"
      | _, None -> Violation ("readback", "the output cmap cannot be read by the C06 model")
      | Some (enc_s, st_s), Some (enc_o, st_o) ->
        let first = if os2 = "-" || os2 = "x" then None else Some (z_of_string os2) in
        (* the source font's glyph for the character that output code p stands for *)
        let source_glyph (p : int) : int =
          (* the character of output code p *)
          let ch = match enc_o with
            | EAppleRoman -> (if p < 256 then match macroman_to_char (z_of_int p) with Some u -> Some (`U (z_to_int u)) | None -> None else None)
            | ESymbol -> Some (`S p)
            | _ -> if is_scalar p then Some (`U p) else None in
          match ch with
          | None -> 0
          | Some (`S c) -> (match enc_s with ESymbol -> glyph_src st_s c | _ -> 0)
          | Some (`U u) ->
            if target = "m" && not (is_macroman (z_of_int u)) then 0
            else (match enc_s with
                | EUnicode -> glyph_src st_s u
                | EAppleRoman -> (match char_to_macroman (z_of_int u) with Some b -> glyph_src st_s (z_to_int b) | None -> 0)
                | ESymbol ->
                  (* a Unicode character reaches a symbol sub-table through Font::legacy_symbol_char_code *)
                  (match legacy_symbol_char_code first (z_of_int u) with
                   | Some c -> glyph_src st_s (z_to_int c)
                   | None -> 0)
                | EBig5 -> 0) in
        let expected (p : int) : int =
          let g = source_glyph p in
          if g = 0 then 0 else match index_of g idl with Some i -> i | None -> 0 in
        let dup_source = lazy (
          let (pairs, _) = mappings st_s in
          let seen = Hashtbl.create 64 in
          List.exists (fun (c, _) -> let c = z_to_int c in if Hashtbl.mem seen c then true else (Hashtbl.add seen c (); false)) pairs) in
        let bad = ref None in
        let check who p g =
          if !bad = None then begin
            let e = expected p in
            if g <> e then bad := Some (Printf.sprintf "%s: output code %d maps to glyph %d, the source font maps that character to new glyph %d" who p g e)
          end in
        let pl = List.map int_of_string (csv probes) in
        (* 1. allsorts' own reader on the output *)
        (try List.iter2 (fun p g -> check "allsorts reader" p (int_of_string g)) pl (csv (field "g" impl))
         with _ -> bad := Some "probe count");
        (* 2. the C06 model on the output: probes, and every pair the output enumerates *)
        List.iter (fun p -> check "C06 model" p (glyph st_o p)) pl;
        (let (pairs, _) = mappings st_o in
         List.iter (fun (c, g) -> if z_to_int g <> 0 then check "output enumeration" (z_to_int c) (z_to_int g)) pairs);
        (* 3. every kept source character is present: enumerate the source *)
        (if !bad = None then begin
            let (pairs, _) = mappings st_s in
            List.iter (fun (c, g) ->
                let c = z_to_int c and g = z_to_int g in
                if !bad = None && g <> 0 && List.mem g idl then begin
                  (* the output code of source code c *)
                  let u = match enc_s with
                    | EUnicode -> if is_scalar c then Some (`U c) else None
                    | EAppleRoman -> (if c < 256 then match macroman_to_char (z_of_int c) with Some u -> Some (`U (z_to_int u)) | None -> None else None)
                    | ESymbol -> if target = "m" then None else Some (`S c)
                    | EBig5 -> None in
                  let oc = match u, enc_o with
                    | Some (`U u), EAppleRoman -> (match char_to_macroman (z_of_int u) with Some b -> Some (z_to_int b) | None -> None)
                    | Some (`U u), (EUnicode | EBig5) -> if target = "m" && not (is_macroman (z_of_int u)) then None else Some u
                    | Some (`S c), ESymbol -> Some c
                    | _ -> None in
                  match oc with
                  | Some p -> check "kept character" p (glyph st_o p)
                  | None -> ()
                end) pairs
          end);
        (* 4. Mac Roman target: every Mac Roman character, kept or not *)
        (if !bad = None && target = "m" then
           for b = 0 to 255 do
             match macroman_to_char (z_of_int b) with
             | Some u ->
               let p = (match enc_o with EAppleRoman -> b | _ -> z_to_int u) in
               check "Mac Roman sweep" p (glyph st_o p)
             | None -> ()
           done);
        (* 5. Font::lookup_glyph_index of both fonts (Unicode sources; the harness sends nothing for others) *)
        (if !bad = None && enc_s = EUnicode then bad := judge_font_level impl_full enc_o target idl);
        match !bad with
        | Some why ->
          if Lazy.force dup_source then Violation ("dup-source", "source sub-table enumerates a code twice; " ^ why)
          else if enc_s = ESymbol && target = "m" then Violation ("symbol-inverse", why)
          else Violation ("cmap_agrees", why)
        | None ->
          if impl = model then Agree
          else if List.hd (split_on ';' impl) = List.hd (split_on ';' model) then Mismatch "read-back lookups differ between implementation and model"
          else Mismatch "output cmap bytes differ from the model's (the mapping is the specified one)"
    end
  | _ -> Mismatch "bad E line"

let judge (input : string) (impl : string) (model : string) : verdict =
  if starts_with "MODEL-EXN" model then Mismatch model
  else begin
    let model = pick impl model in
    match input.[0] with
    | 'B' -> judge_b input impl model
    | 'K' -> judge_k input impl model
    | 'E' -> judge_e input impl model
    | _ -> Mismatch "unknown case kind"
  end
