(* conversions between OCaml ints/strings and the extracted Coq numbers; line helpers *)
open Model

let rec pos_of_int (n : int) : positive =
  if n <= 1 then XH
  else if n land 1 = 0 then XO (pos_of_int (n lsr 1))
  else XI (pos_of_int (n lsr 1))

let z_of_int (n : int) : z =
  if n = 0 then Z0 else if n > 0 then Zpos (pos_of_int n) else Zneg (pos_of_int (-n))

(* returns None when the value does not fit in 62 bits *)
let rec pos_to_int_opt (p : positive) (depth : int) : int option =
  if depth > 61 then None else
  match p with
  | XH -> Some 1
  | XO q -> (match pos_to_int_opt q (depth + 1) with Some v -> Some (2 * v) | None -> None)
  | XI q -> (match pos_to_int_opt q (depth + 1) with Some v -> Some (2 * v + 1) | None -> None)

let z_to_int_opt (v : z) : int option =
  match v with
  | Z0 -> Some 0
  | Zpos p -> pos_to_int_opt p 0
  | Zneg p -> (match pos_to_int_opt p 0 with Some v -> Some (-v) | None -> None)

let z_to_int (v : z) : int =
  match z_to_int_opt v with Some i -> i | None -> failwith "z_to_int: too large"

let ten = z_of_int 10

let rec z_to_string (v : z) : string =
  match z_to_int_opt v with
  | Some i -> string_of_int i
  | None ->
    (match v with
     | Zneg p -> "-" ^ z_to_string (Zpos p)
     | _ ->
       let (q, r) = z_div_eucl v ten in
       z_to_string q ^ string_of_int (z_to_int r))

let z_of_string (s : string) : z =
  let neg = String.length s > 0 && s.[0] = '-' in
  let body = if neg then String.sub s 1 (String.length s - 1) else s in
  let v =
    if String.length body <= 17 then z_of_int (int_of_string body)
    else begin
      let acc = ref Z0 in
      String.iter (fun c -> acc := z_add (z_mul !acc ten) (z_of_int (Char.code c - 48))) body;
      !acc
    end in
  if neg then z_opp v else v

let bytes_of_hex (s : string) : z list =
  if s = "-" then [] else begin
    let n = String.length s / 2 in
    List.init n (fun i -> z_of_int (int_of_string ("0x" ^ String.sub s (2 * i) 2)))
  end

let hex_of_bytes (l : z list) : string =
  if l = [] then "-" else String.concat "" (List.map (fun b -> Printf.sprintf "%02x" (z_to_int b)) l)

let zlist_to_string (l : z list) : string = String.concat "," (List.map z_to_string l)
let zlist_of_string (s : string) : z list =
  if s = "" || s = "-" then [] else List.map z_of_string (String.split_on_char ',' s)

let err_to_string (e : err) : string =
  match e with
  | Eof -> "Eof" | BadOffset -> "BadOffset" | BadValue -> "BadValue" | BadIndex -> "BadIndex"
  | BadVersion -> "BadVersion" | MissingValue -> "MissingValue" | LimitExceeded -> "LimitExceeded"
  | MissingTable -> "MissingTable" | CompressionError -> "CompressionError"
  | UnsuitableCmap -> "UnsuitableCmap" | NotImplemented -> "NotImplemented" | OtherErr -> "OtherErr"

let outcome_to_string (f : 'a -> string) (o : 'a outcome) : string =
  match o with
  | Ok a -> "ok:" ^ f a
  | Err e -> "err:" ^ err_to_string e
  | Panic -> "panic"
  | OOB -> "oob"

let split_on (c : char) (s : string) : string list = String.split_on_char c s
