(* C06: run the extracted cmap model on one case line and judge the implementation's output.
   Line formats: see harness/src/bin/c06.rs.
     S|<subtable hex>|<codes>   =>  parse:e<E> | fmtK;m=<r,..>;o=<r,..>|-;e=<status>:<rle pairs>
     F|<cmap hex>|<os2>|<chars> =>  sel=<..>;new:e<E> | sel=<..>;enc=<E>;g=<g,..>
     M|<bytes>|<chars>          =>  b=<c/b',..>;c=<b/c',..>
   r = s<g> (Some g) | n (None) | e<E> (Err E) | p (panic) *)
open Model
open Zconv
open Verdict

let list_of (s : string) : z list =
  if s = "" || s = "-" then [] else List.map z_of_string (split_on ',' s)

let res_str (r : z option outcome) : string =
  match r with
  | Ok (Some g) -> "s" ^ z_to_string g
  | Ok None -> "n"
  | Err e -> "e" ^ err_to_string e
  | Panic -> "p"
  | OOB -> "oob"

let status_str (r : unit outcome) : string =
  match r with Ok _ -> "ok" | Err e -> "e" ^ err_to_string e | Panic -> "p" | OOB -> "oob"

let rle (raw : (int * int) array) : string =
  let out = Buffer.create 256 in
  let len = Array.length raw in
  let i = ref 0 in
  while !i < len do
    let (c, g) = raw.(!i) in
    let n = ref 1 in
    while !i + !n < len && (let (c2, g2) = raw.(!i + !n) in c2 = c + !n && g2 = g + !n) do incr n done;
    if Buffer.length out > 0 then Buffer.add_char out ' ';
    if !n = 1 then Buffer.add_string out (Printf.sprintf "%d:%d" c g)
    else Buffer.add_string out (Printf.sprintf "%d:%d*%d" c g !n);
    i := !i + !n
  done;
  Buffer.contents out

let fmt_name = function
  | F0 _ -> "fmt0" | F2 _ -> "fmt2" | F4 _ -> "fmt4" | F6 _ -> "fmt6" | F10 _ -> "fmt10" | F12 _ -> "fmt12"

let enc_name = function
  | EUnicode -> "Unicode" | ESymbol -> "Symbol" | EAppleRoman -> "AppleRoman" | EBig5 -> "Big5"

let run_s (h : string) (p : string) : string =
  match parse (bytes_of_hex h) with
  | Err e -> "parse:e" ^ err_to_string e
  | Panic -> "parse:p"
  | OOB -> "parse:oob"
  | Ok st ->
    let probes = list_of p in
    let m = String.concat "," (List.map (fun ch -> res_str (map_glyph st ch)) probes) in
    let o = match st with
      | F2 _ -> "-"
      | _ -> String.concat "," (List.map (fun ch -> res_str (owned_map_glyph st ch)) probes) in
    let (pairs, status) = mappings st in
    let raw = Array.of_list (List.map (fun (c, g) -> (z_to_int c, z_to_int g)) pairs) in
    Printf.sprintf "%s;m=%s;o=%s;e=%s:%s" (fmt_name st) m o (status_str status) (rle raw)

let run_f (h : string) (os2 : string) (p : string) : string =
  let cmap = bytes_of_hex h in
  let sel = match parse_cmap cmap with
    | Err e -> "e" ^ err_to_string e
    | Panic -> "p" | OOB -> "oob"
    | Ok recs ->
      (match find_good_cmap_subtable recs with
       | None -> "none"
       | Some (enc, r) -> enc_name enc ^ "@" ^ z_to_string r.er_offset) in
  match charmap_info cmap with
  | Err e -> Printf.sprintf "sel=%s;new:e%s" sel (err_to_string e)
  | Panic -> Printf.sprintf "sel=%s;new:p" sel
  | OOB -> Printf.sprintf "sel=%s;new:oob" sel
  | Ok (enc, _) ->
    let first = if os2 = "-" || os2 = "x" then None else Some (z_of_string os2) in
    let g = List.map (fun ch ->
        match font_lookup cmap first ch with
        | Ok g -> z_to_string g
        | Err NotImplemented -> "big5"
        | Err e -> "e" ^ err_to_string e
        | Panic -> "p" | OOB -> "oob") (list_of p) in
    Printf.sprintf "sel=%s;enc=%s;g=%s" sel (enc_name enc) (String.concat "," g)

let opt_str = function Some v -> z_to_string v | None -> "n"

let run_m (b : string) (c : string) : string =
  let fb = List.map (fun b ->
      match macroman_to_char b with
      | None -> "n/-"
      | Some c -> z_to_string c ^ "/" ^ opt_str (char_to_macroman c)) (list_of b) in
  let fc = List.map (fun c ->
      match char_to_macroman c with
      | None -> "n/-"
      | Some b -> z_to_string b ^ "/" ^ opt_str (macroman_to_char b)) (list_of c) in
  Printf.sprintf "b=%s;c=%s" (String.concat "," fb) (String.concat "," fc)

let run (input : string) : string =
  match split_on '|' input with
  | ["S"; h; p] -> run_s h p
  | ["F"; h; os2; p] -> run_f h os2 p
  | ["M"; b; c] -> run_m b c
  | ["B"; _; _; _] -> "n/a"      (* encoding_rs' Big5 index is not modelled: the sweep is judged on its own *)
  | _ -> failwith "c06 input"

(* ---------------------------------------------------------------------------------------------- *)

let field (name : string) (out : string) : string option =
  let pre = name ^ "=" in
  let rec go = function
    | [] -> None
    | f :: t -> if starts_with pre f then Some (String.sub f (String.length pre) (String.length f - String.length pre)) else go t in
  go (split_on ';' out)

let csv (s : string) : string list = if s = "" then [] else split_on ',' s

(* class of a case for the histogram: kind + format/encoding + whether anything was mapped *)
let tag (input : string) (out : string) : string =
  match input.[0] with
  | 'S' ->
    if starts_with "parse:" out then "S/" ^ out
    else
      let f = List.hd (split_on ';' out) in
      let m = match field "m" out with Some s -> csv s | None -> [] in
      let some = List.exists (fun r -> starts_with "s" r && r <> "s0") m
      and err = List.exists (fun r -> starts_with "e" r) m in
      let e = match field "e" out with Some s -> List.hd (split_on ':' s) | None -> "?" in
      Printf.sprintf "S/%s/%s%s/enum-%s" f (if some then "hit" else "nohit") (if err then "+err" else "") e
  | 'F' ->
    (match field "enc" out with
     | Some e -> "F/" ^ e
     | None -> "F/" ^ (match List.rev (split_on ';' out) with x :: _ -> x | [] -> "?"))
  | 'B' -> "B/big5-sweep"
  | _ -> "M"

(* glyph a Font would report for a lookup result: errors and None are the missing glyph *)
let effective (r : string) : string =
  if starts_with "s" r then String.sub r 1 (String.length r - 1) else if r = "p" then "p" else "0"

let compare_lookups (cls : string) (probes : string list) (impl : string list) (model : string list) : verdict option =
  if List.length impl <> List.length model then Some (Mismatch (cls ^ ": different number of results"))
  else begin
    let res = ref None and soft = ref None in
    List.iteri (fun k (a, b) ->
        if !res = None && a <> b then begin
          let code = try List.nth probes k with _ -> "?" in
          if a = "p" then res := Some (Violation ("panic", Printf.sprintf "%s of code %s panicked (specified: %s)" cls code b))
          else if effective a <> effective b then
            res := Some (Violation (cls, Printf.sprintf "code %s maps to %s, specified %s" code a b))
          else if !soft = None then
            soft := Some (Mismatch (Printf.sprintf "%s of code %s: implementation %s, model %s (same glyph)" cls code a b))
        end) (List.combine impl model);
    match !res with Some v -> Some v | None -> !soft
  end

(* expand an rle pair list into a sorted list of (code, glyph) *)
let expand (s : string) : (int * int) list =
  let items = if s = "" then [] else split_on ' ' s in
  List.concat_map (fun it ->
      match split_on ':' it with
      | [c; rest] ->
        (match split_on '*' rest with
         | [g] -> [ (int_of_string c, int_of_string g) ]
         | [g; n] -> let c = int_of_string c and g = int_of_string g in
           List.init (int_of_string n) (fun k -> (c + k, g + k))
         | _ -> failwith "rle")
      | _ -> failwith "rle") items

let split_first (c : char) (s : string) : string * string =
  match String.index_opt s c with
  | Some i -> (String.sub s 0 i, String.sub s (i + 1) (String.length s - i - 1))
  | None -> (s, "")

let judge_s (input : string) (impl : string) (model : string) : verdict =
  let probes = match split_on '|' input with [_; _; p] -> csv (if p = "-" then "" else p) | _ -> [] in
  if starts_with "parse:" impl || starts_with "parse:" model then begin
    if impl = "parse:p" then Violation ("panic", "CmapSubtable::read panicked")
    else if starts_with "parse:" impl && starts_with "parse:" model then
      Mismatch (Printf.sprintf "parse error differs: implementation %s, model %s" impl model)
    else if starts_with "parse:" impl then begin
      (* implementation rejects a sub-table the model accepts: every lookup becomes glyph 0 *)
      let m = match field "m" model with Some s -> csv s | None -> [] in
      if List.exists (fun r -> effective r <> "0") m
      then Violation ("parse", Printf.sprintf "sub-table rejected (%s) although it maps probed codes to glyphs" impl)
      else Mismatch (Printf.sprintf "sub-table rejected (%s), model parses it" impl)
    end else begin
      let m = match field "m" impl with Some s -> csv s | None -> [] in
      if List.exists (fun r -> effective r <> "0") m
      then Violation ("parse", Printf.sprintf "malformed sub-table accepted and mapped (model: %s)" model)
      else Mismatch (Printf.sprintf "sub-table accepted, model rejects it (%s)" model)
    end
  end else begin
    let get n s = match field n s with Some v -> v | None -> "" in
    let fi = List.hd (split_on ';' impl) and fm = List.hd (split_on ';' model) in
    if fi <> fm then Mismatch "format differs" else
    match compare_lookups "map_glyph" probes (csv (get "m" impl)) (csv (get "m" model)) with
    | Some (Violation _ as v) -> v
    | r1 ->
      let oi = get "o" impl and om = get "o" model in
      let r2 =
        if oi = "p" then Some (Violation ("panic", "to_owned panicked"))
        else if oi = "-" || om = "-" then (if oi = om then None else Some (Mismatch "to_owned availability differs"))
        else compare_lookups "owned-map_glyph" probes (csv oi) (csv om) in
      (match r2 with
       | Some (Violation _ as v) -> v
       | _ ->
         let (si, li) = split_first ':' (get "e" impl) and (sm, lm) = split_first ':' (get "e" model) in
         let r3 =
           if si = "p" then Some (Violation ("panic", Printf.sprintf "mappings_fn panicked (specified: %s)" sm))
           else if li = lm && si = sm then None
           else begin
             let a = expand li and b = expand lm in
             if List.sort compare a <> List.sort compare b then begin
               let sb = Hashtbl.create 64 in
               List.iter (fun x -> Hashtbl.replace sb x ()) b;
               let extra = List.filter (fun x -> not (Hashtbl.mem sb x)) a in
               let sa = Hashtbl.create 64 in
               List.iter (fun x -> Hashtbl.replace sa x ()) a;
               let missing = List.filter (fun x -> not (Hashtbl.mem sa x)) b in
               let show = function (c, g) :: _ -> Printf.sprintf "(%d,%d)" c g | [] -> "-" in
               Some (Violation ("mappings", Printf.sprintf
                                  "enumeration differs from the single lookups: %d pairs not specified (first %s), %d specified pairs missing (first %s)"
                                  (List.length extra) (show extra) (List.length missing) (show missing)))
             end
             else if a <> b then Some (Mismatch "mappings_fn enumerates the same pairs in a different order")
             else Some (Mismatch (Printf.sprintf "mappings_fn status differs: implementation %s, model %s" si sm))
           end in
         (match r3, r1, r2 with
          | Some (Violation _ as v), _, _ -> v
          | _, Some m, _ -> m
          | _, _, Some m -> m
          | Some m, _, _ -> m
          | None, None, None -> Agree))
  end

let judge_f (input : string) (impl : string) (model : string) : verdict =
  let probes = match split_on '|' input with [_; _; _; p] -> csv (if p = "-" then "" else p) | _ -> [] in
  let get n s = match field n s with Some v -> v | None -> "" in
  (* the selection is judged against the documented preference list (Model/CmapSpec.v), not only
     against the cascade regenerated from font.rs *)
  let spec_sel =
    match split_on '|' input with
    | [_; h; _; _] ->
      (match parse_cmap (bytes_of_hex h) with
       | Ok recs ->
         (match spec_find_good recs with
          | None -> "none"
          | Some (enc, r) -> enc_name enc ^ "@" ^ z_to_string r.er_offset)
       | _ -> get "sel" model)
    | _ -> get "sel" model in
  if get "sel" impl = "p" then Violation ("panic", "Cmap::read / find_good_cmap_subtable panicked")
  else if get "sel" impl <> spec_sel && not (starts_with "e" (get "sel" impl)) then
    Violation ("selection", Printf.sprintf "selected sub-table %s, the documented preference order selects %s" (get "sel" impl) spec_sel)
  else if get "sel" impl <> get "sel" model then
    Violation ("selection", Printf.sprintf "selected sub-table %s, specified %s" (get "sel" impl) (get "sel" model))
  else begin
    let last s = match List.rev (split_on ';' s) with x :: _ -> x | [] -> "" in
    let ni = starts_with "new:" (last impl) and nm = starts_with "new:" (last model) in
    if ni || nm then begin
      if last impl = "new:p" then Violation ("panic", "Font::new panicked")
      else if last impl = last model then Agree
      else Mismatch (Printf.sprintf "Font::new: implementation %s, model %s" (last impl) (last model))
    end
    else if get "enc" impl <> get "enc" model then
      Violation ("selection", Printf.sprintf "encoding %s, specified %s" (get "enc" impl) (get "enc" model))
    else begin
      let gi = csv (get "g" impl) and gm = csv (get "g" model) in
      if List.length gi <> List.length gm then Mismatch "different number of glyphs" else begin
        let res = ref Agree in
        List.iteri (fun k (a, b) ->
            if !res = Agree && a <> b && b <> "big5" then begin
              let code = try List.nth probes k with _ -> "?" in
              if a = "p" then res := Violation ("panic", Printf.sprintf "lookup_glyph_index(U+%04X) panicked (specified glyph %s)" (int_of_string code) b)
              else res := Violation ("font-lookup", Printf.sprintf "U+%04X maps to glyph %s, specified %s" (int_of_string code) a b)
            end) (List.combine gi gm);
        !res
      end
    end
  end

(* the round trips are judged on the implementation's own output; the model only ties the tables *)
let judge_m (input : string) (impl : string) (model : string) : verdict =
  let (bs, cs) = match split_on '|' input with [_; b; c] -> (csv (if b = "-" then "" else b), csv (if c = "-" then "" else c)) | _ -> ([], []) in
  let get n s = match field n s with Some v -> v | None -> "" in
  let check what keys items =
    let res = ref None in
    (try
       List.iteri (fun k it ->
           if !res = None then begin
             let key = List.nth keys k in
             if it = "p" then res := Some (Violation ("panic", what ^ " panicked on " ^ key))
             else match split_on '/' it with
               | [v; back] -> if v <> "n" && back <> key then
                   res := Some (Violation ("macroman", Printf.sprintf "%s: %s -> %s -> %s is not the identity" what key v back))
               | _ -> ()
           end) items
     with _ -> res := Some (Mismatch "malformed M output"));
    !res in
  (* coverage against Apple's table (Model/MacRomanRef.v): a byte without a character, or a
     character of the table without a byte, is a conformance gap (known finding C06-macroman-coverage) *)
  let coverage () =
    let res = ref None in
    (try
       List.iteri (fun k it ->
           if !res = None && it = "n/-" then begin
             let b = int_of_string (List.nth bs k) in
             if b >= 0 && b < 256 then
               res := Some (Violation ("macroman-coverage", Printf.sprintf
                                         "byte %d is U+%04X in Mac OS Roman but macroman_to_char returns None" b
                                         (z_to_int (macroman_ref (z_of_int b)))))
           end) (csv (get "b" impl));
       List.iteri (fun k it ->
           if !res = None && it = "n/-" then begin
             let c = int_of_string (List.nth cs k) in
             let hit = ref (-1) in
             for b = 128 to 255 do if z_to_int (macroman_ref (z_of_int b)) = c then hit := b done;
             if !hit >= 0 then
               res := Some (Violation ("macroman-coverage", Printf.sprintf
                                         "U+%04X is byte %d in Mac OS Roman but char_to_macroman returns None" c !hit))
           end) (csv (get "c" impl))
     with _ -> ());
    !res in
  match check "macroman_to_char;char_to_macroman" bs (csv (get "b" impl)) with
  | Some v -> v
  | None ->
    match check "char_to_macroman;macroman_to_char" cs (csv (get "c" impl)) with
    | Some v -> v
    | None ->
      if impl <> model then Mismatch "Mac Roman tables differ from the translated tables"
      else match coverage () with Some v -> v | None -> Agree

let judge (input : string) (impl : string) (model : string) : verdict =
  if starts_with "MODEL-EXN" model then Mismatch model
  else if input.[0] = 'B' then
    (* Big5: unicode_to_big5 and big5_to_unicode are mutual inverses wherever both are defined *)
    (match field "bad" impl, field "mapped" impl with
     | Some "", Some m -> if m = "0" && input = "B|c|0|1114112" then Violation ("big5", "no character maps to Big5 at all") else Agree
     | Some b, _ -> Violation ("big5", "Big5 conversions are not mutual inverses (value>there>back, hex): " ^ b)
     | _ -> if starts_with "p" impl then Violation ("panic", "a Big5 conversion panicked") else Mismatch ("unreadable Big5 report: " ^ impl))
  else if impl = model then
    (* identical to the model; M cases still get the round-trip check on the output itself *)
    (if input.[0] = 'M' then judge_m input impl model else Agree)
  else match input.[0] with
    | 'S' -> judge_s input impl model
    | 'F' -> judge_f input impl model
    | 'M' -> judge_m input impl model
    | _ -> Mismatch "unknown case kind"
