(* C05: run the extracted GPOS / glyph-position model on one case line and judge the implementation's result.

   input = M TREE   (M = d | r; TREE a parenthesised tree of integers, same conventions as C04: opt x = () | (x),
                     cov, classdef, gdef, scripts/features as in ocaml/c04/drv.ml)
     TREE    = ( gdef layout run glyphs )
     layout  = ( opt ((tag script) ...)  opt ((tag (li ...)) ...)  opt (lookup ...) )
     lookup  = ( ext flag opt mfs type (subtable ...) )                  GPOS lookup types 1-8
     value   = (xp yp xa ya)          anchor = (x y)
     subtable by type:
       1: (1 cov fmt value) | (2 cov fmt (value ...))
       2: (1 cov fmt1 fmt2 (((second value value) ...) ...)) | (2 cov fmt1 fmt2 cd1 cd2 class2count (((value value) ...) ...))
       3: (cov ((opt entry  opt exit) ...))
       4, 6: (markcov basecov classcount ((class anchor) ...) ((opt anchor ...) ...))
       5: (markcov ligcov classcount ((class anchor) ...) (((opt anchor ...) ...) ...))
       7: context, 8: chain context (formats as GSUB types 5 / 6)
     kern    = opt ((coverage (0 (l r v) ...)) | (coverage (2 lfirst (lv ...) rfirst (rv ...) (byte ...))) ...)
     run     = (0 script opt lang (tag ...) kerning kern dir (adv ...))      gpos::apply (Features::Custom) + glyph_positions
             | (1 ((kern placement) ...) dir (adv ...))                      glyph_positions on hand-made Infos
             | (2 kern (nsm ...) dir (adv ...))                             gpos::apply_fallback + glyph_positions
     placement = (0) | (1 dx dy) | (2 base bx by mx my) | (3 base) | (4 exit rtl ax ay bx by)
     glyphs  = ((id liga_component_pos ligature) ...)
   output = ok:K/P,K/P,...|pos:h.v.x.y,...   or   ok:...|poserr:E   |  err:E  |  panic *)
open Model
open Zconv
open Verdict

type t = I of z | L of t list

let parse_tree (s : string) (start : int) : t =
  let n = String.length s in
  let pos = ref start in
  let rec skip () = if !pos < n && s.[!pos] = ' ' then (incr pos; skip ()) in
  let rec item () : t =
    skip ();
    if !pos >= n then failwith "tree: eof";
    if s.[!pos] = '(' then begin
      incr pos;
      let acc = ref [] in
      let rec loop () =
        skip ();
        if !pos >= n then failwith "tree: unclosed";
        if s.[!pos] = ')' then incr pos else (acc := item () :: !acc; loop ()) in
      loop ();
      L (List.rev !acc)
    end else begin
      let b = !pos in
      while !pos < n && s.[!pos] <> ' ' && s.[!pos] <> '(' && s.[!pos] <> ')' do incr pos done;
      I (z_of_string (String.sub s b (!pos - b)))
    end in
  item ()

let int_ = function I z -> z | L _ -> failwith "expected int"
let list_ = function L l -> l | I _ -> failwith "expected list"
let ints t = List.map int_ (list_ t)
let opt f = function L [] -> None | L [x] -> Some (f x) | _ -> failwith "expected option"
let triple = function L [a; b; c] -> ((int_ a, int_ b), int_ c) | _ -> failwith "triple"
let pair = function L [a; b] -> (int_ a, int_ b) | _ -> failwith "pair"
let zi = z_to_int
let bool_ t = zi (int_ t) <> 0

let cov = function
  | L (I f :: rest) when zi f = 1 -> CovF1 (List.map int_ rest)
  | L (I f :: rest) when zi f = 2 -> CovF2 (List.map triple rest)
  | _ -> failwith "coverage"
let covs t = List.map cov (list_ t)
let classdef = function
  | L (I f :: I s :: rest) when zi f = 1 -> CdF1 (s, List.map int_ rest)
  | L (I f :: rest) when zi f = 2 -> CdF2 (List.map triple rest)
  | _ -> failwith "classdef"
let gdef_ t = opt (function
  | L [a; b; c] -> { gd_class = opt classdef a; gd_attach = opt classdef b; gd_sets = opt covs c }
  | _ -> failwith "gdef") t

let recs t = List.map pair (list_ t)
let rule = function L [i; r] -> { r_input = ints i; r_recs = recs r } | _ -> failwith "rule"
let crule = function
  | L [b; i; l; r] -> { cr_back = ints b; cr_input = ints i; cr_look = ints l; cr_recs = recs r }
  | _ -> failwith "crule"
let optrules f t = List.map (opt (fun x -> List.map f (list_ x))) (list_ t)

let value = function
  | L [a; b; c; d] -> { x_placement = int_ a; y_placement = int_ b; x_advance = int_ c; y_advance = int_ d }
  | _ -> failwith "value"
let anchor = pair
let optanchor t = opt anchor t
let marks t = List.map (function L [I c; a] -> (c, anchor a) | _ -> failwith "mark record") (list_ t)

let context_sub = function
  | L [I f; c; s] when zi f = 1 -> CtxF1 (cov c, optrules rule s)
  | L [I f; c; cd; s] when zi f = 2 -> CtxF2 (cov c, classdef cd, optrules rule s)
  | L [I f; cs; r] when zi f = 3 -> CtxF3 (covs cs, recs r)
  | _ -> failwith "context"
let chain_sub = function
  | L [I f; c; s] when zi f = 1 -> ChF1 (cov c, optrules crule s)
  | L [I f; c; b; i; l; s] when zi f = 2 -> ChF2 (cov c, classdef b, classdef i, classdef l, optrules crule s)
  | L [I f; b; i; l; r] when zi f = 3 -> ChF3 (covs b, covs i, covs l, recs r)
  | _ -> failwith "chain"

let mark_base = function
  | L [mc; bc; I n; ms; bs] ->
    { mb_mark_cov = cov mc; mb_base_cov = cov bc; mb_class_count = n; mb_marks = marks ms;
      mb_bases = List.map (fun r -> List.map optanchor (list_ r)) (list_ bs) }
  | _ -> failwith "markbase"

let body (ty : int) (subs : t list) : pos_lookup =
  match ty with
  | 1 -> LSinglePos (List.map (function
      | L [I f; c; I fmt; v] when zi f = 1 -> SinglePosF1 (cov c, fmt, value v)
      | L [I f; c; I fmt; vs] when zi f = 2 -> SinglePosF2 (cov c, fmt, List.map value (list_ vs))
      | _ -> failwith "singlepos") subs)
  | 2 -> LPairPos (List.map (function
      | L [I f; c; I f1; I f2; sets] when zi f = 1 ->
        PairPosF1 (cov c, f1, f2, List.map (fun set -> List.map (function
            | L [I s; v1; v2] -> { pv_second = s; pv_v1 = value v1; pv_v2 = value v2 }
            | _ -> failwith "pairvalue") (list_ set)) (list_ sets))
      | L [I f; c; I f1; I f2; cd1; cd2; I n2; rows] when zi f = 2 ->
        PairPosF2 (cov c, f1, f2, classdef cd1, classdef cd2, n2,
                   List.map (fun row -> List.map (function L [v1; v2] -> (value v1, value v2) | _ -> failwith "class2") (list_ row)) (list_ rows))
      | _ -> failwith "pairpos") subs)
  | 3 -> LCursivePos (List.map (function
      | L [c; rs] -> { cp_cov = cov c; cp_records = List.map (function L [en; ex] -> (optanchor en, optanchor ex) | _ -> failwith "entryexit") (list_ rs) }
      | _ -> failwith "cursive") subs)
  | 4 -> LMarkBasePos (List.map mark_base subs)
  | 5 -> LMarkLigPos (List.map (function
      | L [mc; lc; I n; ms; ls] ->
        { ml_mark_cov = cov mc; ml_lig_cov = cov lc; ml_class_count = n; ml_marks = marks ms;
          ml_ligs = List.map (fun att -> List.map (fun comp -> List.map optanchor (list_ comp)) (list_ att)) (list_ ls) }
      | _ -> failwith "marklig") subs)
  | 6 -> LMarkMarkPos (List.map mark_base subs)
  | 7 -> LContextPos (List.map context_sub subs)
  | 8 -> LChainContextPos (List.map chain_sub subs)
  | _ -> failwith "lookup type"

let lookup_ = function
  | L [_ext; I flag; mfs; I ty; L subs] -> { pl_flag = flag; pl_mfs = opt int_ mfs; pl_body = body (zi ty) subs }
  | _ -> failwith "lookup"

let script_ = function
  | L [d; l] -> (opt ints d, List.map (function L [I tg; ls] -> (tg, ints ls) | _ -> failwith "langsys rec") (list_ l))
  | _ -> failwith "script"

let layout_ = function
  | L [s; f; l] ->
    { pt_scripts = opt (fun x -> List.map (function L [I tg; sc] -> (tg, script_ sc) | _ -> failwith "script rec") (list_ x)) s;
      pt_features = opt (fun x -> List.map (function L [I tg; li] -> (tg, ints li) | _ -> failwith "feature") (list_ x)) f;
      pt_lookups = opt (fun x -> List.map lookup_ (list_ x)) l }
  | _ -> failwith "layout"

let kern_ t = opt (fun x -> List.map (function
    | L [I c; L (I f :: ps)] when zi f = 0 -> { k_coverage = c; k_data = KernF0 (List.map triple ps) }
    | L [I c; L [I f; I lf; lv; I rf; rv; arr]] when zi f = 2 -> { k_coverage = c; k_data = KernF2 (lf, ints lv, rf, ints rv, ints arr) }
    | _ -> failwith "kern subtable") (list_ x)) t

let placement_ = function
  | L [I k] when zi k = 0 -> PNone
  | L [I k; I dx; I dy] when zi k = 1 -> PDistance (dx, dy)
  | L [I k; I b; I bx; I by; I mx; I my] when zi k = 2 -> PMarkAnchor (b, (bx, by), (mx, my))
  | L [I k; I b] when zi k = 3 -> PMarkOverprint b
  | L [I k; I e; rtl; I ax; I ay; I bx; I by] when zi k = 4 -> PCursiveAnchor (e, bool_ rtl, (ax, ay), (bx, by))
  | _ -> failwith "placement"

let dir_ t = if zi (int_ t) = 0 then LeftToRight else RightToLeft

let placement_to_string = function
  | PNone -> "N"
  | PDistance (dx, dy) -> Printf.sprintf "D.%s.%s" (z_to_string dx) (z_to_string dy)
  | PMarkAnchor (b, (bx, by), (mx, my)) ->
    Printf.sprintf "M.%s.%s.%s.%s.%s" (z_to_string b) (z_to_string bx) (z_to_string by) (z_to_string mx) (z_to_string my)
  | PMarkOverprint b -> "O." ^ z_to_string b
  | PCursiveAnchor (e, rtl, (ax, ay), (bx, by)) ->
    Printf.sprintf "C.%s.%d.%s.%s.%s.%s" (z_to_string e) (if rtl then 1 else 0) (z_to_string ax) (z_to_string ay) (z_to_string bx) (z_to_string by)

let infos_to_string (l : info list) : string =
  String.concat "," (List.map (fun x -> z_to_string x.i_kern ^ "/" ^ placement_to_string x.i_place) l)

let positions_to_string (ps : gpos_pos list) : string =
  String.concat "," (List.map (fun p ->
      Printf.sprintf "%s.%s.%s.%s" (z_to_string p.hori_advance) (z_to_string p.vert_advance) (z_to_string p.x_offset) (z_to_string p.y_offset)) ps)

let finish (advs : z list) (dir : direction) (r : info list outcome) : string =
  match r with
  | Ok infos ->
    let head = "ok:" ^ infos_to_string infos in
    (match glyph_positions advs dir infos with
     | Ok ps -> head ^ "|pos:" ^ positions_to_string ps
     | Err e -> head ^ "|poserr:" ^ err_to_string e
     | Panic -> "panic"
     | OOB -> "oob")
  | Err e -> "err:" ^ err_to_string e
  | Panic -> "panic"
  | OOB -> "oob"

(* the leading letter (d | r) names the build profile of the harness binary; the model does not depend on it *)
let split_input (input : string) : unit * t = ((), parse_tree input 1)

let run (input : string) : string =
  let (_, tree) = split_input input in
  match tree with
  | L [gd; lay; run; gl] ->
    let gd = gdef_ gd in
    let infos = List.map (function
        | L [I id; I pos; lig] -> init_info gd id pos (bool_ lig)
        | _ -> failwith "glyph") (list_ gl) in
    (match run with
     | L [I k; I script; lang; feats; kerning; kern; dir; advs] when zi k = 0 ->
       let lay = playout_parse (layout_ lay) in
       finish (ints advs) (dir_ dir)
         (gpos_apply lay gd (kern_ kern) (bool_ kerning) (ints feats) script (opt int_ lang) infos)
     | L [I k; pls; dir; advs] when zi k = 1 ->
       let infos' = List.map2 (fun x p -> match p with
           | L [I kn; pl] -> { x with i_kern = kn; i_place = placement_ pl }
           | _ -> failwith "hand-made info") infos (list_ pls) in
       finish (ints advs) (dir_ dir) (Ok infos')
     | L [I k; kern; nsm; dir; advs] when zi k = 2 ->
       finish (ints advs) (dir_ dir) (apply_fallback (kern_ kern) (List.map bool_ (list_ nsm)) infos)
     | _ -> failwith "run")
  | _ -> failwith "c05 input"

(* histogram class: run kind (A<types of the lookups present>, P, F) / what happened *)
let tag (input : string) (out : string) : string =
  try
    let (_, tree) = split_input input in
    match tree with
    | L [_; L [_; _; lk]; L (I k :: _); _] ->
      let kind = (match zi k with 0 -> "A" | 1 -> "P" | _ -> "F") in
      ignore lk;
      let res =
        if starts_with "ok:" out then begin
          let b = String.sub out 3 (String.length out - 3) in
          let infos = (match String.index_opt b '|' with Some i -> String.sub b 0 i | None -> b) in
          let changed = List.exists (fun s -> s <> "0/N") (if infos = "" then [] else split_on ',' infos) in
          let perr = (try let i = String.index b '|' in starts_with "poserr" (String.sub b (i + 1) (String.length b - i - 1)) with Not_found -> false) in
          (if changed then "positioned" else "untouched") ^ (if perr then "+poserr" else "")
        end
        else if starts_with "err" out then "err" else out in
      kind ^ "/" ^ res
    | _ -> "?"
  with _ -> "?"

(* The model is proved to meet the declarative GPOS semantics (Props/C05.v); what the property observes is
   exactly what is printed: kerning, placement (variant and all fields) and the final positions. *)
(* ---- independent oracles evaluated on the IMPLEMENTATION's output (they do not use the model's result):
   1. (spec of theorem C05_pen_positions_spec) every anchored mark whose base precedes it sits, horizontally, at
      base position + base anchor - mark anchor under the pen convention of Model/GposSpec.v; in a right-to-left
      run this fails when the glyphs between base and mark (the mark included) have a non-zero advance: the
      known class "rtl-mark-advance".  Vertically the same, checked when the run has no cursive attachment.
   2. (F25) a glyph that carries a MarkAnchor although EVERY mark lookup (types 4, 5, 6) of the program skips it by
      its lookup flags was attached by an iteration that ignores the flags: class "mark-flags". *)
let parse_ok (out : string) : (string list * string list) option =
  if not (starts_with "ok:" out) then None else begin
    let b = String.sub out 3 (String.length out - 3) in
    match String.index_opt b '|' with
    | Some i ->
      let infos = String.sub b 0 i and rest = String.sub b (i + 1) (String.length b - i - 1) in
      if starts_with "pos:" rest then
        let p = String.sub rest 4 (String.length rest - 4) in
        Some ((if infos = "" then [] else split_on ',' infos), (if p = "" then [] else split_on ',' p))
      else None
    | None -> None
  end

let placement_of (info : string) : string list =
  match String.index_opt info '/' with
  | Some i -> split_on '.' (String.sub info (i + 1) (String.length info - i - 1))
  | None -> []

let oracle_positions (input : string) (impl : string) : (string * string) option =
  try
    match parse_ok impl with
    | None -> None
    | Some (infos, poss) ->
      let (_, tree) = split_input input in
      let rtl = (match tree with
          | L [_; _; L (I k :: rest); _] ->
            (match zi k, rest with
             | 0, [_; _; _; _; _; d; _] -> zi (int_ d) <> 0
             | 1, [_; d; _] -> zi (int_ d) <> 0
             | 2, [_; _; d; _] -> zi (int_ d) <> 0
             | _ -> false)
          | _ -> false) in
      let pos = Array.of_list (List.map (fun p -> Array.of_list (List.map int_of_string (split_on '.' p))) poss) in
      let n = Array.length pos in
      let pen i = (* LTR: sum of advances before i; RTL: minus the sum up to and including i *)
        let s = ref 0 in
        if rtl then (for k = 0 to i do s := !s + pos.(k).(0) done; - !s)
        else (for k = 0 to i - 1 do s := !s + pos.(k).(0) done; !s) in
      let gx i = pen i + pos.(i).(2) and gy i = pos.(i).(3) in
      let has_cursive = List.exists (fun i -> match placement_of i with "C" :: _ -> true | _ -> false) infos in
      let res = ref None in
      List.iteri (fun j info ->
          if !res = None then
            match placement_of info with
            | ["M"; b; bx; by; mx; my] ->
              let b = int_of_string b in
              if b >= 0 && b < j && j < n then begin
                let dx = int_of_string bx - int_of_string mx and dy = int_of_string by - int_of_string my in
                if gx j - gx b <> dx then
                  res := Some ((if rtl then "rtl-mark-advance" else "position"),
                               Printf.sprintf "mark %d is %d to the right of its base %d, anchors say %d%s" j (gx j - gx b) b dx
                                 (if rtl then " (right-to-left run, glyphs with an advance between base and mark)" else ""))
                else if (not has_cursive) && gy j - gy b <> dy then
                  res := Some ("position", Printf.sprintf "mark %d is %d above its base %d, anchors say %d" j (gy j - gy b) b dy)
              end
            | _ -> ()) infos;
      !res
  with _ -> None

let oracle_mark_flags (input : string) (impl : string) : string option =
  try
    match parse_ok impl with
    | None -> None
    | Some (infos, _) ->
      let (_, tree) = split_input input in
      (match tree with
       | L [gd; L [_; _; lk]; L (I k :: _); L gl] when zi k = 0 ->
         let gd = gdef_ gd in
         let mark_lookups = (match lk with
             | L [L ls] -> List.filter_map (function
                 | L [_; I flag; mfs; I ty; _] when zi ty = 4 || zi ty = 5 || zi ty = 6 -> Some (flag, opt int_ mfs)
                 | _ -> None) ls
             | _ -> []) in
         if mark_lookups = [] then None else begin
           let ids = Array.of_list (List.map (function L (I id :: _) -> id | _ -> failwith "glyph") gl) in
           let res = ref None in
           List.iteri (fun j info ->
               if !res = None then
                 match placement_of info with
                 | "M" :: _ when j < Array.length ids ->
                   if List.for_all (fun (flag, mfs) -> skip_spec flag mfs gd ids.(j)) mark_lookups then
                     res := Some (Printf.sprintf "glyph %d is attached as a mark although the lookup flags of every mark lookup skip it" j)
                 | _ -> ()) infos;
           !res
         end
       | _ -> None)
  with _ -> None

let judge (input : string) (impl : string) (model : string) : verdict =
  match oracle_mark_flags input impl with
  | Some why -> Violation ("mark-flags", why)
  | None ->
  match oracle_positions input impl with
  | Some (cls, why) -> Violation (cls, why)
  | None ->
  if impl = "panic" || impl = "oob" then
    (* positioning is total: accumulated adjustments saturate (C05_adjust_saturates, C05_kern_pair_is_fold) *)
    Violation ("panic", "positioning panicked; specified " ^ String.sub model 0 (min 60 (String.length model)))
  else if impl = model then Agree
  else if starts_with "MODEL-EXN" model then Mismatch "model driver failed to parse the case"
  else if impl = "panic" then Violation ("panic", "positioning panicked; specified " ^ String.sub model 0 (min 60 (String.length model)))
  else if model = "panic" then Mismatch ("model panics, implementation returned " ^ String.sub impl 0 (min 60 (String.length impl)))
  else if starts_with "err" impl || starts_with "err" model then
    Violation ("error", Printf.sprintf "implementation %s, specified %s"
                 (String.sub impl 0 (min 40 (String.length impl))) (String.sub model 0 (min 40 (String.length model))))
  else begin
    let parts s =
      let s = String.sub s 3 (String.length s - 3) in
      match String.index_opt s '|' with
      | Some k -> (String.sub s 0 k, String.sub s (k + 1) (String.length s - k - 1))
      | None -> (s, "") in
    let (ii, pi) = parts impl and (im, pm) = parts model in
    let first_diff a b =
      let a = if a = "" then [] else split_on ',' a and b = if b = "" then [] else split_on ',' b in
      if List.length a <> List.length b then Some "different number of glyphs" else begin
        let rec go k a b = match a, b with
          | x :: a', y :: b' -> if x <> y then Some (Printf.sprintf "glyph %d: %s, specified %s" k x y) else go (k + 1) a' b'
          | _ -> None in go 0 a b end in
    match first_diff ii im with
    | Some why -> Violation ("adjustment", "kerning/placement of " ^ why)
    | None ->
      (match first_diff pi pm with
       | Some why -> Violation ("position", "final position of " ^ why)
       | None -> Mismatch "outputs differ in an unexpected way")
  end
