(* C12: variable-font instancing.  Input formats: see harness/src/bin/c12.rs.
   The model computes in exact rationals; f32 results of the implementation (`f<bits>`) are compared
   with a tolerance, integer results (rounded coordinates, metrics) against the exact value +-1/2. *)
open Model
open Zconv
open Verdict

(* ---------------------------------------------------------------- numbers *)

let two40 = z_of_string "1099511627776"

let z_to_float (v : z) : float =
  match z_to_int_opt v with
  | Some i -> float_of_int i
  | None -> float_of_string (z_to_string v)

let q_to_float (x : q) : float =
  let x = q_red x in
  let den = Zpos x.qden in
  let (qt, r) = z_div_eucl x.qnum den in
  let (fr, _) = z_div_eucl (z_mul r two40) den in
  z_to_float qt +. z_to_float fr /. 1099511627776.0

let q_to_string (x : q) : string =
  let x = q_red x in z_to_string x.qnum ^ "/" ^ z_to_string (Zpos x.qden)

let float_of_fbits (s : string) : float =
  (* "f<u32>" *)
  Int32.float_of_bits (Int32.of_string ("0u" ^ String.sub s 1 (String.length s - 1)))

(* the exact rational value of an f32 given by its bits *)
let q_of_fbits (s : string) : q =
  let f = float_of_fbits s in
  let (m, e) = Float.frexp f in
  (* f = m * 2^e, |m| in [0.5, 1): m * 2^24 is an integer *)
  let mi = int_of_float (Float.ldexp m 24) in
  let e = e - 24 in
  let rec pow2 k = if k = 0 then z_of_int 1 else z_mul (z_of_int 2) (pow2 (k - 1)) in
  if f = 0.0 then { qnum = Z0; qden = XH }
  else if e >= 0 then { qnum = z_mul (z_of_int mi) (pow2 e); qden = XH }
  else
    match pow2 (- e) with
    | Zpos p -> q_red { qnum = z_of_int mi; qden = p }
    | _ -> failwith "pow2"

let zi = z_of_int
let zs = z_of_string
let ints s = if s = "" || s = "-" then [] else List.map int_of_string (split_on ',' s)
let zints s = List.map zi (ints s)

let fields (c : char) (s : string) = if s = "" || s = "-" then [] else split_on c s

let err_or f = function
  | Ok a -> "ok:" ^ f a
  | Err e -> "err:" ^ err_to_string e
  | Panic -> "panic"
  | OOB -> "oob"

(* ---------------------------------------------------------------- parsing of the structured fields *)

let parse_points (s : string) : (z * z) list =
  List.map (fun p -> match ints p with [x; y] -> (zi x, zi y) | _ -> failwith "point") (fields ' ' s)

let parse_region_axes (s : string) : ((z * z) * z) list =
  List.map (fun t -> match ints t with [a; b; c] -> ((zi a, zi b), zi c) | _ -> failwith "axis") (fields ';' s)

(* "ac:s,p,e;s,p,e;.." -> regions (each of ac axes) *)
let parse_regions (s : string) : int * ((z * z) * z) list list =
  let i = String.index s ':' in
  let ac = int_of_string (String.sub s 0 i) in
  let axes = parse_region_axes (String.sub s (i + 1) (String.length s - i - 1)) in
  let nreg = if ac = 0 then 0 else List.length axes / ac in
  let rec chunk l k = if k = 0 then [] else
      let rec split n l = if n = 0 then ([], l) else match l with x :: r -> let (a, b) = split (n - 1) r in (x :: a, b) | [] -> ([], []) in
      let (a, b) = split ac l in a :: chunk b (k - 1) in
  (ac, chunk axes nreg)

let parse_ivds (s : string) : ivd list =
  List.map (fun d -> match split_on ':' d with
    | [wdc; ric; regs; _items; hx] ->
      { ivd_wdc = zs wdc; ivd_ric = zs ric; ivd_regions = zints regs; ivd_data = bytes_of_hex hx }
    | _ -> failwith "ivd") (fields '/' s)

(* the store as the implementation sees it after parsing the bytes the harness builds:
   the harness writes items*row_length bytes as given (the item count only sizes the read) *)
let parse_store (rs : string) (ds : string) : ivstore =
  let (_, regions) = parse_regions rs in
  { ivs_regions = regions; ivs_data = parse_ivds ds }

let parse_glyph_kind (s : string) : glyph =
  match split_on ':' s with
  | "S" :: pts :: ends :: _ -> GSimple (parse_points pts, zints ends)
  | "C" :: cs :: _ ->
    GComposite (List.map (fun c -> match ints c with
      | [xy; g; a; b] -> (((xy <> 0, zi g), zi a), zi b) | _ -> failwith "comp") (fields ' ' cs))
  | _ -> GEmpty

(* mode gd: `C:n` = a composite glyph with n components *)
let parse_gd_glyph (s : string) : glyph =
  match split_on ':' s with
  | ["C"; n] -> GComposite (List.init (int_of_string n) (fun _ -> (((true, Z0), Z0), Z0)))
  | _ -> parse_glyph_kind s

let parse_gspec (s : string) : gspec =
  match split_on '~' s with
  | [k; xmin; aw; lsb; hx] ->
    { g_glyph = parse_glyph_kind k; g_xmin = zs xmin; g_aw = zs aw; g_lsb = zs lsb; g_var = bytes_of_hex hx }
  | _ -> failwith "gspec"

let parse_shared (s : string) : z list list = List.map zints (fields ';' s)

let clamp14 k = max (-16384) (min 16384 k)

let build_mode (input : string) = Release  (* overridden per case: see mode_of *)

(* the harness marks nothing about the build; the overflow sites that depend on it (i16 phantom
   point arithmetic) are kept out of the generated domain, so either mode gives the same result *)
let mode_of (_input : string) : mode = Debug

(* ---------------------------------------------------------------- model result strings *)

let qpairs_to_string (l : (q * q) list) : string =
  if l = [] then "-" else
  String.concat " " (List.map (fun (x, y) -> q_to_string x ^ ":" ^ q_to_string y) l)

let glyph_to_string (g : glyph) : string =
  match g with
  | GEmpty -> "E"
  | GSimple (pts, _) ->
    "S:" ^ (if pts = [] then "-" else String.concat " " (List.map (fun (x, y) -> z_to_string x ^ "," ^ z_to_string y) pts))
  | GComposite cs ->
    "C:" ^ (if cs = [] then "-" else String.concat " " (List.map (fun (((_, _), a), b) -> z_to_string a ^ "," ^ z_to_string b) cs))

type e2e_in = {
  ac : int; inst : z list; shared : z list list; glyphs : gspec list;
  hv : hvar option; mv : (ivstore * ((z * z) * z) list * bool) option; vals : z list;
}

let parse_e2e (p : string array) : e2e_in =
  let ac = int_of_string p.(1) in
  let inst = List.map (fun k -> zi (clamp14 k)) (ints p.(2)) in
  let hv = if p.(5) = "-" then None else
      match split_on '#' p.(5) with
      | [rs; ds; adv; lsb] ->
        let mp h = if h = "-" then None else (match read_dsim (bytes_of_hex h) with Ok m -> Some m | _ -> failwith "dsim") in
        Some { hv_store = parse_store rs ds; hv_adv = mp adv; hv_lsb = mp lsb }
      | _ -> failwith "hvar" in
  let mv = if p.(6) = "-" then None else
      match split_on '#' p.(6) with
      | [rs; ds; recs; vhea] ->
        let recs = List.map (fun r -> match split_on ',' r with
          | [t; o; i] -> ((zs t, zs o), zs i) | _ -> failwith "rec") (fields ';' recs) in
        Some (parse_store rs ds, recs, vhea = "1")
      | _ -> failwith "mvar" in
  { ac; inst; shared = parse_shared p.(3); glyphs = List.map parse_gspec (split_on '/' p.(4));
    hv; mv; vals = zints p.(7) }

let e2e_model (e : e2e_in) : string =
  match instance_glyphs Debug (zi e.ac) e.shared e.inst e.glyphs e.hv with
  | Ok (vs, ms) ->
    let vals = match e.mv with
      | None -> e.vals
      | Some (st, recs, _) -> process_mvar st e.inst false recs e.vals in
    Printf.sprintf "ok:T=%s;G=%s;H=%s;M=%s" (zlist_to_string e.inst)
      (String.concat "/" (List.map (fun v -> glyph_to_string v.v_glyph) vs))
      (String.concat "," (List.map (fun (a, l) -> z_to_string a ^ ":" ^ z_to_string l) ms))
      (zlist_to_string vals)
  | Err er -> "err:" ^ err_to_string er
  | Panic -> "panic"
  | OOB -> "oob"

let fx_model (p : string array) : string =
  let inst = zints p.(4) in
  let g = parse_gspec p.(7) in
  match apply_variations Debug g.g_glyph g.g_xmin g.g_aw g.g_lsb (zs p.(5)) (parse_shared p.(6)) inst g.g_var with
  | Ok v ->
    let xmin = z_to_int v.v_xmin in
    let aw = max 0 (z_to_int v.v_pp2 - z_to_int v.v_pp1) in
    Printf.sprintf "ok:T=%s;G=%s;H=%d:%d" (zlist_to_string inst) (glyph_to_string v.v_glyph) aw (xmin - z_to_int v.v_pp1)
  | Err er -> "err:" ^ err_to_string er
  | Panic -> "panic"
  | OOB -> "oob"


(* ---------------------------------------------------------------- CFF2 (modes c2 / c2f)
   The variable charstrings of the source are evaluated by the charstring interpreter of
   Model/Type2.v (property C18) with the blend scalars of the exact variation model
   (Model/Variation.v); the charstrings of the instance are evaluated by the same interpreter
   without a variation tuple (a blend or vsindex operator left in them is an error there). *)

type c2_in = {
  c_inst : z list; c_regions : ((z * z) * z) list list; c_ivds : z list list; c_vsdef : z list;
  c_gsubrs : z list list; c_fds : z list list option list; c_fdsel : z list; c_glyphs : z list list;
  c_hmtx : (int * int) list; c_hv : hvar option;
  c_mv : (ivstore * ((z * z) * z) list) option; c_vals : z list;
}

let parse_blist (s : string) : z list list =
  if s = "." || s = "" then [] else List.map bytes_of_hex (split_on ',' s)

(* the fields from `AC:REGIONS` on start at p.(base) *)
let parse_c2 (p : string array) (base : int) (inst : z list) : c2_in =
  let (_, regions) = parse_regions p.(base) in
  let hv = if p.(base + 8) = "-" then None else
      match split_on '#' p.(base + 8) with
      | [rs; ds; adv; lsb] ->
        let mp h = if h = "-" then None else (match read_dsim (bytes_of_hex h) with Ok m -> Some m | _ -> failwith "dsim") in
        Some { hv_store = parse_store rs ds; hv_adv = mp adv; hv_lsb = mp lsb }
      | _ -> failwith "hvar" in
  { c_inst = inst; c_regions = regions;
    c_ivds = List.map (fun d -> if d = "." then [] else zints d) (fields '/' p.(base + 1));
    c_vsdef = zints p.(base + 2);
    c_gsubrs = parse_blist p.(base + 3);
    c_fds = List.map (fun f -> if f = "~" then None else Some (parse_blist f)) (split_on '/' p.(base + 4));
    c_fdsel = zints p.(base + 5);
    c_glyphs = parse_blist p.(base + 6);
    c_hmtx = List.map (fun m -> match split_on ':' m with [a; l] -> (int_of_string a, int_of_string l) | _ -> failwith "hmtx")
        (fields ',' p.(base + 7));
    c_hv = hv;
    c_mv = (if Array.length p <= base + 9 || p.(base + 9) = "-" then None else
              match split_on '#' p.(base + 9) with
              | rs :: ds :: recs :: _ ->
                Some (parse_store rs ds, List.map (fun r -> match split_on ',' r with
                    | [t; o; i] -> ((zs t, zs o), zs i) | _ -> failwith "rec") (fields ';' recs))
              | _ -> failwith "mvar");
    c_vals = (if Array.length p <= base + 10 then [] else zints p.(base + 10)) }

let c2_of_input (p : string array) : c2_in =
  if p.(0) = "c2" then parse_c2 p 2 (List.map (fun k -> zi (clamp14 k)) (ints p.(1)))
  else parse_c2 p 4 (zints p.(3))

let c2_scalars (c : c2_in) : z option list option list =
  List.map (fun idxs -> cff2_scalars c.c_regions c.c_inst idxs) c.c_ivds

(* no region the charstrings can use applies at these coordinates *)
let c2_no_region_applies (c : c2_in) : bool =
  List.for_all (function
      | None -> true
      | Some l -> List.for_all (function None -> true | Some s -> s = Z0) l) (c2_scalars c)

type gres = GOk of cmd list | GErr of string

let cfferr_name (e : cfferr) : string =
  match e with
  | EParse p -> "Parse" ^ err_to_string p
  | EInvalidOperator -> "InvalidOperator" | EInvalidOperand -> "InvalidOperand"
  | EUnsupportedOperator -> "UnsupportedOperator" | EMissingEndChar -> "MissingEndChar"
  | EDataAfterEndChar -> "DataAfterEndChar" | ENestingLimitReached -> "NestingLimitReached"
  | EArgumentsStackLimitReached -> "ArgumentsStackLimitReached"
  | EInvalidArgumentsStackLength -> "InvalidArgumentsStackLength" | EBboxOverflow -> "BboxOverflow"
  | EMissingMoveTo -> "MissingMoveTo" | EDuplicateVsIndex -> "DuplicateVsIndex"
  | EInvalidSubroutineIndex -> "InvalidSubroutineIndex" | EInvalidFontIndex -> "InvalidFontIndex"
  | ENoLocalSubroutines -> "NoLocalSubroutines" | EInvalidSeacCode -> "InvalidSeacCode"
  | EVsIndexAfterBlend -> "VsIndexAfterBlend" | EMissingVariationStore -> "MissingVariationStore"

let gres_of (r : cmd list cres) : gres =
  match r with
  | COk l -> GOk l
  | CErr e -> GErr (cfferr_name e)
  | CPanic -> GErr "panic"
  | CFuel -> GErr "fuel"

(* glyph gid of the variable source at the case's coordinates *)
let c2_source_glyph (c : c2_in) (scalars : z option list option list) (gid : int) : gres =
  gres_of (glyph_cmds (cff2_env Debug c.c_gsubrs c.c_fds c.c_fdsel c.c_glyphs (zi gid) true c.c_vsdef scalars))

(* glyph gid of the instance: no subroutines, no variation tuple *)
let c2_instance_glyph (c : c2_in) (cs : z list list) (gid : int) : gres =
  gres_of (glyph_cmds (cff2_env Debug [] (List.map (fun _ -> None) c.c_fds) c.c_fdsel cs (zi gid) false
                         (List.map (fun _ -> Z0) c.c_fds) []))

let two48f = 281474976710656.0
let coord_to_float (v : z) : float = z_to_float v /. two48f

let cmd_coords (c : cmd) : char * z list =
  match c with
  | MoveTo (x, y) -> ('M', [x; y])
  | LineTo (x, y) -> ('L', [x; y])
  | CurveTo (a, b, c, d, e, f) -> ('C', [a; b; c; d; e; f])
  | Close -> ('Z', [])

let cmds_to_string (l : cmd list) : string =
  String.concat " " (List.map (fun c -> let (k, vs) = cmd_coords c in
    String.make 1 k ^ String.concat "," (List.map (fun v ->
        let (q, r) = z_div_eucl v uNIT in
        if r = Z0 then z_to_string q else Printf.sprintf "%.6f" (coord_to_float v)) vs)) l)

let gres_to_string (g : gres) : string =
  match g with GOk l -> "ok:" ^ cmds_to_string l | GErr e -> "er:" ^ e

(* the expected outlines are computed once per case (run, then judge) *)
let c2_memo : (string * gres list) ref = ref ("", [])

let c2_expected (input : string) (c : c2_in) : gres list =
  if fst !c2_memo = input then snd !c2_memo else begin
    let sc = c2_scalars c in
    let r = List.mapi (fun gid _ -> c2_source_glyph c sc gid) c.c_glyphs in
    c2_memo := (input, r); r
  end

let c2_model (input : string) (p : string array) : string =
  let c = c2_of_input p in
  Printf.sprintf "T=%s;E=%s" (zlist_to_string c.c_inst)
    (String.concat "/" (List.map gres_to_string (c2_expected input c)))

let run (input : string) : string =
  let p = Array.of_list (split_on '|' input) in
  match p.(0) with
  | "c2" | "c2f" -> c2_model input p
  | "cs" -> (match zints p.(1) with
      | [i; s; pk; e] -> "q:" ^ q_to_string (calculate_scalar i s pk e) | _ -> failwith "cs")
  | "rs" -> (match region_scalar (parse_region_axes p.(1)) (zints p.(2)) with
      | None -> "none" | Some s -> "q:" ^ q_to_string s)
  | "rc" ->
    let d = bytes_of_hex p.(1) in
    err_or (fun (c, rest) -> Printf.sprintf "%s:%d" (z_to_string c) (List.length d - List.length rest)) (read_count d)
  | "pp" ->
    let d = bytes_of_hex p.(1) in
    err_or (fun (pn, rest) ->
        let used = List.length d - List.length rest in
        match pn with
        | PAll _ -> Printf.sprintf "all:%d" used
        | PSpecific l -> Printf.sprintf "%s:%d" (if l = [] then "-" else zlist_to_string l) used)
      (read_packed_point_numbers d (zs p.(2)))
  | "pd" ->
    let d = bytes_of_hex p.(1) in
    err_or (fun (l, rest) -> Printf.sprintf "%s:%d" (if l = [] then "-" else zlist_to_string l) (List.length d - List.length rest))
      (read_packed_deltas d (zs p.(2)))
  | "inf" -> (match zints p.(1) with
      | [a; b; c; d; e] -> "q:" ^ q_to_string (do_infer a b c d e) | _ -> failwith "inf")
  | "rd" ->
    let pts = parse_points p.(1) in
    let pairs = List.map (fun e -> match ints e with [n; x; y] -> (zi n, (zi x, zi y)) | _ -> failwith "pair") (fields ' ' p.(3)) in
    err_or qpairs_to_string (region_deltas_simple pts (zints p.(2)) (zi (List.length pts + 4)) pairs)
  | "dm" ->
    (match read_dsim (bytes_of_hex p.(1)) with
     | Ok m -> err_or (fun (o, i) -> z_to_string o ^ "," ^ z_to_string i) (dsim_entry m (zs p.(2)))
     | Err e -> "err:" ^ err_to_string e | Panic -> "panic" | OOB -> "oob")
  | "iv" ->
    let st = parse_store p.(1) p.(2) in
    (match zints p.(3) with
     | [o; i] -> err_or (fun x -> "q:" ^ q_to_string x) (adjustment st o i (zints p.(4)))
     | _ -> failwith "iv")
  | "vt" -> if is_var_table (zs p.(1)) then "1" else "0"
  | "ad" ->
    let d = q_of_fbits p.(3) in
    z_to_string (if p.(1) = "i" then add_round_i16 (zs p.(2)) d else add_round_u16 (zs p.(2)) d)
  | "gd" ->
    err_or (function None -> "none" | Some l -> qpairs_to_string l)
      (glyph_deltas (parse_gd_glyph p.(4)) (zs p.(1)) (parse_shared p.(3)) (zints p.(2)) (bytes_of_hex p.(5)))
  | "e2e" -> e2e_model (parse_e2e p)
  | "fx" -> fx_model p
  | _ -> "badmode"

(* ---------------------------------------------------------------- judging *)

let parse_q (s : string) : float =
  (* "num/den" -> float, via the exact quotient *)
  match split_on '/' s with
  | [n; d] -> (match zs d with Zpos pd -> q_to_float { qnum = zs n; qden = pd } | _ -> failwith "den")
  | _ -> failwith "q"

let strip pre s = String.sub s (String.length pre) (String.length s - String.length pre)

(* impl f32 against exact model value: Agree within `tol`, Violation beyond `bad` *)
let cmp_f (cls : string) (impl : float) (model : float) (tol : float) (bad : float) : verdict =
  let d = Float.abs (impl -. model) in
  if Float.is_nan impl then Violation (cls, "NaN")
  else if d <= tol then Agree
  else if d > bad then Violation (cls, Printf.sprintf "implementation %.9g, exact %.9g" impl model)
  else Mismatch (Printf.sprintf "implementation %.9g, exact %.9g (outside the float tolerance)" impl model)

let first_bad (vs : verdict list) : verdict =
  match List.find_opt (function Violation _ -> true | _ -> false) vs with
  | Some v -> v
  | None -> (match List.find_opt (function Mismatch _ -> true | _ -> false) vs with Some v -> v | None -> Agree)

let is_err s = starts_with "err:" s
let is_ok s = starts_with "ok:" s

(* rounded implementation value against the exact value it rounds *)
let cmp_round (cls : string) (what : string) (impl : int) (exact : float) (lo : int) (hi : int) : verdict =
  let ex = Float.max (float_of_int lo) (Float.min (float_of_int hi) exact) in
  let d = Float.abs (float_of_int impl -. ex) in
  let tol = 0.5 +. 0.02 +. Float.abs ex /. 65536.0 in
  if d <= tol then Agree
  else if d > 1.0 +. 0.02 +. Float.abs ex /. 65536.0 then
    Violation (cls, Printf.sprintf "%s: implementation %d, exact value %.6f: more than one unit apart" what impl exact)
  else Mismatch (Printf.sprintf "%s: implementation %d, exact value %.6f: not the nearest integer" what impl exact)

let kv (s : string) : (string * string) list =
  List.filter_map (fun f -> match String.index_opt f '=' with
    | Some i -> Some (String.sub f 0 i, String.sub f (i + 1) (String.length f - i - 1)) | None -> None) (split_on ';' s)

let impl_points (s : string) : (int * int) list =
  List.map (fun p -> match ints p with [x; y] -> (x, y) | _ -> failwith "pt") (fields ' ' s)

let ends_in_var (t : int) : bool = let s = t land 0xFFFFFF in s = 0x766172 || s = 0x564152

let exact_deltas (e_ac : int) shared inst (g : gspec) : (float * float) list option =
  match glyph_deltas g.g_glyph (zi e_ac) shared inst g.g_var with
  | Ok (Some l) -> Some (List.map (fun (x, y) -> (q_to_float x, q_to_float y)) l)
  | Ok None -> None
  | _ -> None

(* glyph gi of the instance against the exact values; returns verdicts and the implementation's
   own x_min of the glyph (for the metrics) *)
let judge_glyph (g : gspec) (ds : (float * float) list option) (impl : string) : verdict list * int option =
  let d k = match ds with Some l when k < List.length l -> List.nth l k | _ -> (0.0, 0.0) in
  match g.g_glyph, split_on ':' impl with
  | GEmpty, ("E" :: _) -> ([Agree], Some 0)
  | GSimple (pts, _), ("S" :: ps :: _) ->
    let ip = impl_points ps in
    if List.length ip <> List.length pts then ([Violation ("outline", "number of points changed")], None)
    else
      let vs = List.concat (List.mapi (fun k ((x, y), (ix, iy)) ->
          let (dx, dy) = d k in
          [cmp_round "outline" (Printf.sprintf "point %d x" k) ix (z_to_float x +. dx) (-32768) 32767;
           cmp_round "outline" (Printf.sprintf "point %d y" k) iy (z_to_float y +. dy) (-32768) 32767])
          (List.combine pts ip)) in
      (* a glyph without variation data keeps the bounding box of its header *)
      (vs, Some (if ds = None then z_to_int g.g_xmin
                 else match ip with [] -> 0 | (x, _) :: r -> List.fold_left (fun a (x, _) -> min a x) x r))
  | GComposite cs, ("C" :: ps :: _) ->
    let ip = impl_points ps in
    if List.length ip <> List.length cs then ([Violation ("outline", "number of components changed")], None)
    else
      (List.concat (List.mapi (fun k ((((xy, _), a), b), (ia, ib)) ->
           let (dx, dy) = if xy then d k else (0.0, 0.0) in
           [cmp_round "composite-offset" (Printf.sprintf "component %d arg1" k) ia (z_to_float a +. dx) (-32768) 32767;
            cmp_round "composite-offset" (Printf.sprintf "component %d arg2" k) ib (z_to_float b +. dy) (-32768) 32767])
           (List.combine cs ip)), None)
  | _, _ -> ([Violation ("outline", "glyph kind changed")], None)


(* the MVAR-controlled values `iv` of an instance against source value + exact delta *)
let judge_mvar (mv : (ivstore * ((z * z) * z) list) option) (vals : z list) (inst : z list) (iv : string list)
    (add : verdict -> unit) : unit =
  let exact = Array.make 28 0.0 in
  List.iteri (fun k v -> if k < 28 then exact.(k) <- z_to_float v) vals;
  (match mv with
   | None -> ()
   | Some (st, recs) ->
     List.iter (fun ((tg, o), i) ->
         match adjustment st o i inst, mvar_target tg with
         | Ok dq, Some ((tgt, _), _) ->
           let k = (let rec idx l n = match l with [] -> -1 | (_, ((t2, _), _)) :: r -> if t2 = tgt then n else idx r (n + 1) in idx mVAR_TABLE 0) in
           if k >= 0 then exact.(k) <- exact.(k) +. q_to_float dq
         | _ -> ()) recs);
  List.iteri (fun k s ->
      if k < 28 && s <> "x" then begin
        let (lo, hi) = if k = 3 || k = 4 then (0, 65535) else (-32768, 32767) in
        let vhea_field = (k >= 5 && k <= 7) || (k >= 11 && k <= 13) in
        if vhea_field then begin
          (* a vhea value either is the nearest integer of the exact value or the property fails *)
          match cmp_round "mvar-vhea" (Printf.sprintf "MVAR-controlled vhea value %d" k) (int_of_string s) exact.(k) lo hi with
          | Agree -> ()
          | _ -> add (Violation ("mvar-vhea", Printf.sprintf "MVAR-controlled vhea value %d: implementation %s, exact value %.6f" k s exact.(k)))
        end else
          add (cmp_round "mvar" (Printf.sprintf "MVAR-controlled value %d" k) (int_of_string s) exact.(k) lo hi)
      end) iv

let judge_e2e (input : string) (impl : string) (model : string) : verdict =
  let p = Array.of_list (split_on '|' input) in
  let e = parse_e2e p in
  if is_err model || model = "panic" then
    (if is_err impl then (if impl = model || (impl = "err:write" && model = "err:OtherErr") then Agree else Mismatch "different error")
     else Mismatch "the model fails where the implementation succeeds")
  else if not (is_ok impl) then Mismatch "the implementation fails where the model succeeds"
  else begin
    let f = kv (strip "ok:" impl) in
    let get k = try List.assoc k f with Not_found -> "" in
    let vs = ref [] in
    let add v = vs := v :: !vs in
    (* normalised tuple: the test fonts' axes are -1..0..+1 *)
    if get "T" <> zlist_to_string e.inst then add (Mismatch "normalised tuple differs from the clamped user tuple");
    (* static font: no variation table, exactly the expected set of tables *)
    let tags = ints (get "TAGS") in
    List.iter (fun t -> if ends_in_var t then add (Violation ("var-table-kept", Printf.sprintf "table %08x in the instance" t))) tags;
    let src = [0x4F532F32; 0x636D6170; 0x66766172; 0x676C7966; 0x67766172; 0x68656164; 0x68686561; 0x686D7478; 0x6C6F6361; 0x6D617870; 0x6E616D65; 0x706F7374]
              @ (if e.hv <> None then [0x48564152] else [])
              @ (match e.mv with Some (_, _, vh) -> 0x4D564152 :: (if vh then [0x76686561; 0x766D7478] else []) | None -> []) in
    let built = List.filter (fun t -> let t = z_to_int t in t <> 0x63767420 && t <> 0x43464632) bUILT_TAGS in
    let expect = List.sort compare (List.map z_to_int (output_tags built (List.map zi src) true)) in
    if List.sort compare tags <> expect then add (Mismatch "the set of tables of the instance differs from the model's");
    (* glyphs *)
    let ig = split_on '/' (get "G") in
    if List.length ig <> List.length e.glyphs then add (Violation ("outline", "number of glyphs changed"))
    else begin
      let dss = List.map (exact_deltas e.ac e.shared e.inst) e.glyphs in
      let res = List.map2 (fun (g, ds) s -> judge_glyph g ds s) (List.combine e.glyphs dss) ig in
      List.iter (fun (l, _) -> List.iter add l) res;
      (* metrics *)
      let ih = List.map (fun m -> match split_on ':' m with [a; l] -> (int_of_string a, int_of_string l) | _ -> failwith "metric") (fields ',' (get "H")) in
      let xmins = Array.of_list (List.map snd res) in
      let simple_xmin gid = if gid < Array.length xmins then (match xmins.(gid) with Some x -> x | None -> 0) else 0 in
      if List.length ih <> List.length e.glyphs then add (Violation ("metrics", "number of metrics differs from the number of glyphs"))
      else List.iteri (fun gid ((g, ds), (iaw, ilsb)) ->
          (* the implementation's x_min of this glyph, from its own output *)
          let xmin = match g.g_glyph, split_on ':' (List.nth ig gid) with
            | GComposite cs, ("C" :: ps :: _) ->
              let ip = impl_points ps in
              if List.length ip <> List.length cs || cs = [] then 0
              else List.fold_left min max_int (List.map2 (fun (((_, cg), _), _) (ia, _) -> simple_xmin (z_to_int cg) + ia) cs ip)
            | _ -> simple_xmin gid in
          let n = z_to_int (match g.g_glyph with GEmpty -> Z0 | GSimple (l, _) -> zi (List.length l) | GComposite l -> zi (List.length l)) in
          let (d1, d2) = match ds with
            | Some l when List.length l >= n + 2 -> (fst (List.nth l n), fst (List.nth l (n + 1)))
            | _ -> (0.0, 0.0) in
          let hx = (match g.g_glyph with GEmpty -> 0.0 | _ -> z_to_float g.g_xmin) in
          let pp1 = hx -. z_to_float g.g_lsb +. d1 in
          let pp2 = hx -. z_to_float g.g_lsb +. z_to_float g.g_aw +. d2 in
          match e.hv with
          | None ->
            (* lsb = x_min - pp1', advance = pp2' - pp1' *)
            add (cmp_round "metrics" (Printf.sprintf "glyph %d phantom point 1 (x_min - lsb)" gid) (xmin - ilsb) pp1 (-32768) 32767);
            if iaw > 0 || pp2 -. pp1 > 1.5 then
              add (cmp_round "metrics" (Printf.sprintf "glyph %d phantom point 2 (x_min - lsb + advance)" gid) (xmin - ilsb + iaw) pp2 (-32768) 32767)
          | Some h ->
            (match advance_delta h e.inst (zi gid) with
             | Ok dq -> add (cmp_round "metrics" (Printf.sprintf "glyph %d advance (HVAR)" gid) iaw (z_to_float g.g_aw +. q_to_float dq) 0 65535)
             | _ -> add (Mismatch "HVAR advance delta fails in the model"));
            (match lsb_delta h e.inst (zi gid) with
             | Ok (Some dq) -> add (cmp_round "metrics" (Printf.sprintf "glyph %d lsb (HVAR)" gid) ilsb (z_to_float g.g_lsb +. q_to_float dq) (-32768) 32767)
             | Ok None -> add (cmp_round "metrics" (Printf.sprintf "glyph %d phantom point 1 (x_min - lsb)" gid) (xmin - ilsb) pp1 (-32768) 32767)
             | _ -> add (Mismatch "HVAR lsb delta fails in the model")))
          (List.combine (List.combine e.glyphs dss) ih)
    end;
    (* MVAR-controlled values *)
    judge_mvar (match e.mv with Some (st, recs, _) -> Some (st, recs) | None -> None) e.vals e.inst (split_on ',' (get "M")) add;
    first_bad (List.rev !vs)
  end

let judge_fx (input : string) (impl : string) (model : string) : verdict =
  let p = Array.of_list (split_on '|' input) in
  if is_err model || model = "panic" then
    (if impl = model then Agree else Mismatch "the model fails on a fixture glyph")
  else if not (is_ok impl) then Mismatch "the implementation fails where the model succeeds"
  else begin
    let f = kv (strip "ok:" impl) in
    let get k = try List.assoc k f with Not_found -> "" in
    let inst = zints p.(4) in
    let g = parse_gspec p.(7) in
    let has_hvar = Array.length p > 8 && p.(8) = "1" in
    let vs = ref [] in
    let add v = vs := v :: !vs in
    if get "T" <> zlist_to_string inst then add (Mismatch "normalised tuple differs");
    List.iter (fun t -> if ends_in_var t then add (Violation ("var-table-kept", Printf.sprintf "table %08x in the instance" t))) (ints (get "TAGS"));
    let ds = exact_deltas (int_of_string p.(5)) (parse_shared p.(6)) inst g in
    let (l, xmin) = judge_glyph g ds (get "G") in
    List.iter add l;
    let default = List.for_all (fun v -> v = Z0) inst in
    if default then begin
      (* at the default coordinates: exactly the source glyph *)
      let same = (match g.g_glyph with
          | GSimple (pts, _) -> "S:" ^ (if pts = [] then "-" else String.concat " " (List.map (fun (x, y) -> z_to_string x ^ "," ^ z_to_string y) pts))
          | GComposite cs -> "C:" ^ (if cs = [] then "-" else String.concat " " (List.map (fun (((_, _), a), b) -> z_to_string a ^ "," ^ z_to_string b) cs))
          | GEmpty -> "E") in
      if get "G" <> same then add (Violation ("default-instance", "outline at the default coordinates differs from the source glyph"))
    end;
    (match split_on ':' (get "H"), xmin with
     | [a; l], Some xm when not has_hvar ->
       let iaw = int_of_string a and ilsb = int_of_string l in
       let n = z_to_int (match g.g_glyph with GSimple (l, _) -> zi (List.length l) | GComposite l -> zi (List.length l) | GEmpty -> Z0) in
       let (d1, d2) = match ds with
         | Some l when List.length l >= n + 2 -> (fst (List.nth l n), fst (List.nth l (n + 1))) | _ -> (0.0, 0.0) in
       let hx = (match g.g_glyph with GEmpty -> 0.0 | _ -> z_to_float g.g_xmin) in
       let pp1 = hx -. z_to_float g.g_lsb +. d1 in
       add (cmp_round "metrics" "phantom point 1 (x_min - lsb)" (xm - ilsb) pp1 (-32768) 32767);
       add (cmp_round "metrics" "phantom point 2" (xm - ilsb + iaw) (pp1 +. z_to_float g.g_aw +. d2 -. d1) (-32768) 32767);
       if default && z_to_int g.g_xmin = xm && (iaw <> z_to_int g.g_aw || ilsb <> z_to_int g.g_lsb) then
         add (Violation ("default-instance", "metrics at the default coordinates differ from the source"))
     | _ -> ());
    first_bad (List.rev !vs)
  end


(* ---------------------------------------------------------------- judging CFF2 instances *)

(* "ok:M1,2 L3,4 Z" as allsorts' CFF2Outlines reads the instance *)
let parse_outline (s : string) : (char * float list) list option =
  if not (starts_with "ok:" s) then None else
  Some (List.map (fun c -> (c.[0], List.map float_of_string (fields ',' (String.sub c 1 (String.length c - 1)))))
          (fields ' ' (strip "ok:" s)))

let judge_c2 (input : string) (impl : string) (_model : string) : verdict =
  let p = Array.of_list (split_on '|' input) in
  let c = c2_of_input p in
  let expected = c2_expected input c in
  let all_source_fail = List.for_all (function GErr _ -> true | GOk _ -> false) expected in
  if is_err impl then
    (* instance() refuses the font: some source charstring must be unusable *)
    (if List.exists (function GErr _ -> true | GOk _ -> false) expected then Agree
     else Mismatch "the implementation fails where every source charstring evaluates in the model")
  else if not (is_ok impl) then Mismatch "unexpected result"
  else begin
    ignore all_source_fail;
    let f = kv (strip "ok:" impl) in
    let get k = try List.assoc k f with Not_found -> "" in
    let vs = ref [] in
    let add v = vs := v :: !vs in
    if get "T" <> zlist_to_string c.c_inst then add (Mismatch "normalised tuple differs");
    let tags = ints (get "TAGS") in
    List.iter (fun t -> if ends_in_var t then add (Violation ("var-table-kept", Printf.sprintf "table %08x in the instance" t))) tags;
    if p.(0) = "c2" then begin
      let src = [0x43464632; 0x4F532F32; 0x636D6170; 0x68656164; 0x68686561; 0x686D7478; 0x6D617870; 0x6E616D65; 0x706F7374] in
      if List.sort compare tags <> src then add (Mismatch "the set of tables of the instance differs from the source's static tables")
    end;
    if get "VS" <> "0" then add (Mismatch "the CFF2 table of the instance still has a VariationStore");
    let cs = parse_blist (get "CS") in
    let os = split_on '/' (get "O") in
    let n = List.length c.c_glyphs in
    if List.length cs <> n then add (Violation ("outline", "number of glyphs changed"))
    else begin
      let exact_default = c2_no_region_applies c in
      List.iteri (fun gid exp ->
          let got = c2_instance_glyph c cs gid in
          (match exp, got with
           | GErr _, _ -> ()    (* an ill-formed source charstring: nothing is specified for it *)
           | GOk _, GErr "MissingVariationStore" ->
             add (Violation ("not-static", Printf.sprintf "glyph %d: the charstring of the instance still contains a blend operator" gid))
           | GOk _, GErr e ->
             add (Violation ("outline", Printf.sprintf "glyph %d: the charstring of the instance does not evaluate (%s) although the source does" gid e))
           | GOk el, GOk gl ->
             let ec = List.map cmd_coords el and gc = List.map cmd_coords gl in
             if List.map fst ec <> List.map fst gc then
               add (Violation ("outline", Printf.sprintf "glyph %d: the instance draws different segments (%s) than the source (%s)" gid
                                 (String.concat "" (List.map (fun (k, _) -> String.make 1 k) gc))
                                 (String.concat "" (List.map (fun (k, _) -> String.make 1 k) ec))))
             else begin
               let maxabs = List.fold_left (fun a (_, l) -> List.fold_left (fun a v -> Float.max a (Float.abs (coord_to_float v))) a l) 512.0 ec in
               let per = Float.ldexp 1.0 (-15) +. Float.ldexp maxabs (-19) in
               (* KNOWN FINDING cff2-operand-range: a charstring operand is an i16 or a 16.16 number.
                  When default + sum(scalar * delta) leaves that range the instance cannot hold it:
                  From<f32> for StackValue saturates whole numbers (`as i16`) and wraps fractional
                  ones (Fixed::from), silently.  Operands are the steps between consecutive points:
                  a step of 32767 or more on an axis marks the glyph as outside the domain. *)
               let out_of_range =
                 let px = ref 0.0 and py = ref 0.0 and bad = ref false in
                 List.iter (fun (_, l) ->
                     let rec go = function
                       | x :: y :: r ->
                         let fx = coord_to_float x and fy = coord_to_float y in
                         if Float.abs (fx -. !px) >= 32767.0 || Float.abs (fy -. !py) >= 32767.0 then bad := true;
                         px := fx; py := fy; go r
                       | _ -> () in go l) ec;
                 !bad in
               let cls2 = if out_of_range then "cff2-operand-range" else "cff2-outline" in
               let k = ref 0 and pt = ref 0 in
               let worst = ref None in
               List.iter2 (fun (_, el) (_, gl) ->
                   List.iteri (fun i (e, g) ->
                       incr k;
                       if i mod 2 = 0 then incr pt;
                       let d = Float.abs (coord_to_float (z_add g (z_opp e))) in
                       let tol = 0.001 +. float_of_int !k *. per in
                       (* no region applies: the operands are the defaults, exact up to the f32 the
                          blended ones pass through (24 significant bits; whole numbers and short
                          fractions are exact) *)
                       let sev = if exact_default && d > float_of_int !k *. Float.ldexp maxabs (-23) then 3
                         else if d > 1.0 +. tol then 2 else if d > tol then 1 else 0 in
                       (match !worst with
                        | Some (s0, d0, _, _, _, _) when s0 > sev || (s0 = sev && d0 >= d) -> ()
                        | _ -> if sev > 0 then worst := Some (sev, d, !pt - 1, (if i mod 2 = 0 then "x" else "y"), e, g)))
                     (List.combine el gl)) ec gc;
               (match !worst with
                | None -> ()
                | Some (3, d, ptn, ax, e, g) ->
                  add (Violation ("default-instance", Printf.sprintf "glyph %d point %d %s: no region applies at these coordinates, yet the instance has %.6f where the source's default master has %.6f (off by %.6f)"
                                    gid ptn ax (coord_to_float g) (coord_to_float e) d))
                | Some (2, d, ptn, ax, e, g) ->
                  add (Violation (cls2, Printf.sprintf "glyph %d point %d %s: instance %.6f, default + sum(scalar * delta) = %.6f: %.3f units apart (more than one unit)"
                                    gid ptn ax (coord_to_float g) (coord_to_float e) d))
                | Some (_, _, _, _, _, _) when out_of_range -> ()
                | Some (_, d, ptn, ax, e, g) ->
                  add (Mismatch (Printf.sprintf "glyph %d point %d %s: instance %.6f, exact %.6f: %.4f apart (outside the rounding the model allows for)"
                                   gid ptn ax (coord_to_float g) (coord_to_float e) d)))
             end);
          (* what allsorts itself draws from the instance (property C18) against the model's reading *)
          (match got, (if gid < List.length os then parse_outline (List.nth os gid) else None) with
           | GOk gl, Some ol ->
             let gc = List.map cmd_coords gl in
             (* allsorts accumulates the current point in f32: the error of a coordinate depends on
                the largest magnitude the path went through, not on the coordinate itself *)
             let gmax = List.fold_left (fun a (_, l) -> List.fold_left (fun a v -> Float.max a (Float.abs (coord_to_float v))) a l) 0.0 gc in
             let ftol = 0.015625 +. gmax /. 4096.0 in
             if List.length gc <> List.length ol
             || not (List.for_all2 (fun (k, l) (k2, l2) -> k = k2 && List.length l = List.length l2 &&
                                                             List.for_all2 (fun a b -> Float.abs (coord_to_float a -. b) <= ftol) l l2) gc ol)
             then begin
               let where = ref "" in
               (try List.iteri (fun i ((k, l), (k2, l2)) ->
                    if !where = "" then begin
                      if k <> k2 || List.length l <> List.length l2 then where := Printf.sprintf "command %d: %c vs %c" i k k2
                      else List.iter2 (fun a b -> if !where = "" && Float.abs (coord_to_float a -. b) > ftol then
                                          where := Printf.sprintf "command %d: model %.6f, CFF2Outlines %.6f" i (coord_to_float a) b) l l2
                    end) (List.combine gc ol) with Invalid_argument _ -> where := Printf.sprintf "%d vs %d commands" (List.length gc) (List.length ol));
               add (Mismatch (Printf.sprintf "glyph %d: CFF2Outlines draws the instance differently from the model (%s)" gid !where))
             end
           | GOk gl, None ->
             (* the outline builder refuses coordinates outside i16 (its bounding box) *)
             let fits = List.for_all (fun (_, l) -> List.for_all (fun v -> Float.abs (coord_to_float v) < 32767.0) l) (List.map cmd_coords gl) in
             if fits || List.nth os gid <> "er:BboxOverflow" then
               add (Mismatch (Printf.sprintf "glyph %d: CFF2Outlines rejects the charstring of the instance" gid))
           | _, _ -> ()))
        expected
    end;
    (* metrics: HVAR deltas when the font has HVAR, otherwise the source's hmtx *)
    let ih = List.map (fun m -> match split_on ':' m with [a; l] -> (int_of_string a, int_of_string l) | _ -> failwith "metric") (fields ',' (get "H")) in
    if List.length ih <> List.length c.c_hmtx then add (Violation ("metrics", "number of metrics differs from the number of glyphs"))
    else List.iteri (fun gid ((aw, lsb), (iaw, ilsb)) ->
        match c.c_hv with
        | None ->
          if iaw <> aw || ilsb <> lsb then
            add (Violation ("metrics", Printf.sprintf "glyph %d: the font has no HVAR, yet advance/lsb %d/%d became %d/%d" gid aw lsb iaw ilsb))
        | Some h ->
          (match advance_delta h c.c_inst (zi gid) with
           | Ok dq -> add (cmp_round "metrics" (Printf.sprintf "glyph %d advance (HVAR)" gid) iaw (float_of_int aw +. q_to_float dq) 0 65535)
           | _ -> add (Mismatch "HVAR advance delta fails in the model"));
          (match lsb_delta h c.c_inst (zi gid) with
           | Ok (Some dq) -> add (cmp_round "metrics" (Printf.sprintf "glyph %d lsb (HVAR)" gid) ilsb (float_of_int lsb +. q_to_float dq) (-32768) 32767)
           | Ok None -> if ilsb <> lsb then add (Mismatch (Printf.sprintf "glyph %d: lsb changed without an HVAR lsb mapping" gid))
           | _ -> add (Mismatch "HVAR lsb delta fails in the model")))
        (List.combine c.c_hmtx ih);
    (* MVAR-controlled values (the source values are part of the input; older lines have none) *)
    if c.c_vals <> [] then judge_mvar c.c_mv c.c_vals c.c_inst (split_on ',' (get "M")) add;
    first_bad (List.rev !vs)
  end

let list_cmp (cls : string) (impl : string) (model : string) (tol : float -> float) (bad : float) : verdict =
  (* impl: "fx:fy fx:fy", model: "q:q q:q" *)
  let ip = fields ' ' impl and mp = fields ' ' model in
  if List.length ip <> List.length mp then Violation (cls, "different number of deltas")
  else first_bad (List.concat (List.map2 (fun i m ->
      match split_on ':' i, split_on ':' m with
      | [ix; iy], [mx; my] ->
        let mx = parse_q mx and my = parse_q my in
        [cmp_f cls (float_of_fbits ix) mx (tol mx) bad; cmp_f cls (float_of_fbits iy) my (tol my) bad]
      | _ -> [Mismatch "format"]) ip mp))

let judge (input : string) (impl : string) (model : string) : verdict =
  let mode = match String.index_opt input '|' with Some i -> String.sub input 0 i | None -> input in
  if starts_with "panic" impl || starts_with "oob" impl then Violation ("panic", mode ^ ": the implementation panicked")
  else if starts_with "bad:" impl then Violation ("not-loadable", "the instance does not load as a static font: " ^ impl)
  else match mode with
    | "cs" ->
      let m = parse_q (strip "q:" model) in
      cmp_f "scalar" (float_of_fbits impl) m (Float.ldexp 1.0 (-18)) (Float.ldexp 1.0 (-10))
    | "inf" ->
      let m = parse_q (strip "q:" model) in
      (* (1 - p) * prev_delta + p * next_delta in f32: the error scales with the deltas *)
      let mag = (match ints (List.nth (split_on '|' input) 1) with
          | [_; _; _; pd; nd] -> float_of_int (abs pd + abs nd + 1) | _ -> 1.0) in
      cmp_f "iup" (float_of_fbits impl) m (Float.ldexp mag (-20)) (Float.ldexp mag (-10))
    | "rs" ->
      if impl = "none" || model = "none" then
        (if impl = model then Agree else Violation ("scalar", "applicability of the region differs: implementation " ^ impl ^ ", exact " ^ model))
      else cmp_f "scalar" (float_of_fbits impl) (parse_q (strip "q:" model)) (Float.ldexp 1.0 (-17)) (Float.ldexp 1.0 (-10))
    | "rc" | "pp" | "pd" | "dm" ->
      if impl = model then Agree
      else if is_err impl && is_err model then Mismatch "different error"
      else Violation ("decode", mode ^ ": implementation " ^ impl ^ ", specification " ^ model)
    | "vt" ->
      if impl = model then Agree
      else if model = "1" then Violation ("var-table-kept", "a table whose tag ends in var/VAR is not recognised as a variation table")
      else Violation ("table-dropped", "a table whose tag does not end in var/VAR is treated as a variation table")
    | "ad" ->
      if impl = model then Agree
      else begin
        let p = Array.of_list (split_on '|' input) in
        let exact = float_of_string p.(2) +. float_of_fbits p.(3) in
        if p.(1) = "i" then cmp_round "metrics" "add_delta_i16" (int_of_string impl) exact (-32768) 32767
        else cmp_round "metrics" "add_delta_u16" (int_of_string impl) exact 0 65535
      end
    | "rd" | "gd" ->
      if is_err model || is_err impl then
        (if impl = model then Agree
         else if is_err impl && is_err model then Mismatch "different error"
         else Mismatch "one side fails")
      else if model = "ok:none" || impl = "ok:none" then (if impl = model then Agree else Mismatch "presence of variation data differs")
      else list_cmp (if mode = "rd" then "iup" else "deltas") (strip "ok:" impl) (strip "ok:" model)
          (fun m -> Float.ldexp 1.0 (-6) +. Float.abs m /. 32768.0) 1.0
    | "iv" ->
      if is_err model || is_err impl then
        (if impl = model then Agree else if is_err impl && is_err model then Mismatch "different error" else Mismatch "one side fails")
      else
        let m = parse_q (strip "ok:q:" model) in
        let i = float_of_fbits (strip "ok:" impl) in
        (* f32 accumulates relative errors of the individual terms (i32 deltas are rounded to 24 bits) *)
        let p = Array.of_list (split_on '|' input) in
        let st = parse_store p.(1) p.(2) in
        let mag = (match zints p.(3) with
            | [o; inner] -> (match List.nth_opt st.ivs_data (z_to_int o) with
                | Some d -> (match delta_set d inner with
                    | Some l -> List.fold_left (fun a b -> a +. Float.abs (z_to_float b)) 0.0 l
                    | None -> 0.0)
                | None -> 0.0)
            | _ -> 0.0) in
        cmp_f "item-variation" i m (Float.ldexp 1.0 (-10) +. Float.ldexp mag (-19)) (1.0 +. Float.ldexp mag (-12))
    | "e2e" -> judge_e2e input impl model
    | "fx" -> judge_fx input impl model
    | "c2" | "c2f" -> judge_c2 input impl model
    | _ -> default_judge input impl model

let tag (input : string) (out : string) : string =
  let mode = match String.index_opt input '|' with Some i -> String.sub input 0 i | None -> input in
  if mode = "c2" || mode = "c2f" then begin
    (* where the coordinates lie, whether any region applies, which metrics tables the font has *)
    let p = Array.of_list (split_on '|' input) in
    let c = c2_of_input p in
    let frac = List.exists (function
        | Some l -> List.exists (function Some s -> s <> Z0 && s <> z_of_string "4294967296" | None -> false) l
        | None -> false) (c2_scalars c) in
    mode ^ "-" ^ (if List.for_all (fun v -> v = Z0) c.c_inst then "default"
                  else if c2_no_region_applies c then "noregion"
                  else if frac then "between" else "atpeak")
    ^ (if c.c_hv <> None then "+hvar" else "") ^ (if c.c_mv <> None then "+mvar" else "")
  end else
  mode ^ "-" ^ (if starts_with "err" out then "err" else if starts_with "panic" out then "panic" else "ok")
