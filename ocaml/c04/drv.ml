(* C04: run the extracted GSUB model on one case line and judge the implementation's result.

   input  = M TREE       M = d (debug arithmetic) | r (release); TREE is a parenthesised tree of integers:
     TREE    = ( gdef layout run glyphs )
     opt x   = () | ( x )
     cov     = (1 g ...) | (2 (s e i) ...)            classdef = (1 start v ...) | (2 (s e c) ...)
     gdef    = opt ( opt classdef  opt classdef  opt (cov ...) )
     layout  = ( opt ((tag script) ...)  opt ((tag (li ...)) ...)  opt (lookup ...) )
     script  = ( opt (fi ...)  ((tag (fi ...)) ...) )
     lookup  = ( ext flag opt mfs type (subtable ...) )        ext = serialiser hint (extension wrapping)
     subtable by lookup type:
       1: (1 cov delta) | (2 cov (g ...))          2: (cov ((g ...) ...))        3: (cov ((g ...) ...))
       4: (cov (((lig comp ...) ...) ...))
       5: (1 cov (opt (rule ...) ...)) | (2 cov cd (opt (rule ...) ...)) | (3 (cov ...) recs)
            rule = ((input ...) recs)     recs = ((seqidx lookupidx) ...)
       6: (1 cov (opt (crule ...) ...)) | (2 cov bcd icd lcd (opt (crule ...) ...)) | (3 (cov ..) (cov ..) (cov ..) recs)
            crule = ((back ...) (input ...) (look ...) recs)
       8: (cov (cov ...) (cov ...) (g ...))
     run     = (0 script_tag opt lang ((tag opt alt) ...) num_glyphs)        gsub::apply, Features::Custom
             | (2 script_tag opt lang mask_bits num_glyphs)                  gsub::apply, Features::Mask
             | (1 lookup_index tag opt alt start length)                     gsub_apply_lookup
     glyphs  = ((id (char ...) pos opt origin lig dup vert rest) ...)
   output = ok:G,G,...[|length]  with G = id:c.c.c:pos:origin:LDV:rest   |  err:E  |  panic *)
open Model
open Zconv
open Verdict

type t = I of z | L of t list

let parse_tree (s : string) (start : int) : t =
  let n = String.length s in
  let pos = ref start in
  let rec skip () = if !pos < n && s.[!pos] = ' ' then (incr pos; skip ()) in
  let rec item () : t =
    skip ();
    if !pos >= n then failwith "tree: eof";
    if s.[!pos] = '(' then begin
      incr pos;
      let acc = ref [] in
      let rec loop () =
        skip ();
        if !pos >= n then failwith "tree: unclosed";
        if s.[!pos] = ')' then incr pos else (acc := item () :: !acc; loop ()) in
      loop ();
      L (List.rev !acc)
    end else begin
      let b = !pos in
      while !pos < n && s.[!pos] <> ' ' && s.[!pos] <> '(' && s.[!pos] <> ')' do incr pos done;
      I (z_of_string (String.sub s b (!pos - b)))
    end in
  item ()

let int_ = function I z -> z | L _ -> failwith "expected int"
let list_ = function L l -> l | I _ -> failwith "expected list"
let ints t = List.map int_ (list_ t)
let opt f = function L [] -> None | L [x] -> Some (f x) | _ -> failwith "expected option"
let triple = function L [a; b; c] -> ((int_ a, int_ b), int_ c) | _ -> failwith "triple"
let pair = function L [a; b] -> (int_ a, int_ b) | _ -> failwith "pair"
let zi = z_to_int

let cov = function
  | L (I f :: rest) when zi f = 1 -> CovF1 (List.map int_ rest)
  | L (I f :: rest) when zi f = 2 -> CovF2 (List.map triple rest)
  | _ -> failwith "coverage"
let covs t = List.map cov (list_ t)

let classdef = function
  | L (I f :: I s :: rest) when zi f = 1 -> CdF1 (s, List.map int_ rest)
  | L (I f :: rest) when zi f = 2 -> CdF2 (List.map triple rest)
  | _ -> failwith "classdef"

let gdef_ t = opt (function
  | L [a; b; c] -> { gd_class = opt classdef a; gd_attach = opt classdef b; gd_sets = opt covs c }
  | _ -> failwith "gdef") t

let recs t = List.map pair (list_ t)
let rule = function L [i; r] -> { r_input = ints i; r_recs = recs r } | _ -> failwith "rule"
let crule = function
  | L [b; i; l; r] -> { cr_back = ints b; cr_input = ints i; cr_look = ints l; cr_recs = recs r }
  | _ -> failwith "crule"
let optrules f t = List.map (opt (fun x -> List.map f (list_ x))) (list_ t)

let body (ty : int) (subs : t list) : subst_lookup =
  match ty with
  | 1 -> LSingle (List.map (function
      | L [I f; c; I d] when zi f = 1 -> SingleF1 (cov c, d)
      | L [I f; c; g] when zi f = 2 -> SingleF2 (cov c, ints g)
      | _ -> failwith "single") subs)
  | 2 -> LMultiple (List.map (function
      | L [c; s] -> { ms_cov = cov c; ms_seqs = List.map ints (list_ s) } | _ -> failwith "multiple") subs)
  | 3 -> LAlternate (List.map (function
      | L [c; s] -> { as_cov = cov c; as_sets = List.map ints (list_ s) } | _ -> failwith "alternate") subs)
  | 4 -> LLigature (List.map (function
      | L [c; s] ->
        { ls_cov = cov c;
          ls_sets = List.map (fun set -> List.map (fun l ->
            match ints l with g :: comps -> { lig_glyph = g; lig_comps = comps } | [] -> failwith "lig") (list_ set)) (list_ s) }
      | _ -> failwith "ligature") subs)
  | 5 -> LContext (List.map (function
      | L [I f; c; s] when zi f = 1 -> CtxF1 (cov c, optrules rule s)
      | L [I f; c; cd; s] when zi f = 2 -> CtxF2 (cov c, classdef cd, optrules rule s)
      | L [I f; cs; r] when zi f = 3 -> CtxF3 (covs cs, recs r)
      | _ -> failwith "context") subs)
  | 6 -> LChain (List.map (function
      | L [I f; c; s] when zi f = 1 -> ChF1 (cov c, optrules crule s)
      | L [I f; c; b; i; l; s] when zi f = 2 -> ChF2 (cov c, classdef b, classdef i, classdef l, optrules crule s)
      | L [I f; b; i; l; r] when zi f = 3 -> ChF3 (covs b, covs i, covs l, recs r)
      | _ -> failwith "chain") subs)
  | 8 -> LReverse (List.map (function
      | L [c; b; l; g] -> { rc_cov = cov c; rc_back = covs b; rc_look = covs l; rc_subst = ints g }
      | _ -> failwith "reverse") subs)
  | _ -> failwith "lookup type"

let lookup_ = function
  | L [_ext; I flag; mfs; I ty; L subs] -> { lk_flag = flag; lk_mfs = opt int_ mfs; lk_body = body (zi ty) subs }
  | _ -> failwith "lookup"

let langsys_ t = ints t
let script_ = function
  | L [d; l] ->
    { sc_default = opt langsys_ d;
      sc_langs = List.map (function L [I tg; ls] -> (tg, langsys_ ls) | _ -> failwith "langsys rec") (list_ l) }
  | _ -> failwith "script"

let layout_ = function
  | L [s; f; l] ->
    { lt_scripts = opt (fun x -> List.map (function L [I tg; sc] -> (tg, script_ sc) | _ -> failwith "script rec") (list_ x)) s;
      lt_features = opt (fun x -> List.map (function L [I tg; li] -> (tg, ints li) | _ -> failwith "feature") (list_ x)) f;
      lt_lookups = opt (fun x -> List.map lookup_ (list_ x)) l }
  | _ -> failwith "layout"

let bool_ t = zi (int_ t) <> 0
let glyph_ = function
  | L [I id; ch; I pos; org; lig; dup; vert; I rest] ->
    { g_id = id; g_chars = ints ch; g_pos = pos; g_origin = opt int_ org;
      g_lig = bool_ lig; g_dup = bool_ dup; g_vert = bool_ vert; g_rest = rest }
  | _ -> failwith "glyph"

let glyph_to_string (g : glyph) : string =
  Printf.sprintf "%s:%s:%s:%s:%d%d%d:%s" (z_to_string g.g_id)
    (if g.g_chars = [] then "-" else String.concat "." (List.map z_to_string g.g_chars))
    (z_to_string g.g_pos)
    (match g.g_origin with Some c -> z_to_string c | None -> "-")
    (if g.g_lig then 1 else 0) (if g.g_dup then 1 else 0) (if g.g_vert then 1 else 0)
    (z_to_string g.g_rest)

let glyphs_to_string gs = String.concat "," (List.map glyph_to_string gs)

let split_input (input : string) : mode * t =
  let m = if String.length input > 0 && input.[0] = 'd' then Debug else Release in
  (m, parse_tree input 1)

let run (input : string) : string =
  let (m, tree) = split_input input in
  match tree with
  | L [gd; lay; run; gl] ->
    let gd = gdef_ gd in
    let lay = layout_parse (layout_ lay) in
    let gs = List.map glyph_ (list_ gl) in
    (match run with
     | L [I k; I script; lang; feats; I ng] when zi k = 0 ->
       let feats = List.map (function L [I tg; alt] -> (tg, opt int_ alt) | _ -> failwith "feat") (list_ feats) in
       outcome_to_string glyphs_to_string (gsub_apply_custom m lay gd script (opt int_ lang) feats ng gs)
     | L [I k; I script; lang; I mask; I ng] when zi k = 2 ->
       outcome_to_string glyphs_to_string (gsub_apply_default m lay gd script (opt int_ lang) mask ng gs)
     | L [I k; I li; I tg; alt; I start; I length] when zi k = 1 ->
       outcome_to_string (fun (gs', l) -> glyphs_to_string gs' ^ "|" ^ z_to_string l)
         (gsub_apply_lookup m lay.lt_lookups gd li tg (opt int_ alt) gs start length)
     | _ -> failwith "run")
  | _ -> failwith "c04 input"

(* ---- histogram class of a case: run kind (A = gsub::apply, L<type> = gsub_apply_lookup on a lookup of
   that type), result kind, and whether the glyph ids changed *)
let tag (input : string) (out : string) : string =
  let (_, tree) = try split_input input with _ -> (Debug, L []) in
  try
    match tree with
    | L [_; L [_; _; lk]; run; L gl] ->
      let k = (match run with
          | L (I k :: I li :: _) when zi k = 1 ->
            (match lk with
             | L [L ls] -> (match List.nth_opt ls (zi li) with Some (L [_; _; _; I ty; _]) -> "L" ^ string_of_int (zi ty) | _ -> "Lx")
             | _ -> "L-")
          | L (I k :: _) when zi k = 2 -> "M"
          | _ -> "A") in
      let ids_in = String.concat " " (List.map (function L (I id :: _) -> z_to_string id | _ -> "?") gl) in
      let res =
        if starts_with "ok:" out then begin
          let b = String.sub out 3 (String.length out - 3) in
          let b = (match String.index_opt b '|' with Some k -> String.sub b 0 k | None -> b) in
          let ids_out = if b = "" then "" else
              String.concat " " (List.map (fun g -> List.hd (split_on ':' g)) (split_on ',' b)) in
          if ids_in = ids_out then "same" else "changed"
        end
        else if starts_with "err" out then "err" else out in
      k ^ "/" ^ res
    | _ -> "?"
  with _ -> "?"

(* ---- the judge.  The model is proved to meet the declarative GSUB semantics (Props/C04.v), so the model's
   glyph sequence is the specified one.  What the property observes: glyph ids, unicodes, ligature and
   duplicate flags, liga_component_pos.  A difference confined to the other fields (origin, vert flag,
   carried bits) or to the returned window length is a broken correspondence, not a property violation. *)
let fields (g : string) = split_on ':' g

let observed (g : string) : string =
  match fields g with
  | [id; ch; pos; _org; flags; _rest] when String.length flags = 3 ->
    Printf.sprintf "%s:%s:%s:%c%c" id ch pos flags.[0] flags.[1]
  | _ -> g

(* `Whole`: gsub::apply, or gsub_apply_lookup with start = 0 and length = |glyphs| (what the property is
   about); `Window`: a proper sub-window that lies inside the glyph vector (what the FRAC path and the
   script-specific shapers pass); `Outside`: start + length > |glyphs|, a caller error that panics by design. *)
type scope = Whole | Window | Outside

let scope_of (input : string) : scope =
  try
    let (_, tree) = split_input input in
    match tree with
    | L [_; _; L (I k :: rest); L gl] ->
      if zi k = 0 || zi k = 2 then Whole
      else (match rest with
          | [_; _; _; I start; I length] ->
            (match z_to_int_opt start, z_to_int_opt length with
             | Some s, Some l ->
               if s = 0 && l = List.length gl then Whole
               else if s >= 0 && l >= 0 && s + l <= List.length gl then Window
               else Outside
             | _ -> Outside)
          | _ -> Outside)
    | _ -> Outside
  with _ -> Outside

(* Independent oracle for single-substitution lookups run through gsub_apply_lookup: which glyphs take part is
   decided by the declarative skip_spec (Model/LayoutSpec.v), not by the model's match_glyph.  This is what
   makes the known deviation F12 (mark attachment type combined with a mark filtering set) observable: there
   the model follows the implementation, the specification does not.  Returns Some reason on a deviation. *)
let spec_single_check (input : string) (impl : string) : string option =
  try
    let (_, tree) = split_input input in
    match tree with
    | L [gd; lay; L [I k; I li; I tg; _alt; I start; I length]; L gl] when zi k = 1 && starts_with "ok:" impl ->
      let gd = gdef_ gd in
      let lay = layout_parse (layout_ lay) in
      let gs = List.map glyph_ gl in
      (match lay.lt_lookups with
       | Some lks ->
         (match List.nth_opt lks (zi li) with
          | Some { lk_flag = f; lk_mfs = mfs; lk_body = LSingle subs } ->
            let s = zi start and l = zi length in
            if s < 0 || l < 0 || s + l > List.length gs then None else begin
              let body = String.sub impl 3 (String.length impl - 3) in
              let body = (match String.index_opt body '|' with Some k -> String.sub body 0 k | None -> body) in
              let out = if body = "" then [] else split_on ',' body in
              if List.length out <> List.length gs then None else begin
                let res = ref None in
                List.iteri (fun k (g, o) ->
                    if !res = None && k >= s && k < s + l then begin
                      let expected =
                        if skip_spec f mfs gd g.g_id then Some g.g_id
                        else (match singlesubst subs tg g with Ok g' -> Some g'.g_id | _ -> None) in
                      let got = List.hd (split_on ':' o) in
                      match expected with
                      | Some e when z_to_string e <> got ->
                        res := Some (Printf.sprintf "glyph %d is %s, the lookup-flag rule of the specification gives %s (flag %s%s)"
                                       k got (z_to_string e) (z_to_string f)
                                       (if flag_combines_attach_and_set f mfs then ": mark attachment type and mark filtering set combined" else ""))
                      | _ -> ()
                    end) (List.combine gs out);
                !res
              end
            end
          | _ -> None)
       | None -> None)
    | _ -> None
  with _ -> None

let judge (input : string) (impl : string) (model : string) : verdict =
  match spec_single_check input impl with
  | Some why -> Violation ("skip-spec", why)
  | None ->
  if impl = model then begin
    if impl = "panic" then
      (match scope_of input with
       | Whole -> Violation ("panic", "substitution over the whole run panicked (the model reproduces it)")
       | Window -> Violation ("window-panic", "length bookkeeping of a sub-window panicked (modelled: a ligature or nested lookup consumed glyphs beyond the window)")
       | Outside -> Agree)
    else Agree
  end
  else if starts_with "MODEL-EXN" model then Mismatch "model driver failed to parse the case"
  else if impl = "panic" then
    (if scope_of input <> Outside then Violation ("panic", "substitution panicked; specified result " ^ (String.sub model 0 (min 60 (String.length model))))
     else Mismatch "implementation panicked on an out-of-range window, model did not")
  else if model = "panic" then Mismatch ("model panics, implementation returned " ^ (String.sub impl 0 (min 60 (String.length impl))))
  else if starts_with "err" impl || starts_with "err" model then
    Violation ("error", Printf.sprintf "implementation %s, specified %s"
                 (String.sub impl 0 (min 40 (String.length impl))) (String.sub model 0 (min 40 (String.length model))))
  else begin
    let body s =
      let s = String.sub s 3 (String.length s - 3) in
      match String.index_opt s '|' with
      | Some k -> (String.sub s 0 k, String.sub s (k + 1) (String.length s - k - 1))
      | None -> (s, "") in
    let (gi, li) = body impl and (gm, lm) = body model in
    let a = if gi = "" then [] else split_on ',' gi and b = if gm = "" then [] else split_on ',' gm in
    if List.length a <> List.length b then
      Violation ("subst", Printf.sprintf "output has %d glyphs, specified %d" (List.length a) (List.length b))
    else begin
      let rec go k a b =
        match a, b with
        | x :: a', y :: b' ->
          if observed x <> observed y then
            Some (Printf.sprintf "glyph %d is %s, specified %s" k (observed x) (observed y))
          else go (k + 1) a' b'
        | _ -> None in
      match go 0 a b with
      | Some why -> Violation ("subst", why)
      | None ->
        if li <> lm then Mismatch (Printf.sprintf "returned length %s, model %s" li lm)
        else Mismatch "glyph fields outside the property (origin / vert / carried bits) differ"
    end
  end
