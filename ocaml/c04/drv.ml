(* C04: run the extracted GSUB model on one case line and judge the implementation's result.

   input  = M TREE       M = d (debug arithmetic) | r (release); TREE is a parenthesised tree of integers:
     TREE    = ( gdef layout run glyphs )
     opt x   = () | ( x )
     cov     = (1 g ...) | (2 (s e i) ...)            classdef = (1 start v ...) | (2 (s e c) ...)
     gdef    = opt ( opt classdef  opt classdef  opt (cov ...) )
     layout  = ( opt ((tag script) ...)  opt ((tag (li ...)) ...)  opt (lookup ...) )
     script  = ( opt (fi ...)  ((tag (fi ...)) ...) )
     lookup  = ( ext flag opt mfs type (subtable ...) )        ext = serialiser hint (extension wrapping)
     subtable by lookup type:
       1: (1 cov delta) | (2 cov (g ...))          2: (cov ((g ...) ...))        3: (cov ((g ...) ...))
       4: (cov (((lig comp ...) ...) ...))
       5: (1 cov (opt (rule ...) ...)) | (2 cov cd (opt (rule ...) ...)) | (3 (cov ...) recs)
            rule = ((input ...) recs)     recs = ((seqidx lookupidx) ...)
       6: (1 cov (opt (crule ...) ...)) | (2 cov bcd icd lcd (opt (crule ...) ...)) | (3 (cov ..) (cov ..) (cov ..) recs)
            crule = ((back ...) (input ...) (look ...) recs)
       8: (cov (cov ...) (cov ...) (g ...))
     run     = (0 script_tag opt lang ((tag opt alt) ...) num_glyphs)        gsub::apply, Features::Custom
             | (2 script_tag opt lang mask_bits num_glyphs)                  gsub::apply, Features::Mask
             | (1 lookup_index tag opt alt start length)                     gsub_apply_lookup
     glyphs  = ((id (char ...) pos opt origin lig dup vert rest) ...)
   TREE may have an optional fifth element (feature variations; lines without it are version 1.0 tables, tuple None):
     fvx     = ( minor off_kind (byte ...) opt (raw ...) )
       minor     GSUB header version 1.<minor>; with minor > 0 the header has the 32-bit featureVariationsOffset
       off_kind  0: the offset of the bytes below (they are the tail of the table), 1: NULL, k >= 2: k - 2 bytes
                 beyond the end of the table
       bytes     the FeatureVariations table: u16 major, u16 minor, u32 count, count x (u32 conditionSetOffset,
                 u32 featureTableSubstitutionOffset); ConditionSet = u16 count, u32 offsets; Condition = u16 format
                 (1), u16 axisIndex, i16 min, i16 max (F2Dot14); FeatureTableSubstitution = u16 major, u16 minor,
                 u16 count, count x (u16 featureIndex, u32 alternateFeatureOffset); Feature = u16 params, u16 count,
                 u16 lookup indices
       tuple     the variation tuple handed to gsub::apply: F2Dot14 raw values; () = None
   TREE may have an optional sixth element (then the fifth is an fvx or `()` = none): the case goes through
   Font::shape on a synthetic font (cmap / head / maxp with num_glyphs / hhea / hmtx + the tables below):
     font    = ( gpos gdef kern kerning morx )
       gpos     0: no GPOS table, 1: GPOS 1.0 with NULL list offsets, 2: unreadable (truncated) GPOS, 3: GPOS 1.0 with
                empty script / feature / lookup lists
       gdef     0: the font has no GDEF table, 1: the font's GDEF is the case's gdef, 2: unreadable GDEF table
       kern     0: none, 1: version 0 without subtables, 2: unreadable        kerning  the flag given to Font::shape
       morx     1: an unreadable morx table (never used: the font has GSUB)
     output of such a case:  shape[E] ok:G,... ~ D     E = `-` or the error Font::shape returned (the glyphs are
     those of the Infos either way), D = the output of gsub::apply called directly on the same GSUB bytes with the
     GDEF the font carries (readable) and the font's dotted-circle glyph
   output = ok:G,G,...[|length]  with G = id:c.c.c:pos:origin:LDV:rest   |  err:E  |  panic  |  gsub-unreadable:E *)
open Model
open Zconv
open Verdict

type t = I of z | L of t list

let parse_tree (s : string) (start : int) : t =
  let n = String.length s in
  let pos = ref start in
  let rec skip () = if !pos < n && s.[!pos] = ' ' then (incr pos; skip ()) in
  let rec item () : t =
    skip ();
    if !pos >= n then failwith "tree: eof";
    if s.[!pos] = '(' then begin
      incr pos;
      let acc = ref [] in
      let rec loop () =
        skip ();
        if !pos >= n then failwith "tree: unclosed";
        if s.[!pos] = ')' then incr pos else (acc := item () :: !acc; loop ()) in
      loop ();
      L (List.rev !acc)
    end else begin
      let b = !pos in
      while !pos < n && s.[!pos] <> ' ' && s.[!pos] <> '(' && s.[!pos] <> ')' do incr pos done;
      I (z_of_string (String.sub s b (!pos - b)))
    end in
  item ()

let int_ = function I z -> z | L _ -> failwith "expected int"
let list_ = function L l -> l | I _ -> failwith "expected list"
let ints t = List.map int_ (list_ t)
let opt f = function L [] -> None | L [x] -> Some (f x) | _ -> failwith "expected option"
let triple = function L [a; b; c] -> ((int_ a, int_ b), int_ c) | _ -> failwith "triple"
let pair = function L [a; b] -> (int_ a, int_ b) | _ -> failwith "pair"
let zi = z_to_int

let cov = function
  | L (I f :: rest) when zi f = 1 -> CovF1 (List.map int_ rest)
  | L (I f :: rest) when zi f = 2 -> CovF2 (List.map triple rest)
  | _ -> failwith "coverage"
let covs t = List.map cov (list_ t)

let classdef = function
  | L (I f :: I s :: rest) when zi f = 1 -> CdF1 (s, List.map int_ rest)
  | L (I f :: rest) when zi f = 2 -> CdF2 (List.map triple rest)
  | _ -> failwith "classdef"

let gdef_ t = opt (function
  | L [a; b; c] -> { gd_class = opt classdef a; gd_attach = opt classdef b; gd_sets = opt covs c }
  | _ -> failwith "gdef") t

let recs t = List.map pair (list_ t)
let rule = function L [i; r] -> { r_input = ints i; r_recs = recs r } | _ -> failwith "rule"
let crule = function
  | L [b; i; l; r] -> { cr_back = ints b; cr_input = ints i; cr_look = ints l; cr_recs = recs r }
  | _ -> failwith "crule"
let optrules f t = List.map (opt (fun x -> List.map f (list_ x))) (list_ t)

let body (ty : int) (subs : t list) : subst_lookup =
  match ty with
  | 1 -> LSingle (List.map (function
      | L [I f; c; I d] when zi f = 1 -> SingleF1 (cov c, d)
      | L [I f; c; g] when zi f = 2 -> SingleF2 (cov c, ints g)
      | _ -> failwith "single") subs)
  | 2 -> LMultiple (List.map (function
      | L [c; s] -> { ms_cov = cov c; ms_seqs = List.map ints (list_ s) } | _ -> failwith "multiple") subs)
  | 3 -> LAlternate (List.map (function
      | L [c; s] -> { as_cov = cov c; as_sets = List.map ints (list_ s) } | _ -> failwith "alternate") subs)
  | 4 -> LLigature (List.map (function
      | L [c; s] ->
        { ls_cov = cov c;
          ls_sets = List.map (fun set -> List.map (fun l ->
            match ints l with g :: comps -> { lig_glyph = g; lig_comps = comps } | [] -> failwith "lig") (list_ set)) (list_ s) }
      | _ -> failwith "ligature") subs)
  | 5 -> LContext (List.map (function
      | L [I f; c; s] when zi f = 1 -> CtxF1 (cov c, optrules rule s)
      | L [I f; c; cd; s] when zi f = 2 -> CtxF2 (cov c, classdef cd, optrules rule s)
      | L [I f; cs; r] when zi f = 3 -> CtxF3 (covs cs, recs r)
      | _ -> failwith "context") subs)
  | 6 -> LChain (List.map (function
      | L [I f; c; s] when zi f = 1 -> ChF1 (cov c, optrules crule s)
      | L [I f; c; b; i; l; s] when zi f = 2 -> ChF2 (cov c, classdef b, classdef i, classdef l, optrules crule s)
      | L [I f; b; i; l; r] when zi f = 3 -> ChF3 (covs b, covs i, covs l, recs r)
      | _ -> failwith "chain") subs)
  | 8 -> LReverse (List.map (function
      | L [c; b; l; g] -> { rc_cov = cov c; rc_back = covs b; rc_look = covs l; rc_subst = ints g }
      | _ -> failwith "reverse") subs)
  | _ -> failwith "lookup type"

let lookup_ = function
  | L [_ext; I flag; mfs; I ty; L subs] -> { lk_flag = flag; lk_mfs = opt int_ mfs; lk_body = body (zi ty) subs }
  | _ -> failwith "lookup"

let langsys_ t = ints t
let script_ = function
  | L [d; l] ->
    { sc_default = opt langsys_ d;
      sc_langs = List.map (function L [I tg; ls] -> (tg, langsys_ ls) | _ -> failwith "langsys rec") (list_ l) }
  | _ -> failwith "script"

let layout_ = function
  | L [s; f; l] ->
    { lt_scripts = opt (fun x -> List.map (function L [I tg; sc] -> (tg, script_ sc) | _ -> failwith "script rec") (list_ x)) s;
      lt_features = opt (fun x -> List.map (function L [I tg; li] -> (tg, ints li) | _ -> failwith "feature") (list_ x)) f;
      lt_lookups = opt (fun x -> List.map lookup_ (list_ x)) l }
  | _ -> failwith "layout"

let bool_ t = zi (int_ t) <> 0
let glyph_ = function
  | L [I id; ch; I pos; org; lig; dup; vert; I rest] ->
    { g_id = id; g_chars = ints ch; g_pos = pos; g_origin = opt int_ org;
      g_lig = bool_ lig; g_dup = bool_ dup; g_vert = bool_ vert; g_rest = rest }
  | _ -> failwith "glyph"

let glyph_to_string (g : glyph) : string =
  Printf.sprintf "%s:%s:%s:%s:%d%d%d:%s" (z_to_string g.g_id)
    (if g.g_chars = [] then "-" else String.concat "." (List.map z_to_string g.g_chars))
    (z_to_string g.g_pos)
    (match g.g_origin with Some c -> z_to_string c | None -> "-")
    (if g.g_lig then 1 else 0) (if g.g_dup then 1 else 0) (if g.g_vert then 1 else 0)
    (z_to_string g.g_rest)

let glyphs_to_string gs = String.concat "," (List.map glyph_to_string gs)

let split_input (input : string) : mode * t =
  let m = if String.length input > 0 && input.[0] = 'd' then Debug else Release in
  (m, parse_tree input 1)

(* ---- feature variations: the optional fifth element *)
type fvx = { fx_minor : int; fx_off : int; fx_bytes : int list; fx_tuple : int list option }

let fvx_ = function
  | L [I minor; I off; L bytes; tu] ->
    { fx_minor = zi minor; fx_off = zi off; fx_bytes = List.map (fun b -> zi (int_ b)) bytes;
      fx_tuple = opt (fun t -> List.map zi (ints t)) tu }
  | _ -> failwith "fvx"

let split_top (tree : t) : (t * t * t * t * fvx option) =
  match tree with
  | L [gd; lay; run; gl] -> (gd, lay, run, gl, None)
  | L [gd; lay; run; gl; x] -> (gd, lay, run, gl, Some (fvx_ x))
  | _ -> failwith "c04 input"

(* ---- Font::shape: the optional sixth element.  What Font::shape decides before it calls gsub::apply is which
   tables reach it: the font's GSUB (unreadable: nothing is substituted), the font's GDEF (absent or unreadable:
   substitution runs without glyph classes) -- whatever else the font holds (GPOS, kern, morx) and whatever the
   kerning flag says.  `split_font` rewrites such a case into the plain gsub::apply case with exactly these tables;
   everything below (model, feature-variations oracle, judge) then works on the rewritten line. *)
type font = { f_gpos : int; f_gdef : int; f_kern : int; f_kerning : int; f_morx : int }

let rec tree_to_string = function
  | I z -> z_to_string z
  | L l -> "(" ^ String.concat " " (List.map tree_to_string l) ^ ")"

let split_font (input : string) : string * font option =
  let (_, tree) = split_input input in
  let line elems = String.make 1 input.[0] ^ " " ^ tree_to_string (L elems) in
  match tree with
  | L [gd; lay; run; gl; fx; L [I a; I b; I c; I d; I e]] ->
    let f = { f_gpos = zi a; f_gdef = zi b; f_kern = zi c; f_kerning = zi d; f_morx = zi e } in
    let gd' = if f.f_gdef = 1 then gd else L [] in
    (line ([gd'; lay; run; gl] @ (if fx = L [] then [] else [fx])), Some f)
  | L [gd; lay; run; gl; L []] -> (line [gd; lay; run; gl], None)
  | _ -> (input, None)

(* a table of the font that Font::shape loads and cannot read: it reports the first such error (and forges ahead) *)
let font_table_error (f : font) : bool = f.f_gpos = 2 || f.f_gdef = 2 || f.f_kern = 2 || f.f_morx = 1

(* what Font::shape must return, given the result `base` of gsub::apply on the tables the font carries:
   `shape[E] ok:G`; E = `-`, an error name, or `*` (some error: which one an unreadable GPOS / GDEF / kern / morx
   table produces is not C04's business); G = `?` when substitution itself failed (state of the run unspecified) *)
let shape_expected (f : font) (input_glyphs : string) (base : string) : string =
  let env = font_table_error f in
  if starts_with "ok:" base then
    (let b = String.sub base 3 (String.length base - 3) in
     Printf.sprintf "shape[%s] ok:%s" (if env then "*" else "-") b)
  else if starts_with "gsub-unreadable:" base then
    (* gsub_cache() is the first table loaded: its error is the one reported, the glyphs stay as they were *)
    Printf.sprintf "shape[%s] ok:%s" (String.sub base 16 (String.length base - 16)) input_glyphs
  else if starts_with "err:" base then
    Printf.sprintf "shape[%s] ok:?" (if env then "*" else String.sub base 4 (String.length base - 4))
  else base

let input_glyphs_of (input : string) : string =
  let (_, tree) = split_input input in
  match tree with
  | L (_ :: _ :: _ :: gl :: _) -> glyphs_to_string (List.map glyph_ (list_ gl))
  | _ -> failwith "c04 input"

(* the table the model reads: a version 1.<minor> header without lists whose featureVariationsOffset points at the
   bytes (the real table has the lists in between; the FeatureVariations scope is the same byte string) *)
let synthetic_table (x : fvx) : z list =
  let hdr = [0; 1; (x.fx_minor lsr 8) land 255; x.fx_minor land 255; 0; 0; 0; 0; 0; 0] in
  let off = if x.fx_off = 0 then 14 else if x.fx_off = 1 then 0 else 14 + List.length x.fx_bytes + (x.fx_off - 2) in
  let field = if x.fx_minor > 0 then [(off lsr 24) land 255; (off lsr 16) land 255; (off lsr 8) land 255; off land 255] else [] in
  List.map z_of_int (hdr @ field @ (if x.fx_minor > 0 then x.fx_bytes else []))

let run_on (m : mode) (lay : layout_table) (gd : gdef option) (gs : glyph list) (run : t)
    (custom : z -> z option -> (z * z option) list -> z -> glyph list outcome)
    (mask : z -> z option -> z -> z -> glyph list outcome) : string =
  match run with
  | L [I k; I script; lang; feats; I ng] when zi k = 0 ->
    let feats = List.map (function L [I tg; alt] -> (tg, opt int_ alt) | _ -> failwith "feat") (list_ feats) in
    outcome_to_string glyphs_to_string (custom script (opt int_ lang) feats ng)
  | L [I k; I script; lang; I mask_; I ng] when zi k = 2 ->
    outcome_to_string glyphs_to_string (mask script (opt int_ lang) mask_ ng)
  | L [I k; I li; I tg; alt; I start; I length] when zi k = 1 ->
    outcome_to_string (fun (gs', l) -> glyphs_to_string gs' ^ "|" ^ z_to_string l)
      (gsub_apply_lookup m lay.lt_lookups gd li tg (opt int_ alt) gs start length)
  | _ -> failwith "run"

let run_core (input : string) : string =
  let (m, tree) = split_input input in
  let (gd, lay, run, gl, fx) = split_top tree in
  let gd = gdef_ gd in
  let lay = layout_parse (layout_ lay) in
  let gs = List.map glyph_ (list_ gl) in
  match fx with
  | None ->
    run_on m lay gd gs run
      (fun script lang feats ng -> gsub_apply_custom m lay gd script lang feats ng gs)
      (fun script lang mask ng -> gsub_apply_default m lay gd script lang mask ng gs)
  | Some x ->
    (match layout_read_fv m (synthetic_table x) with
     | Err e -> "gsub-unreadable:" ^ err_to_string e
     | Panic -> "panic"
     | OOB -> "oob"
     | Ok fvt ->
       let tu = (match x.fx_tuple with Some t -> Some (List.map z_of_int t) | None -> None) in
       run_on m lay gd gs run
         (fun script lang feats ng -> gsub_apply_custom_v m lay fvt gd script lang feats tu ng gs)
         (fun script lang mask ng -> gsub_apply_default_v m lay fvt gd script lang mask tu ng gs))

(* ---- independent oracle for feature variations.  It works on the case data with OCaml integers and arrays, not
   with the extracted model: it decodes the FeatureVariations bytes, evaluates the condition sets against the
   tuple, finds THE FIRST record whose condition set matches and whose substitution table has a supported
   version (a NULL substitution offset included), replaces the lookup lists of the substituted feature indices
   in the abstract feature list, and only then asks the (proved) lookup-application model for the glyphs. *)
exception Fv_eof
exception Fv_badversion

type fv_choice =
  | FvNone of string                                  (* no substitution in force, why *)
  | FvChosen of int * (int * int list option) list option   (* record index; None = NULL offset; else (feature index, alternate) in table order *)

type fv_decision =
  | FvUnreadable of string
  | FvShapingError of string
  | FvDecided of fv_choice

let fv_oracle_decide (x : fvx) : fv_decision =
  let d = Array.of_list x.fx_bytes in
  let n = Array.length d in
  (* `need o k`: k bytes at offset o, as one bounds check (read_u16be / read_array) *)
  let need o k = if o > n || k > n - o then raise Fv_eof in
  let u16 o = need o 2; d.(o) * 256 + d.(o + 1) in
  let i16 o = let v = u16 o in if v >= 32768 then v - 65536 else v in
  let u32 o = need o 4; ((d.(o) * 256 + d.(o + 1)) * 256 + d.(o + 2)) * 256 + d.(o + 3) in
  if x.fx_minor <= 0 then FvDecided (FvNone "header version 1.0")
  else if x.fx_off = 1 then FvDecided (FvNone "NULL featureVariationsOffset")
  else begin
    try
      if x.fx_off >= 2 then raise Fv_eof;
      let major = u16 0 in
      if major <> 1 then raise Fv_badversion;
      let _minor = u16 2 in
      let count = u32 4 in
      need 8 (8 * count);
      let records = List.init count (fun k -> (u32 (8 + 8 * k), u32 (12 + 8 * k))) in
      match x.fx_tuple with
      | None -> FvDecided (FvNone "no variation tuple")
      | Some tu ->
        let tu = Array.of_list tu in
        let condition_holds o =
          try
            let format = u16 o in
            if format <> 1 then false
            else begin
              need (o + 2) 6;
              let axis = u16 (o + 2) and mn = i16 (o + 4) and mx = i16 (o + 6) in
              axis < Array.length tu && mn <= tu.(axis) && tu.(axis) <= mx
            end
          with Fv_eof -> false in
        let cond_set_holds cs =
          if cs = 0 then true
          else begin
            let cnt = u16 cs in
            need (cs + 2) (4 * cnt);
            let offs = List.init cnt (fun k -> u32 (cs + 2 + 4 * k)) in
            List.for_all (fun o -> condition_holds (cs + o)) offs
          end in
        let alternate st o =
          try
            let _params = u16 (st + o) in
            let cnt = u16 (st + o + 2) in
            need (st + o + 4) (2 * cnt);
            Some (List.init cnt (fun k -> u16 (st + o + 4 + 2 * k)))
          with Fv_eof -> None in
        let substitution st =
          if st = 0 then None
          else begin
            let major = u16 st in
            if major <> 1 then raise Fv_badversion;
            let _minor = u16 (st + 2) in
            let cnt = u16 (st + 4) in
            need (st + 6) (6 * cnt);
            Some (List.init cnt (fun k -> let fi = u16 (st + 6 + 6 * k) and o = u32 (st + 8 + 6 * k) in (fi, alternate st o)))
          end in
        let rec first k = function
          | [] -> FvDecided (FvNone "no feature variation record matches")
          | (cs, st) :: rest ->
            if cond_set_holds cs then
              (match (try Some (substitution st) with Fv_badversion -> None) with
               | Some sub -> FvDecided (FvChosen (k, sub))
               | None -> first (k + 1) rest)            (* unsupported version: rejected, go on *)
            else first (k + 1) rest in
        (try first 0 records with Fv_eof -> FvShapingError "Eof")
    with
    | Fv_eof -> FvUnreadable "Eof"
    | Fv_badversion -> FvUnreadable "BadVersion"
  end

(* "If a record is encountered with a higher feature index value, stop searching for that feature index;
   no substitution is made." *)
let rec fv_oracle_substitute (recs : (int * int list option) list) (fi : int) : int list option =
  match recs with
  | [] -> None
  | (i, alt) :: rest -> if i = fi then alt else if i > fi then None else fv_oracle_substitute rest fi

let fv_describe (dec : fv_decision) : string =
  match dec with
  | FvUnreadable e -> "FeatureVariations table unreadable (" ^ e ^ ")"
  | FvShapingError e -> "a condition set / substitution table that had to be read is unreadable (" ^ e ^ ")"
  | FvDecided (FvNone why) -> "no substitution: " ^ why
  | FvDecided (FvChosen (k, None)) -> Printf.sprintf "first matching record is %d with a NULL substitution: features unchanged" k
  | FvDecided (FvChosen (k, Some recs)) ->
    Printf.sprintf "first matching record is %d, substituting %s" k
      (String.concat " " (List.map (fun (fi, alt) ->
           Printf.sprintf "feature[%d]->%s" fi
             (match alt with Some l -> "(" ^ String.concat " " (List.map string_of_int l) ^ ")" | None -> "unreadable")) recs))

(* expected output of a case with a fifth element, by the oracle; None for cases without one *)
let fv_expected (input : string) : (string * fv_decision) option =
  let (m, tree) = split_input input in
  match split_top tree with
  | (_, _, _, _, None) -> None
  | (gd, lay, run, gl, Some x) ->
    let dec = fv_oracle_decide x in
    let expected =
      match dec with
      | FvUnreadable e -> "gsub-unreadable:" ^ e
      | _ ->
        let gd = gdef_ gd in
        let lay0 = layout_ lay in
        let gs = List.map glyph_ (list_ gl) in
        let has_tuple = x.fx_tuple <> None in
        let fails = (match dec with FvShapingError e -> Some e | _ -> None) in
        let lay1 =
          (match dec with
           | FvDecided (FvChosen (_, Some recs)) ->
             { lay0 with lt_features =
                 (match lay0.lt_features with
                  | Some fl -> Some (List.mapi (fun i (tg, li) ->
                      match fv_oracle_substitute recs i with
                      | Some alt -> (tg, List.map z_of_int alt)
                      | None -> (tg, li)) fl)
                  | None -> None) }
           | _ -> lay0) in
        let lay1 = layout_parse lay1 in
        let script_found script lang =
          (match lay1.lt_scripts with
           | None -> false
           | Some l ->
             let find tg = List.find_opt (fun (t, _) -> z_eqb t tg) l in
             (match (match find script with Some s -> Some s | None -> find tAG_DFLT) with
              | None -> false
              | Some (_, sc) ->
                (match lang with
                 | Some tg -> (match List.find_opt (fun (t, _) -> z_eqb t tg) sc.sc_langs with Some _ -> true | None -> sc.sc_default <> None)
                 | None -> sc.sc_default <> None))) in
        run_on m lay1 gd gs run
          (fun script lang feats ng ->
             (* gsub_apply_custom evaluates the variations only once script and language system are found *)
             match fails with
             | Some _ when script_found script lang -> Err Eof
             | _ -> gsub_apply_custom m lay1 gd script lang feats ng gs)
          (fun script lang mask ng ->
             match fails with
             | Some _ -> Err Eof
             | None -> gsub_apply_default_t m lay1 gd script lang mask has_tuple ng gs) in
    Some (expected, dec)

(* ---- histogram class of a case: run kind (A = gsub::apply, L<type> = gsub_apply_lookup on a lookup of
   that type), result kind, and whether the glyph ids changed *)
let tag_core (input : string) (out : string) : string =
  let (_, tree) = try split_input input with _ -> (Debug, L []) in
  try
    match tree with
    | L (_ :: L [_; _; lk] :: run :: L gl :: fx) ->
      let fvclass =
        (match fx with
         | [x] ->
           (match (try fv_oracle_decide (fvx_ x) with _ -> FvUnreadable "?") with
            | FvUnreadable _ -> "+fv:unreadable"
            | FvShapingError _ -> "+fv:error"
            | FvDecided (FvNone _) -> "+fv:none"
            | FvDecided (FvChosen (_, None)) -> "+fv:null"
            | FvDecided (FvChosen (k, Some _)) -> if k = 0 then "+fv:subst0" else "+fv:substN")
         | _ -> "") in
      let k = (match run with
          | L (I k :: I li :: _) when zi k = 1 ->
            (match lk with
             | L [L ls] -> (match List.nth_opt ls (zi li) with Some (L [_; _; _; I ty; _]) -> "L" ^ string_of_int (zi ty) | _ -> "Lx")
             | _ -> "L-")
          | L (I k :: _) when zi k = 2 -> "M"
          | _ -> "A") in
      let ids_in = String.concat " " (List.map (function L (I id :: _) -> z_to_string id | _ -> "?") gl) in
      let res =
        if starts_with "ok:" out then begin
          let b = String.sub out 3 (String.length out - 3) in
          let b = (match String.index_opt b '|' with Some k -> String.sub b 0 k | None -> b) in
          let ids_out = if b = "" then "" else
              String.concat " " (List.map (fun g -> List.hd (split_on ':' g)) (split_on ',' b)) in
          if ids_in = ids_out then "same" else "changed"
        end
        else if starts_with "err" out then "err" else out in
      (if String.length k > 0 && k.[0] = 'L' then k else k ^ fvclass) ^ "/" ^ res
    | _ -> "?"
  with _ -> "?"

(* ---- the judge.  The model is proved to meet the declarative GSUB semantics (Props/C04.v), so the model's
   glyph sequence is the specified one.  What the property observes: glyph ids, unicodes, ligature and
   duplicate flags, liga_component_pos.  A difference confined to the other fields (origin, vert flag,
   carried bits) or to the returned window length is a broken correspondence, not a property violation. *)
let fields (g : string) = split_on ':' g

let observed (g : string) : string =
  match fields g with
  | [id; ch; pos; _org; flags; _rest] when String.length flags = 3 ->
    Printf.sprintf "%s:%s:%s:%c%c" id ch pos flags.[0] flags.[1]
  | _ -> g

(* `Whole`: gsub::apply, or gsub_apply_lookup with start = 0 and length = |glyphs| (what the property is
   about); `Window`: a proper sub-window that lies inside the glyph vector (what the FRAC path and the
   script-specific shapers pass); `Outside`: start + length > |glyphs|, a caller error that panics by design. *)
type scope = Whole | Window | Outside

let scope_of (input : string) : scope =
  try
    let (_, tree) = split_input input in
    match tree with
    | L (_ :: _ :: L (I k :: rest) :: L gl :: _) ->
      if zi k = 0 || zi k = 2 then Whole
      else (match rest with
          | [_; _; _; I start; I length] ->
            (match z_to_int_opt start, z_to_int_opt length with
             | Some s, Some l ->
               if s = 0 && l = List.length gl then Whole
               else if s >= 0 && l >= 0 && s + l <= List.length gl then Window
               else Outside
             | _ -> Outside)
          | _ -> Outside)
    | _ -> Outside
  with _ -> Outside

(* Independent oracle for single-substitution lookups run through gsub_apply_lookup: which glyphs take part is
   decided by the declarative skip_spec (Model/LayoutSpec.v), not by the model's match_glyph.  This is what
   makes the known deviation F12 (mark attachment type combined with a mark filtering set) observable: there
   the model follows the implementation, the specification does not.  Returns Some reason on a deviation. *)
let spec_single_check (input : string) (impl : string) : string option =
  try
    let (_, tree) = split_input input in
    match tree with
    | L (gd :: lay :: L [I k; I li; I tg; _alt; I start; I length] :: L gl :: _) when zi k = 1 && starts_with "ok:" impl ->
      let gd = gdef_ gd in
      let lay = layout_parse (layout_ lay) in
      let gs = List.map glyph_ gl in
      (match lay.lt_lookups with
       | Some lks ->
         (match List.nth_opt lks (zi li) with
          | Some { lk_flag = f; lk_mfs = mfs; lk_body = LSingle subs } ->
            let s = zi start and l = zi length in
            if s < 0 || l < 0 || s + l > List.length gs then None else begin
              let body = String.sub impl 3 (String.length impl - 3) in
              let body = (match String.index_opt body '|' with Some k -> String.sub body 0 k | None -> body) in
              let out = if body = "" then [] else split_on ',' body in
              if List.length out <> List.length gs then None else begin
                let res = ref None in
                List.iteri (fun k (g, o) ->
                    if !res = None && k >= s && k < s + l then begin
                      let expected =
                        if skip_spec f mfs gd g.g_id then Some g.g_id
                        else (match singlesubst subs tg g with Ok g' -> Some g'.g_id | _ -> None) in
                      let got = List.hd (split_on ':' o) in
                      match expected with
                      | Some e when z_to_string e <> got ->
                        res := Some (Printf.sprintf "glyph %d is %s, the lookup-flag rule of the specification gives %s (flag %s%s)"
                                       k got (z_to_string e) (z_to_string f)
                                       (if flag_combines_attach_and_set f mfs then ": mark attachment type and mark filtering set combined" else ""))
                      | _ -> ()
                    end) (List.combine gs out);
                !res
              end
            end
          | _ -> None)
       | None -> None)
    | _ -> None
  with _ -> None

let judge_core (input : string) (impl : string) (model : string) : verdict =
  match spec_single_check input impl with
  | Some why -> Violation ("skip-spec", why)
  | None ->
  if impl = model then begin
    if impl = "panic" then
      (match scope_of input with
       | Whole -> Violation ("panic", "substitution over the whole run panicked (the model reproduces it)")
       | Window -> Violation ("window-panic", "length bookkeeping of a sub-window panicked (modelled: a ligature or nested lookup consumed glyphs beyond the window)")
       | Outside -> Agree)
    else Agree
  end
  else if starts_with "MODEL-EXN" model then Mismatch "model driver failed to parse the case"
  else if impl = "panic" then
    (if scope_of input <> Outside then Violation ("panic", "substitution panicked; specified result " ^ (String.sub model 0 (min 60 (String.length model))))
     else Mismatch "implementation panicked on an out-of-range window, model did not")
  else if model = "panic" then Mismatch ("model panics, implementation returned " ^ (String.sub impl 0 (min 60 (String.length impl))))
  else if starts_with "err" impl || starts_with "err" model then
    Violation ("error", Printf.sprintf "implementation %s, specified %s"
                 (String.sub impl 0 (min 40 (String.length impl))) (String.sub model 0 (min 40 (String.length model))))
  else begin
    let body s =
      let s = String.sub s 3 (String.length s - 3) in
      match String.index_opt s '|' with
      | Some k -> (String.sub s 0 k, String.sub s (k + 1) (String.length s - k - 1))
      | None -> (s, "") in
    let (gi, li) = body impl and (gm, lm) = body model in
    let a = if gi = "" then [] else split_on ',' gi and b = if gm = "" then [] else split_on ',' gm in
    if List.length a <> List.length b then
      Violation ("subst", Printf.sprintf "output has %d glyphs, specified %d" (List.length a) (List.length b))
    else begin
      let rec go k a b =
        match a, b with
        | x :: a', y :: b' ->
          if observed x <> observed y then
            Some (Printf.sprintf "glyph %d is %s, specified %s" k (observed x) (observed y))
          else go (k + 1) a' b'
        | _ -> None in
      match go 0 a b with
      | Some why -> Violation ("subst", why)
      | None ->
        if li <> lm then Mismatch (Printf.sprintf "returned length %s, model %s" li lm)
        else Mismatch "glyph fields outside the property (origin / vert / carried bits) differ"
    end
  end


(* Cases with a feature-variations element are judged against the OCaml oracle (`fv_expected`: first matching
   record recomputed from the bytes, lookup lists substituted in the abstract feature list, glyphs by the
   proved lookup-application model of the unvaried table); the extracted feature-variations model is compared
   separately: if it differs from an implementation that meets the oracle, that is a Mismatch. *)
let judge_fv (input : string) (impl : string) (model : string) : verdict =
  match (try fv_expected input with _ -> None) with
  | None -> judge_core input impl model
  | Some (spec, dec) ->
    let unreadable s = starts_with "gsub-unreadable:" s in
    let v =
      if unreadable impl || unreadable spec then
        (if impl = spec then Agree
         else Violation ("error", Printf.sprintf "implementation %s, specified %s"
                           (String.sub impl 0 (min 40 (String.length impl))) (String.sub spec 0 (min 40 (String.length spec)))))
      else judge_core input impl spec in
    (match v with
     | Agree ->
       if model = impl then Agree
       else Mismatch ("the extracted feature-variations model differs from the implementation, which meets the oracle ("
                      ^ fv_describe dec ^ ")")
     | Mismatch why -> Mismatch why
     | Violation (cls, why) -> Violation (cls, why ^ "; feature variations: " ^ fv_describe dec))

(* ---- cases that go through Font::shape *)
let find_sub (s : string) (p : string) : int option =
  let n = String.length s and m = String.length p in
  let rec go i = if i + m > n then None else if String.sub s i m = p then Some i else go (i + 1) in
  go 0

let run (input : string) : string =
  match split_font input with
  | (i, None) -> run_core i
  | (i, Some f) -> shape_expected f (input_glyphs_of i) (run_core i)

(* `shape[E] R` -> (E, R) *)
let split_shape (s : string) : (string * string) option =
  if starts_with "shape[" s then
    (match String.index_opt s ']' with
     | Some k when k + 2 <= String.length s -> Some (String.sub s 6 (k - 6), String.sub s (k + 2) (String.length s - k - 2))
     | _ -> None)
  else None

let split_impl (impl : string) : string * string option =
  match find_sub impl " ~ " with
  | Some k -> (String.sub impl 0 k, Some (String.sub impl (k + 3) (String.length impl - k - 3)))
  | None -> (impl, None)

let tag (input : string) (out : string) : string =
  match (try split_font input with _ -> (input, None)) with
  | (i, None) -> tag_core i out
  | (i, Some f) ->
    let (s, _) = split_impl out in
    let (e, res) = (match split_shape s with Some x -> x | None -> ("-", s)) in
    (* S<GPOS absent - / present + / unreadable ?><GDEF likewise>/<result>[!: Font::shape returned an error] *)
    let t = tag_core i res in
    let t = (match String.index_opt t '/' with Some k -> String.sub t k (String.length t - k) | None -> "/" ^ t) in
    let sign = function 0 -> "-" | 2 -> "?" | _ -> "+" in
    Printf.sprintf "S:gpos%s:gdef%s%s%s" (sign f.f_gpos) (sign f.f_gdef) t (if e <> "-" then "!" else "")

(* What Font::shape returned, as the output the plain gsub::apply case would have had -- `reference` (an output of
   gsub::apply on the tables the font carries: the direct call, or the model's) tells which of the three situations
   an error belongs to.  Returns the plain output and whether the error report is as it should be. *)
let plain_of_shape (f : font) (input_glyphs : string) (got : string) (reference : string) : (string * string option) option =
  match split_shape got with
  | None -> None
  | Some (e, r) ->
    let env = font_table_error f in
    if starts_with "gsub-unreadable:" reference then
      (if e = "-" then Some (r, Some "Font::shape reports no error for an unreadable GSUB table")
       else if r = "ok:" ^ input_glyphs then Some ("gsub-unreadable:" ^ e, None)
       else Some (r, None))
    else if starts_with "err:" reference then
      (if e = "-" then Some (r, None)               (* judged as `ok` against `err` *)
       else if env then Some (reference, None)       (* the first error is the unreadable table's *)
       else Some ("err:" ^ e, None))
    else
      Some (r, (if env && e = "-" then Some "Font::shape reports no error although a table of the font is unreadable"
                else if (not env) && e <> "-" then Some ("Font::shape reports " ^ e ^ " although every table is readable and substitution succeeded")
                else None))

let judge (input : string) (impl : string) (model : string) : verdict =
  match (try split_font input with _ -> (input, None)) with
  | (i, None) -> judge_fv i impl model
  | (i, Some f) ->
    if starts_with "MODEL-EXN" model then Mismatch "model driver failed to parse the case"
    else if starts_with "gdef-unreadable:" impl then Mismatch "the case's GDEF does not parse"
    else begin
      let (got, direct) = split_impl impl in
      let gl = input_glyphs_of i in
      let font_desc = Printf.sprintf "font: GPOS %s, GDEF %s"
          (match f.f_gpos with 0 -> "absent" | 2 -> "unreadable" | _ -> "present")
          (match f.f_gdef with 0 -> "absent" | 2 -> "unreadable" | _ -> "present") in
      if got = "panic" then
        Violation ("panic", "Font::shape panicked (" ^ font_desc ^ "); specified " ^ (String.sub model 0 (min 60 (String.length model))))
      else begin
        (* 1. model independent: Font::shape against gsub::apply called directly on the font's own tables *)
        let v1 =
          (match direct with
           | None | Some "panic" -> Agree
           | Some d ->
             (match plain_of_shape f gl got d with
              | None -> Agree
              | Some (plain, _) ->
                if plain = d then Agree else
                  (match judge_core i plain d with
                   | Violation (_, why) ->
                     Violation ("shape", Printf.sprintf "Font::shape differs from gsub::apply on the font's own GSUB and GDEF tables: %s [here `specified` = the direct call] (%s)" why font_desc)
                   | _ -> Agree))) in
        match v1 with
        | Violation _ -> v1
        | _ ->
          (* 2. against the specification: model / feature-variations oracle on the rewritten case *)
          let base = run_core i in
          (match plain_of_shape f gl got base with
           | None -> Mismatch ("Font::shape output not understood: " ^ (String.sub got 0 (min 40 (String.length got))))
           | Some (plain, note) ->
             (match judge_fv i plain base with
              | Agree -> (match note with Some why -> Mismatch why | None -> Agree)
              | Mismatch why -> Mismatch why
              | Violation (cls, why) -> Violation (cls, why ^ " (through Font::shape; " ^ font_desc ^ ")")))
      end
    end
