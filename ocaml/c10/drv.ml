(* C10: containers.  input = KIND|FILEHEX|index|tags|ORACLE|EXPECT (see harness/src/bin/c10.rs) *)
open Model
open Zconv
open Verdict

let parse_oracle (s : string) : (z list * z list option) list =
  if s = "-" then [] else
  List.map (fun p -> match split_on '=' p with
    | [c; "!"] -> (bytes_of_hex c, None)
    | [c; o] -> (bytes_of_hex c, Some (bytes_of_hex o))
    | _ -> failwith "oracle") (split_on ';' s)

let fields input = match split_on '|' input with
  | [k; file; idx; tags; orc; exp] ->
    (k, bytes_of_hex file, z_of_string idx,
     (if tags = "" then [] else List.map z_of_string (split_on ',' tags)), parse_oracle orc, exp)
  | _ -> failwith "c10 input"

let run (input : string) : string =
  let (_, file, idx, tags, orc, _) = fields input in
  let inflate b = try List.assoc b orc with Not_found -> None in
  let s = scope_new file in
  match font_provider s idx with
  | Ok p ->
    let head = [ "ver=" ^ z_to_string (provider_version p); "tags=" ^ zlist_to_string (provider_tags p) ] in
    let per = List.map (fun t ->
      match provider_table inflate s p t with
      | Ok (Some d) -> z_to_string t ^ ":some:" ^ hex_of_bytes d
      | Ok None -> z_to_string t ^ ":none"
      | Err e -> z_to_string t ^ ":err:" ^ err_to_string e
      | Panic -> z_to_string t ^ ":panic"
      | OOB -> z_to_string t ^ ":oob") tags in
    String.concat ";" (head @ per)
  | Err e -> "err:" ^ err_to_string e
  | Panic -> "panic"
  | OOB -> "oob"

(* The property on the implementation's output, for files the generator built well-formed (EXPECT
   known): flavour and tag list preserved; each queried tag returns the stored bytes of the first
   record with that tag, absent tags report none; a member index beyond a collection's end is an
   error.  Independent of the model. *)
let judge (input : string) (impl : string) (model : string) : verdict =
  if starts_with "panic" impl then Violation ("panic", "container access panicked")
  else if starts_with "oob" impl then Violation ("oob", "out-of-bounds read")
  else begin
    let (_, _, _, tags, _, exp) = fields input in
    let spec_violation =
      if exp = "?" then None else begin
        let items = split_on ';' exp in
        let ver = List.hd items and tg = List.nth items 1 in
        let ver = String.sub ver 4 (String.length ver - 4) in
        let tg = String.sub tg 5 (String.length tg - 5) in
        let stored = List.filter_map (fun it -> match split_on '=' it with
          | [t; h] -> Some (t, h) | _ -> None) (List.tl (List.tl items)) in
        if ver = "4294967295" then
          (if starts_with "err:" impl then None else Some ("index", "member index beyond the collection was accepted"))
        else if starts_with "err:" impl then Some ("reject", "well-formed container rejected: " ^ impl)
        else begin
          let parts = split_on ';' impl in
          let iv = List.hd parts and it = List.nth parts 1 in
          if iv <> "ver=" ^ ver then Some ("flavour", "sfnt flavour not preserved: " ^ iv)
          else if it <> "tags=" ^ tg then Some ("tags", "tag set differs: " ^ it)
          else begin
            let per = List.tl (List.tl parts) in
            let bad = ref None in
            List.iteri (fun i t ->
              let ts = z_to_string t in
              let got = List.nth per i in
              let want = match List.assoc_opt ts stored with
                | Some h -> ts ^ ":some:" ^ h
                | None -> ts ^ ":none" in
              if got <> want && !bad = None then bad := Some ("table", "table " ^ ts ^ ": got " ^ got ^ ", stored " ^ want)) tags;
            !bad
          end
        end
      end in
    match spec_violation with
    | Some (c, w) -> Violation (c, w)
    | None -> if impl = model then Agree else Mismatch "implementation and model differ"
  end

let contains (sub : string) (s : string) : bool =
  let n = String.length sub and m = String.length s in
  let rec go i = i + n <= m && (String.sub s i n = sub || go (i + 1)) in go 0

let tag (input : string) (out : string) : string =
  let (k, _, _, _, _, _) = fields input in
  k ^ "-" ^ (if starts_with "err:" out then out else if contains ":err:" out then "table-err" else "ok")
