(* C13: FvarTable::normalize.  input = N|min,def,max ...|AVAR|coords ; result ok:v,.. | err:E | panic *)
open Model
open Zconv
open Verdict

(* an axis of the input: ((min, def), max) and its tag *)
let parse_axes4 s =
  List.mapi (fun i a -> match List.map z_of_string (split_on ',' a) with
    | [a; b; c] -> (((z_of_int (0x77676874 + i), a), b), c)
    | [a; b; c; t] -> (((t, a), b), c)
    | _ -> failwith "axis") (List.filter (fun a -> a <> "") (split_on ' ' s))
let triple (((_, a), b), c) = ((a, b), c)
let parse_axes s = List.map triple (parse_axes4 s)

let parse_map m =
  if m = "_" then [] else
  List.map (fun ft -> match split_on ':' ft with
    | [f; t] -> (z_of_string f, z_of_string t) | _ -> failwith "map") (split_on ',' m)

let parse_avar s =
  if s = "-" then None else
  Some (List.filter_map (fun m -> if m = "" then None else Some (parse_map m)) (split_on ' ' s))

let named cs = if String.length cs > 0 && cs.[0] = '@' then Some (z_of_string (String.sub cs 1 (String.length cs - 1))) else None
let parse_coords cs = if cs = "-" || cs = "" || named cs <> None then [] else List.map z_of_string (split_on ',' cs)

let parse_shape s = match List.map z_of_string (split_on ',' s) with
  | [a; b; c; d; e; f; g] ->
    { sh_major = a; sh_off = b; sh_asz = c; sh_dcount = d; sh_icnt = e; sh_isz = f; sh_trail = g }
  | _ -> failwith "shape"

let canonical = parse_shape "1,16,20,0,0,0,0"

(* the layout is one the format allows: parsing must find exactly the axes that were written *)
let shape_ok sh =
  let i = z_to_int in
  i sh.sh_major = 1 && i sh.sh_off >= 16 && i sh.sh_asz >= 20 && i sh.sh_dcount = 0 && i sh.sh_trail >= 0

type case =
  | Tuple of string * shape * (((z * z) * z) * z) list * (z * z) list list option * z list   (* N / F / I *)
  | Named of string * shape * (((z * z) * z) * z) list * (z * z) list list option * z         (* F / I with @k *)
  | Owned of shape * (((z * z) * z) * z) list * z
  | Seg of (z * z) list * z

let parse_case input = match split_on '|' input with
  | ["N"; ax; av; cs] -> Tuple ("N", canonical, parse_axes4 ax, parse_avar av, parse_coords cs)
  | [("F" | "I") as k; sh; ax; av; cs] when named cs <> None ->
    (match named cs with Some i -> Named (k, parse_shape sh, parse_axes4 ax, parse_avar av, i) | None -> failwith "named")
  | [("F" | "I") as k; sh; ax; av; cs] -> Tuple (k, parse_shape sh, parse_axes4 ax, parse_avar av, parse_coords cs)
  | ["O"; sh; ax; k] -> Owned (parse_shape sh, parse_axes4 ax, z_of_string k)
  | ["S"; m; x] -> Seg (parse_map m, z_of_string x)
  | _ -> failwith "c13 input"

let run (input : string) : string =
  match parse_case input with
  | Tuple ("N", _, axes, avar, coords) ->
    (* the arithmetic model alone; the byte-level model below must agree with it (C13_fvar_bytes_normalize) *)
    let direct = outcome_to_string zlist_to_string (fvar_normalize (List.map triple axes) coords avar) in
    let bytes = outcome_to_string zlist_to_string (case_normalize Release canonical axes coords avar) in
    if direct = bytes then direct else "model-inconsistent:" ^ direct ^ "/" ^ bytes
  | Tuple ("I", sh, axes, avar, coords) -> outcome_to_string zlist_to_string (case_instance Release sh axes coords avar)
  | Tuple (_, sh, axes, avar, coords) -> outcome_to_string zlist_to_string (case_normalize Release sh axes coords avar)
  | Named (_, sh, axes, avar, k) -> outcome_to_string zlist_to_string (case_named Release sh axes k avar)
  | Owned (sh, axes, k) -> outcome_to_string z_to_string (case_owned_tuple Release sh axes k)
  | Seg (m, x) -> "ok:" ^ z_to_string (avar_normalize m x)

(* ---- the property, decided on the implementation's output without the model's result ---- *)

(* plain normalisation of a well-formed axis: within one 2.14 unit of the exact rational, -1/0/+1 exactly at
   min/default/max (OCaml ints: every product below is < 2^50) *)
let plain_bad (axes : ((z * z) * z) list) (coords : z list) (iv : z list) : bool =
  let bad = ref false in
  List.iteri (fun i ((mn, df), mx) ->
    let mn = z_to_int mn and df = z_to_int df and mx = z_to_int mx in
    if mn <= df && df <= mx then begin
      let c = max mn (min mx (z_to_int (List.nth coords i))) in
      let r = z_to_int (List.nth iv i) in
      if c = df then (if r <> 0 then bad := true)
      else if c < df then begin
        let span = df - mn in
        if abs (r * span - 16384 * (c - df)) > span then bad := true;
        if c = mn && r <> -16384 then bad := true
      end else begin
        let span = mx - df in
        if abs (r * span - 16384 * (c - df)) > span then bad := true;
        if c = mx && r <> 16384 then bad := true
      end
    end) axes;
  !bad

let map_valid (m : (int * int) list) : bool =
  let rec sorted = function (f1, _) :: ((f2, _) :: _ as r) -> f1 < f2 && sorted r | _ -> true in
  sorted m && List.for_all (fun (f, t) -> abs f <= 16384 && abs t <= 16384) m && List.length m >= 2

(* exact piecewise-linear image (in 2.14 units, as a float) of the 16.16 value n under a valid map, with the
   slope of the segment in use; None when n lies outside the map *)
let seg_ideal (m : (int * int) list) (n : int) : (float * float) option =
  let rec seg = function
    | (f1, t1) :: ((f2, t2) :: _ as r) ->
      if n >= f1 * 4 && n <= f2 * 4 then Some (f1, t1, f2, t2) else seg r
    | _ -> None in
  match seg m with
  | Some (f1, t1, f2, t2) ->
    let ideal = float_of_int t1 +. (float_of_int n /. 4.0 -. float_of_int f1) *. float_of_int (t2 - t1) /. float_of_int (f2 - f1) in
    Some (ideal, abs_float (float_of_int (t2 - t1) /. float_of_int (f2 - f1)))
  | None -> None

(* through avar: compare with the exact piecewise-linear map of the default-normalised value, for maps that
   are valid (strictly sorted knots, within [-1,1], containing the value); tolerance = 2 + slope of the
   segment in use (the property's slope-scaled bound) *)
let avar_bad (axes : ((z * z) * z) list) (maps : (z * z) list list) (coords : z list) (iv : z list) : bool =
  let bad = ref false in
  List.iteri (fun i ((mn, df), mx) ->
    if i < List.length maps && i < List.length iv then begin
      let m = List.map (fun (f, t) -> (z_to_int f, z_to_int t)) (List.nth maps i) in
      if map_valid m then begin
        let n = z_to_int (default_normalize mn df mx (List.nth coords i)) in   (* 16.16 *)
        match seg_ideal m n with
        | Some (ideal, slope) ->
          let ideal = max (-16384.0) (min 16384.0 ideal) in
          let got = float_of_int (z_to_int (List.nth iv i)) in
          if abs_float (got -. ideal) > 2.0 +. slope then bad := true
        | None -> ()
      end
    end) axes;
  !bad

let ok_list (s : string) : z list = zlist_of_string (String.sub s 3 (String.length s - 3))

(* a user tuple `coords` against a table of SHAPE `sh` whose written records are `axes4` *)
let judge_tuple sh axes4 avar coords (impl : string) (model : string) : verdict =
    let axes = List.map triple axes4 in
    let declared = List.length axes + z_to_int sh.sh_dcount in
    if List.length coords <> declared then
      (if starts_with "err:" impl then Mismatch "different error" else Violation ("len", "tuple of the wrong length accepted"))
    else if starts_with "ok:" impl then begin
      let iv = ok_list impl in
      if List.exists (fun v -> let i = z_to_int v in i < -16384 || i > 16384) iv then
        Violation ("range", "component outside [-1, 1]")
      else if List.length iv <> declared then Violation ("len", "result tuple has the wrong length")
      else if not (shape_ok sh) then Mismatch "values differ from the model (malformed table)"
      else if avar = None && plain_bad axes coords iv then
        Violation ("accuracy", "component is not within one 2.14 unit of the exact value, or an end point is not exactly -1/0/+1")
      else if (match avar with Some maps -> avar_bad axes maps coords iv | None -> false) then
        Violation ("avar-accuracy", "component is not within the slope-scaled bound of the exact avar interpolation")
      else if starts_with "ok:" model then Mismatch "values differ from the model"
      else Mismatch "result kinds differ"
    end
    else Mismatch "result kinds differ"


(* the property on the implementation's output: never a panic; a tuple whose length is not the table's
   axisCount is rejected, at FvarTable::normalize, variations::instance and FvarTable::owned_tuple alike;
   every component within [-16384, 16384]; on a table the format allows (any axesArrayOffset >= 16, any
   axisSize >= 20, instance records, trailing bytes) the axes are the records that were written, so without
   avar the value of a well-formed axis is within one 2.14 unit of the exact rational normalisation and
   hits -1/0/+1 exactly at min/default/max, and through a valid avar map within the slope-scaled bound.
   Anything else that differs from the model is a broken correspondence. *)
let judge (input : string) (impl : string) (model : string) : verdict =
  if starts_with "panic" impl || starts_with "oob" impl then Violation ("panic", "normalize panicked")
  else if impl = model then Agree
  else match parse_case input with
  | Seg (m, x) ->
    if not (starts_with "ok:" impl) then Mismatch "result kinds differ" else begin
      let m = List.map (fun (f, t) -> (z_to_int f, z_to_int t)) m and x = z_to_int x in
      let got = z_to_int (z_of_string (String.sub impl 3 (String.length impl - 3))) in
      if map_valid m && List.exists (fun (f, t) -> f * 4 = x && got <> t * 4) m then
        Violation ("avar-knot", "a knot of the segment map is not mapped exactly to its target")
      else match (if map_valid m then seg_ideal m x else None) with
        | Some (ideal, slope) when abs_float (float_of_int got /. 4.0 -. ideal) > 2.0 +. slope ->
          Violation ("avar-accuracy", "SegmentMap::normalize is not within the slope-scaled bound of the exact interpolation")
        | _ -> Mismatch "values differ from the model"
    end
  | Owned (sh, axes, k) ->
    let declared = List.length axes + z_to_int sh.sh_dcount in
    if impl = "ok:1" && z_to_int k <> declared then Violation ("len", "owned_tuple accepted a tuple of the wrong length")
    else Mismatch "owned_tuple differs from the model"
  | Tuple (_, sh, axes4, avar, coords) -> judge_tuple sh axes4 avar coords impl model
  | Named (_, sh, axes4, avar, k) ->
    (* the coordinates of named instance k are known when the layout is legal and the record holds them all *)
    let n = List.length axes4 and k = z_to_int k in
    if shape_ok sh && k >= 0 && k < z_to_int sh.sh_icnt && z_to_int sh.sh_isz >= 4 + 4 * n then
      judge_tuple sh axes4 avar (inst_coords (z_of_int k) Z0 axes4) impl model
    else if starts_with "ok:" impl && List.exists (fun v -> let i = z_to_int v in i < -16384 || i > 16384) (ok_list impl) then
      Violation ("range", "component outside [-1, 1]")
    else Mismatch "named instance differs from the model"

let tag (input : string) (out : string) : string =
  let res = String.sub out 0 (min 2 (String.length out)) in
  match parse_case input with
  | Seg _ -> "seg-" ^ res
  | Owned (sh, _, _) -> "owned-" ^ (if shape_ok sh then "legal-" else "malformed-") ^ res
  | Named (k, sh, _, avar, _) ->
    (if k = "F" then "fvar-" else "instance-") ^ "named-" ^ (if shape_ok sh then "legal-" else "malformed-")
    ^ (if avar = None then "plain" else "avar") ^ "-" ^ res
  | Tuple ("N", _, axes, avar, _) ->
    (if avar = None then "plain" else "avar") ^ "-" ^ string_of_int (min 3 (List.length axes)) ^ "ax-" ^ res
  | Tuple (k, sh, _, avar, _) ->
    (if k = "F" then "fvar-" else "instance-")
    ^ (if not (shape_ok sh) then "malformed-" else if z_to_int sh.sh_asz > 20 then "stride-" else "packed-")
    ^ (if avar = None then "plain" else "avar") ^ "-" ^ res
