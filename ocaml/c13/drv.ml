(* C13: FvarTable::normalize.  input = N|min,def,max ...|AVAR|coords ; result ok:v,.. | err:E | panic *)
open Model
open Zconv
open Verdict

let parse_axes s =
  List.filter_map (fun a -> if a = "" then None else
    match List.map z_of_string (split_on ',' a) with
    | [a; b; c] -> Some ((a, b), c) | _ -> failwith "axis") (split_on ' ' s)

let parse_avar s =
  if s = "-" then None else
  Some (List.filter_map (fun m -> if m = "" then None else if m = "_" then Some [] else
    Some (List.map (fun ft -> match split_on ':' ft with
      | [f; t] -> (z_of_string f, z_of_string t) | _ -> failwith "map") (split_on ',' m)))
    (split_on ' ' s))

let parts input = match split_on '|' input with
  | [_; ax; av; cs] -> (parse_axes ax, parse_avar av, (if cs = "-" || cs = "" then [] else List.map z_of_string (split_on ',' cs)))
  | _ -> failwith "c13 input"

let run (input : string) : string =
  let (axes, avar, coords) = parts input in
  outcome_to_string zlist_to_string (fvar_normalize axes coords avar)

(* the property on the implementation's output: never a panic; a wrong-length tuple is rejected;
   every component within [-16384, 16384]; without avar on a well-formed axis the value is within one
   2.14 unit of the exact rational normalisation and hits -1/0/+1 exactly at min/default/max.
   Anything else that differs from the model is a broken correspondence. *)
let judge (input : string) (impl : string) (model : string) : verdict =
  if starts_with "panic" impl || starts_with "oob" impl then Violation ("panic", "normalize panicked")
  else if impl = model then Agree
  else begin
    let (axes, avar, coords) = parts input in
    if List.length axes <> List.length coords then
      (if starts_with "err:" impl then Mismatch "different error" else Violation ("len", "tuple of the wrong length accepted"))
    else if starts_with "ok:" impl && starts_with "ok:" model then begin
      let iv = zlist_of_string (String.sub impl 3 (String.length impl - 3)) in
      let mv = zlist_of_string (String.sub model 3 (String.length model - 3)) in
      if List.length iv <> List.length mv then Violation ("len", "result tuple has the wrong length")
      else if List.exists (fun v -> let i = z_to_int v in i < -16384 || i > 16384) iv then
        Violation ("range", "component outside [-1, 1]")
      else if avar = None && (
        (* exact-rational accuracy and endpoint exactness, per well-formed axis (OCaml ints: < 2^46) *)
        let bad = ref false in
        List.iteri (fun i ((mn, df), mx) ->
          let mn = z_to_int mn and df = z_to_int df and mx = z_to_int mx in
          if mn <= df && df <= mx then begin
            let c = max mn (min mx (z_to_int (List.nth coords i))) in
            let r = z_to_int (List.nth iv i) in
            if c = df then (if r <> 0 then bad := true)
            else if c < df then begin
              let span = df - mn in
              if abs (r * span - 16384 * (c - df)) > span then bad := true;
              if c = mn && r <> -16384 then bad := true
            end else begin
              let span = mx - df in
              if abs (r * span - 16384 * (c - df)) > span then bad := true;
              if c = mx && r <> 16384 then bad := true
            end
          end) axes;
        !bad)
      then Violation ("accuracy", "component is not within one 2.14 unit of the exact value, or an end point is not exactly -1/0/+1")
      else if avar <> None && (
        (* through avar: compare with the exact piecewise-linear map of the default-normalised value,
           for maps that are valid (strictly sorted knots, within [-1,1], containing the value);
           tolerance = 2 + slope of the segment in use (the property's slope-scaled bound) *)
        let maps = match avar with Some m -> m | None -> [] in
        let bad = ref false in
        List.iteri (fun i ((mn, df), mx) ->
          if i < List.length maps && i < List.length iv then begin
            let m = List.map (fun (f, t) -> (z_to_int f, z_to_int t)) (List.nth maps i) in
            let sorted = let rec ok = function (f1, _) :: ((f2, _) :: _ as r) -> f1 < f2 && ok r | _ -> true in ok m in
            let inrange = List.for_all (fun (f, t) -> abs f <= 16384 && abs t <= 16384) m in
            if sorted && inrange && List.length m >= 2 then begin
              let n = z_to_int (default_normalize mn df mx (List.nth coords i)) in   (* 16.16 *)
              let rec seg = function
                | (f1, t1) :: ((f2, t2) :: _ as r) ->
                  if n >= f1 * 4 && n <= f2 * 4 then Some (f1, t1, f2, t2) else seg r
                | _ -> None in
              match seg m with
              | Some (f1, t1, f2, t2) ->
                let ideal = float_of_int t1 +. (float_of_int n /. 4.0 -. float_of_int f1) *. float_of_int (t2 - t1) /. float_of_int (f2 - f1) in
                let ideal = max (-16384.0) (min 16384.0 ideal) in
                let slope = abs_float (float_of_int (t2 - t1) /. float_of_int (f2 - f1)) in
                let got = float_of_int (z_to_int (List.nth iv i)) in
                if abs_float (got -. ideal) > 2.0 +. slope then bad := true
              | None -> ()
            end
          end) axes;
        !bad)
      then Violation ("avar-accuracy", "component is not within the slope-scaled bound of the exact avar interpolation")
      else Mismatch "values differ from the model"
    end
    else Mismatch "result kinds differ"
  end

let tag (input : string) (out : string) : string =
  let (axes, avar, _) = parts input in
  (if avar = None then "plain" else "avar") ^ "-" ^ string_of_int (min 3 (List.length axes)) ^ "ax-"
  ^ (String.sub out 0 (min 2 (String.length out)))
