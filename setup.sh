#!/bin/sh
# MANIFEST.setup_cmd: build the whole framework offline from files on disk.
set -e
cd "$(dirname "$0")"
export CARGO_NET_OFFLINE=true
mkdir -p work evidence
for t in translators/tr_*.py; do python3 "$t" || echo "setup: $t reported a broken anchor"; done
cd coq
./mkproject.sh
timeout 3000 make -j16 || echo "setup: coq build incomplete"
cd ../ocaml && ./build.sh || echo "setup: ocaml driver build failed"
cd ../harness
cp /repo/Cargo.lock Cargo.lock 2>/dev/null || true
cargo build --offline 2>&1 | tail -2
cargo build --offline --release 2>&1 | tail -2
echo "setup: done"
